#!/usr/bin/env python
"""Unit-level soundness / completeness pairs for the refactoring-equivalence normaliser (E13, sa/equiv.py).

Each entry is (name, function A, function B, expected): the two sources are canonicalised and compared.  For every
rewrite there is a pair that must be proved equal and a near miss that must NOT be (the rewrite's side condition fails:
there the two functions really differ, or the difference cannot be excluded).  ``None`` marks a pair that is equal in
fact but known not to be proved (a documented limit: reported, never a failure).  Nothing of the repository runs; this is
a test of the tool, not a property check.

usage: equiv_pairs.py            exit 0 when every pair gives the expected answer
"""
import ast
import os
import sys

sys.path.insert(0, os.path.dirname(os.path.dirname(os.path.abspath(__file__))))
from sa import equiv  # noqa: E402

PAIRS = []


def P(name, a, b, same):
    PAIRS.append((name, a, b, same))


# --- guard clauses in loops -------------------------------------------------------------------------------------------
P("continue-guard", """
def f(xs, out):
    for x in xs:
        if x in out:
            continue
        out.append(x)
""", """
def f(xs, out):
    for x in xs:
        if x not in out:
            out.append(x)
""", True)
P("continue-guard-wrong-polarity", """
def f(xs, out):
    for x in xs:
        if x not in out:
            continue
        out.append(x)
""", """
def f(xs, out):
    for x in xs:
        if x not in out:
            out.append(x)
""", False)
# --- break of a loop that ends the function ---------------------------------------------------------------------------
P("break-is-return-at-end", """
def f(q):
    while True:
        x = q.get()
        if x is None:
            break
        q.done(x)
""", """
def f(q):
    while True:
        x = q.get()
        if x is None:
            return
        q.done(x)
""", True)
P("break-not-return-with-code-after", """
def f(q):
    while True:
        x = q.get()
        if x is None:
            break
        q.done(x)
    q.close()
""", """
def f(q):
    while True:
        x = q.get()
        if x is None:
            return
        q.done(x)
    q.close()
""", False)
# --- private lists ------------------------------------------------------------------------------------------------------
P("private-list-reset", """
def f(src, sink):
    gone = []
    while True:
        for s in src:
            if s.dead():
                gone.append(s)
        if gone:
            for s in gone:
                sink.remove(s)
            gone = []
        if not src:
            return
""", """
def f(src, sink):
    gone = []
    while True:
        for s in src:
            if s.dead():
                gone.append(s)
        for s in gone:
            sink.remove(s)
        del gone[:]
        if not src:
            return
""", True)
P("shared-list-reset-differs", """
def f(src, sink):
    gone = []
    sink.watch(gone)
    for s in src:
        gone.append(s)
    gone = []
    return gone
""", """
def f(src, sink):
    gone = []
    sink.watch(gone)
    for s in src:
        gone.append(s)
    del gone[:]
    return gone
""", False)
# --- threading of a decided test --------------------------------------------------------------------------------------
P("threaded-literal-test", """
def f(first, seq):
    if first == 0:
        last = 0
        for el in seq:
            if el:
                last = 1
                break
    else:
        last = -1 if first < 0 else 1
    return last
""", """
def f(first, seq):
    if first == 0:
        last = 0
    else:
        last = -1 if first < 0 else 1
    if last == 0:
        for el in seq:
            if el:
                last = 1
                break
    return last
""", True)
P("threaded-test-undecided", """
def f(first, seq):
    if first == 0:
        last = 0
        for el in seq:
            if el:
                last = 1
                break
    else:
        last = first
    return last
""", """
def f(first, seq):
    if first == 0:
        last = 0
    else:
        last = first
    if last == 0:
        for el in seq:
            if el:
                last = 1
                break
    return last
""", False)
# --- read aliases ---------------------------------------------------------------------------------------------------------
P("read-alias-item", """
def f(flt):
    den = flt.denominator
    if den[0] != 1:
        flt = flt / den[0]
    return flt
""", """
def f(flt):
    den = flt.denominator
    gain = den[0]
    if gain != 1:
        flt = flt / gain
    return flt
""", True)
P("read-alias-across-write", """
def f(flt):
    den = flt.denominator
    gain = den[0]
    den[0] = 1
    return flt / gain
""", """
def f(flt):
    den = flt.denominator
    den[0] = 1
    return flt / den[0]
""", False)
# --- size taken once over a chain ---------------------------------------------------------------------------------------
P("len-once-chain", """
def f(p, q):
    if len(q) == 1:
        return p.shift(q)
    elif len(q) == 0:
        raise ZeroDivisionError("zero")
    raise NotImplementedError("general")
""", """
def f(p, q):
    n = len(q)
    if n == 0:
        raise ZeroDivisionError("zero")
    if n != 1:
        raise NotImplementedError("general")
    return p.shift(q)
""", True)
P("len-chain-other-limit", """
def f(p, q):
    if len(q) == 1:
        return p.shift(q)
    elif len(q) == 0:
        raise ZeroDivisionError("zero")
    raise NotImplementedError("general")
""", """
def f(p, q):
    n = len(q)
    if n == 0:
        raise ZeroDivisionError("zero")
    if n != 2:
        raise NotImplementedError("general")
    return p.shift(q)
""", False)
# --- int comparisons ------------------------------------------------------------------------------------------------------
P("int-compare-shift", """
def f(a, out):
    la = len(a)
    lm = la - 1
    if la > 1:
        out.append(lm)
""", """
def f(a, out):
    la = len(a)
    lm = la - 1
    if lm > 0:
        out.append(lm)
""", None)
P("int-compare-off-by-one", """
def f(a, out):
    la = len(a)
    lm = la - 1
    if la > 1:
        out.append(lm)
""", """
def f(a, out):
    la = len(a)
    lm = la - 1
    if lm >= 0:
        out.append(lm)
""", False)
P("float-compare-not-shifted", """
def f(x, out):
    y = x - 1
    if x > 1:
        out.append(y)
""", """
def f(x, out):
    y = x - 1
    if y > 0:
        out.append(y)
""", False)
# --- tuples -----------------------------------------------------------------------------------------------------------------
P("tuple-ifexp", """
def f(ac, order):
    if order is None:
        order = len(ac) - 1
    elif order >= len(ac):
        ac = pad(ac, order + 1)
    return ac, order
""", """
def f(ac, order):
    ac, order = (ac, len(ac) - 1) if order is None else ((pad(ac, order + 1), order) if order >= len(ac) else (ac, order))
    return ac, order
""", True)
P("tuple-swap-not-sequential", """
def f(a, b):
    a, b = b, a
    return a - b
""", """
def f(a, b):
    a = b
    b = a
    return a - b
""", False)
# --- lambdas / local functions --------------------------------------------------------------------------------------------
P("local-def-as-value", """
def f(self, other, op):
    return Stream(map(lambda a: op(a, other), iter(self)))
""", """
def f(self, other, op):
    def apply_scalar(a):
        return op(a, other)
    return Stream(map(apply_scalar, iter(self)))
""", True)
P("local-def-other-operands", """
def f(self, other, op):
    return Stream(map(lambda a: op(a, other), iter(self)))
""", """
def f(self, other, op):
    def apply_scalar(a):
        return op(other, a)
    return Stream(map(apply_scalar, iter(self)))
""", False)
# --- folds ---------------------------------------------------------------------------------------------------------------------
P("sum-loop", """
def f(size, z):
    return sum((1.0 / size) * z ** -i for i in range(size))
""", """
def f(size, z):
    acc = 0
    for i in range(size):
        acc = acc + (1.0 / size) * z ** -i
    return acc
""", True)
P("sum-loop-inplace-differs", """
def f(size, z):
    return sum((1.0 / size) * z ** -i for i in range(size))
""", """
def f(size, z):
    acc = 0
    for i in range(size):
        acc += (1.0 / size) * z ** -i
    return acc
""", False)
P("sum-loop-other-start", """
def f(size, z):
    return sum((1.0 / size) * z ** -i for i in range(size))
""", """
def f(size, z):
    acc = 0.0
    for i in range(size):
        acc = acc + (1.0 / size) * z ** -i
    return acc
""", False)
# --- first item of an iterator ---------------------------------------------------------------------------------------------
P("first-item-for-break", """
def f(iterable):
    it_ = iter(iterable)
    try:
        acc = next(it_)
    except StopIteration:
        return
    yield acc
    for x in it_:
        acc += x
        yield acc
""", """
def f(iterable):
    it_ = iter(iterable)
    for acc in it_:
        break
    else:
        return
    yield acc
    for x in it_:
        acc += x
        yield acc
""", True)
P("first-item-of-a-list-differs", """
def f(items):
    try:
        acc = next(items)
    except StopIteration:
        return
    yield acc
""", """
def f(items):
    for acc in items:
        break
    else:
        return
    yield acc
""", False)
# --- count loops ----------------------------------------------------------------------------------------------------------------
P("count-loop", """
def f(B, order):
    m = 1
    while True:
        B.step(m)
        if m >= order:
            return B
        m += 1
""", """
def f(B, order):
    for m in count(1):
        B.step(m)
        if m >= order:
            return B
""", True)
P("count-loop-other-start", """
def f(B, order):
    m = 1
    while True:
        B.step(m)
        if m >= order:
            return B
        m += 1
""", """
def f(B, order):
    for m in count(0):
        B.step(m)
        if m >= order:
            return B
""", False)
# --- product --------------------------------------------------------------------------------------------------------------------
P("product-of-two-lists", """
def f(a, b, acc):
    xs = [(k, thub(v, 2)) for k, v in a.items()]
    ys = [(k, thub(v, 2)) for k, v in b.items()]
    for k1, v1 in xs:
        for k2, v2 in ys:
            acc[k1 + k2] = v1 * v2
    return acc
""", """
def f(a, b, acc):
    xs = [(k, thub(v, 2)) for k, v in a.items()]
    ys = [(k, thub(v, 2)) for k, v in b.items()]
    for (k1, v1), (k2, v2) in product(xs, ys):
        acc[k1 + k2] = v1 * v2
    return acc
""", True)
P("product-of-iterators-differs", """
def f(xs, ys, acc):
    for k1, v1 in xs:
        for k2, v2 in ys:
            acc[k1 + k2] = v1 * v2
    return acc
""", """
def f(xs, ys, acc):
    for (k1, v1), (k2, v2) in product(xs, ys):
        acc[k1 + k2] = v1 * v2
    return acc
""", False)
# --- format ------------------------------------------------------------------------------------------------------------------------
P("format-unused-keyword", """
def f(out, delay, coeff):
    out.append("d{idx}".format(idx=delay))
""", """
def f(out, delay, coeff):
    out.append("d{idx}".format(idx=delay, value=coeff))
""", True)
P("format-used-keyword", """
def f(out, delay, coeff):
    out.append("{value} * d{idx}".format(idx=delay, value=1))
""", """
def f(out, delay, coeff):
    out.append("{value} * d{idx}".format(idx=delay, value=coeff))
""", False)
# --- flags over private lists --------------------------------------------------------------------------------------------------
P("list-flag-floats", """
def f(coeffs, out):
    streams = []
    for k, c in coeffs:
        if c.lazy:
            streams.append(k)
    names = ["seq"]
    names.extend("b%d" % k for k in streams)
    if streams:
        out.append("try")
    else:
        out.append("plain")
    return names
""", """
def f(coeffs, out):
    streams = []
    for k, c in coeffs:
        if c.lazy:
            streams.append(k)
    constant = not streams
    names = ["seq"]
    names.extend("b%d" % k for k in streams)
    if constant:
        out.append("plain")
    else:
        out.append("try")
    return names
""", True)
P("list-flag-stale", """
def f(coeffs, out):
    streams = []
    constant = not streams
    for k, c in coeffs:
        if c.lazy:
            streams.append(k)
    if constant:
        out.append("plain")
    else:
        out.append("try")
""", """
def f(coeffs, out):
    streams = []
    for k, c in coeffs:
        if c.lazy:
            streams.append(k)
    if not streams:
        out.append("plain")
    else:
        out.append("try")
""", False)
# --- tails copied into arms --------------------------------------------------------------------------------------------------------
P("one-loop-after-the-arms", """
def gen(keep, src, conv, d):
    if keep:
        for el in src():
            yield conv(el)
    else:
        for el in src():
            yield conv(el) / d
""", """
def gen(keep, src, conv, d):
    if keep:
        c = conv
    else:
        c = lambda v: conv(v) / d
    for el in src():
        yield c(el)
""", None)
P("one-loop-wrong-arm", """
def gen(keep, src, conv, d):
    if keep:
        for el in src():
            yield conv(el)
    else:
        for el in src():
            yield conv(el) / d
""", """
def gen(keep, src, conv, d):
    if not keep:
        c = conv
    else:
        c = lambda v: conv(v) / d
    for el in src():
        yield c(el)
""", False)
# --- effect order is kept ------------------------------------------------------------------------------------------------------------
P("temporary-after-effect-not-moved", """
def f(q, data):
    it_ = iter(data)
    q.lock()
    q.push(it_)
""", """
def f(q, data):
    q.lock()
    q.push(iter(data))
""", False)
P("temporary-before-attribute-chain", """
def f(self, delta, data):
    it_ = iter(data)
    self._pending.append((delta, it_))
""", """
def f(self, delta, data):
    self._pending.append((delta, iter(data)))
""", True)


# --- bindings of total values float to their first use -------------------------------------------------------------------------
P("fresh-container-floats", """
def f(x, log):
    d = OrderedDict()
    log(x)
    d[1] = x
    return d
""", """
def f(x, log):
    log(x)
    d = OrderedDict()
    d[1] = x
    return d
""", True)
P("display-not-past-rebinding", """
def f(a, b, g):
    t = (a, b)
    a = g()
    return t, a
""", """
def f(a, b, g):
    a = g()
    t = (a, b)
    return t, a
""", False)
P("call-result-does-not-float", """
def f(x, log, make):
    d = make()
    log(x)
    d[1] = x
    return d
""", """
def f(x, log, make):
    log(x)
    d = make()
    d[1] = x
    return d
""", False)
# --- or / and are not commuted ------------------------------------------------------------------------------------------------------
P("short-circuit-order-kept", """
def f(a, b):
    if a.ready() or b.ready():
        return 1
    return 0
""", """
def f(a, b):
    if b.ready() or a.ready():
        return 1
    return 0
""", False)
P("nan-safe-negation", """
def f(k):
    if not abs(k) < 1:
        return False
    return True
""", """
def f(k):
    if abs(k) >= 1:
        return False
    return True
""", False)


# --- conditional definitions ------------------------------------------------------------------------------------------------------
P("definition-chosen-once", """
def f(chunk, swap, tobytes):
    def export():
        if swap:
            chunk.byteswap()
            data = tobytes()
            chunk.byteswap()
            return data
        return tobytes()
    return export
""", """
def f(chunk, swap, tobytes):
    if swap:
        def export():
            chunk.byteswap()
            data = tobytes()
            chunk.byteswap()
            return data
    else:
        export = tobytes
    return export
""", True)
P("definition-chosen-once-flag-rebound", """
def f(chunk, swap, tobytes, later):
    def export():
        if swap:
            chunk.byteswap()
        return tobytes()
    swap = later
    return export
""", """
def f(chunk, swap, tobytes, later):
    if swap:
        def export():
            chunk.byteswap()
            return tobytes()
    else:
        export = tobytes
    swap = later
    return export
""", False)
# --- return after a with block -------------------------------------------------------------------------------------------------------
P("return-of-a-name-after-with", """
def f(self, audio):
    with self.lock:
        t = make(self, audio)
        self.threads.append(t)
        return t
""", """
def f(self, audio):
    with self.lock:
        t = make(self, audio)
        self.threads.append(t)
    return t
""", True)
P("return-of-a-call-after-with", """
def f(self, audio):
    with self.lock:
        t = make(self, audio)
        return wrap(t)
""", """
def f(self, audio):
    with self.lock:
        t = make(self, audio)
    return wrap(t)
""", False)
# --- super() proxies -----------------------------------------------------------------------------------------------------------------
P("super-proxy-kept-in-a-local", """
def f(self, key, value):
    del self._keys[key]
    super(MK, self).__delitem__(key)
    super(MK, self).__setitem__(key, value)
""", """
def f(self, key, value):
    base = super(MK, self)
    del self._keys[key]
    base.__delitem__(key)
    base.__setitem__(key, value)
""", True)
P("attribute-kept-in-a-local-across-a-write", """
def f(self, key, value):
    del self._keys[key]
    self._keys.__delitem__(value)
""", """
def f(self, key, value):
    keys = self._keys
    self._keys = {}
    del keys[key]
    keys.__delitem__(value)
""", False)


def main():
    bad = 0
    for name, a, b, want in PAIRS:
        fa, fb = ast.parse(a).body[0], ast.parse(b).body[0]
        try:
            got = equiv.canonical(fa, {}, {}, {}) == equiv.canonical(fb, {}, {}, {})
        except Exception as ex:           # a crash is a wrong answer
            got = "crash: %s: %s" % (type(ex).__name__, ex)
        ok = got is want or (want is None and got in (True, False))
        if not ok:
            bad += 1
        note = "" if ok else "<-- WRONG"
        if want is None:
            note = "(limit: equal, %s)" % ("proved" if got is True else "not proved")
        print("%-40s expected %-5s got %-5s %s" % (name, want, got, note))
    print("equiv pairs: %d, wrong: %d" % (len(PAIRS), bad))
    return 1 if bad else 0


if __name__ == "__main__":
    sys.exit(main())
