#!/venv/bin/python
"""Seeded-fault self-test of the checker.

Every mutant is a small edit of /repo's current source that still compiles.
Faults must be reported (exit 1, VIOLATION, by the expected rule when one is
named); benign twins must stay silent (exit 0).  Runs on scratch copies under
${TMPDIR:-/var/tmp}; never touches /repo or /verif.  Results are evidence about
the *checker* only - the status of a property always comes from /repo itself.

usage: run.py [--prop C05] [--id substring] [--jobs 16] [--json out.json] [-v]
"""
import argparse
import json
import os
import shutil
import subprocess
import sys
import tempfile
import time
from concurrent.futures import ThreadPoolExecutor

HERE = os.path.dirname(os.path.abspath(__file__))
VERIF = os.path.dirname(HERE)
sys.path.insert(0, VERIF)

from selftest.mutants import MUTANTS  # noqa: E402


def load_patches(repo):
    """Reverse patches of the fix commits (regress/) and accepted sub-agent
    changes (seeded/<id>/patch.diff) are mutants too."""
    out = []
    rdir = os.path.join(VERIF, "regress")
    meta_path = os.path.join(rdir, "meta.json")
    meta = json.load(open(meta_path)) if os.path.exists(meta_path) else {}
    for fn in sorted(os.listdir(rdir)) if os.path.isdir(rdir) else []:
        if fn.endswith(".diff"):
            rid = fn.split("-")[0]
            m = meta.get(rid, {})
            for prop in m.get("props", []):
                out.append({"id": "%s/%s" % (rid, prop), "prop": prop, "patch": os.path.join(rdir, fn),
                            "rule": m.get("rule", {}).get(prop), "benign": False})
    # mutants of the automatic sweep (tools/automutate.py) that a rule added afterwards reports: regression guard
    ap_ = os.path.join(HERE, "auto_mutants.json")
    if os.path.exists(ap_):
        for m in json.load(open(ap_)):
            out.append({"id": m["id"], "prop": m["prop"], "file": m["file"], "span": (m["a"], m["b"]), "old": m["old"],
                        "new": m["new"], "rule": None, "benign": False})
    sdir = os.path.join(VERIF, "seeded")
    for d in sorted(os.listdir(sdir)) if os.path.isdir(sdir) else []:
        mp = os.path.join(sdir, d, "meta.json")
        pp = os.path.join(sdir, d, "patch.diff")
        if os.path.exists(mp) and os.path.exists(pp):
            m = json.load(open(mp))
            out.append({"id": "seeded/" + d, "prop": m["property"], "patch": pp, "rule": m.get("expected_rule"),
                        "benign": False, "expect_miss": m.get("detected") is False})
    return out


def run_one(mut, repo, keep=False):
    tmp = tempfile.mkdtemp(prefix="sa-mut-", dir=os.environ.get("TMPDIR", "/var/tmp"))
    t0 = time.time()
    res = {"id": mut["id"], "prop": mut["prop"], "benign": bool(mut.get("benign")), "rule_expected": mut.get("rule")}
    try:
        shutil.copytree(os.path.join(repo, "audiolazy"), os.path.join(tmp, "audiolazy"),
                        ignore=shutil.ignore_patterns("__pycache__", "tests", "*.pyc"))
        if "patch" in mut:
            p = subprocess.run(["patch", "-p1", "-s", "-i", mut["patch"]], cwd=tmp, capture_output=True, text=True)
            if p.returncode != 0:
                res.update(outcome="skipped", detail="patch does not apply: " + (p.stdout + p.stderr).strip()[:200])
                return res
        else:
            path = os.path.join(tmp, "audiolazy", mut["file"])
            if "span" in mut:
                raw = open(path, "rb").read()
                a, b = mut["span"]
                if raw[a:b].decode("utf-8") != mut["old"]:
                    res.update(outcome="skipped", detail="anchor text moved: %r" % mut["old"][:60])
                    return res
                open(path, "wb").write(raw[:a] + mut["new"].encode("utf-8") + raw[b:])
                mut = dict(mut, edits=[])
            src = open(path).read()
            edits = mut.get("edits") if mut.get("edits") is not None else [(mut["old"], mut["new"])]
            for old, new in edits:
                cnt = src.count(old)
                if cnt != mut.get("count", 1):
                    res.update(outcome="skipped", detail="anchor text matches %d time(s): %r" % (cnt, old[:60]))
                    return res
                src = src.replace(old, new)
            open(path, "w").write(src)
            c = subprocess.run(["/venv/bin/python", "-W", "ignore", "-c",
                                "import ast,sys; ast.parse(open(sys.argv[1]).read())", path],
                               capture_output=True, text=True)
            if c.returncode != 0:
                res.update(outcome="skipped", detail="mutant does not compile")
                return res
        p = subprocess.run(["/venv/bin/python", os.path.join(VERIF, "check.py"), mut["prop"], "--repo", tmp,
                            "--no-write", "--tier", "quick"], capture_output=True, text=True)
        rules = [ln.split("rule=")[1].split()[0] for ln in p.stdout.splitlines() if ln.strip().startswith("rule=")]
        res["exit"] = p.returncode
        res["rules_fired"] = sorted(set(rules))
        if mut.get("benign"):
            res["outcome"] = "ok" if p.returncode == 0 else "FALSE-ALARM" if p.returncode == 1 else "analysis-error"
        else:
            if p.returncode == 1:
                want = mut.get("rule")
                res["outcome"] = "caught" if (not want or any(r.startswith(want) for r in rules)) else "caught-other-rule"
            elif p.returncode == 0:
                res["outcome"] = "MISSED"
            else:
                res["outcome"] = "analysis-error"
        if res["outcome"] not in ("ok", "caught"):
            res["detail"] = "\n".join(p.stdout.splitlines()[-6:])
    finally:
        if not keep:
            shutil.rmtree(tmp, ignore_errors=True)
        res["wall_s"] = round(time.time() - t0, 2)
    return res


def main(argv=None):
    ap = argparse.ArgumentParser()
    ap.add_argument("--prop")
    ap.add_argument("--id")
    ap.add_argument("--repo", default="/repo")
    ap.add_argument("--jobs", type=int, default=min(16, os.cpu_count() or 4))
    ap.add_argument("--json")
    ap.add_argument("-v", action="store_true")
    args = ap.parse_args(argv)
    muts = list(MUTANTS) + load_patches(args.repo)
    if args.prop:
        muts = [m for m in muts if m["prop"] == args.prop.upper()]
    if args.id:
        muts = [m for m in muts if args.id in m["id"]]
    t0 = time.time()
    with ThreadPoolExecutor(args.jobs) as ex:
        results = list(ex.map(lambda m: run_one(m, args.repo), muts))
    tally = {}
    for r in results:
        tally[r["outcome"]] = tally.get(r["outcome"], 0) + 1
        if args.v or r["outcome"] not in ("ok", "caught"):
            print("%-18s %-4s %-44s %s %s" % (r["outcome"], r["prop"], r["id"], r.get("rules_fired", ""),
                                              ("\n    " + r["detail"].replace("\n", "\n    ")) if r.get("detail") else ""))
    print("selftest: %d mutants in %.1fs: %s" % (len(results), time.time() - t0,
                                                 ", ".join("%s=%d" % kv for kv in sorted(tally.items()))))
    if args.json:
        with open(args.json, "w") as f:
            json.dump({"results": results, "tally": tally}, f, indent=1)
    bad = sum(v for k, v in tally.items() if k in ("MISSED", "FALSE-ALARM"))
    return 1 if bad else 0


if __name__ == "__main__":
    sys.exit(main())
