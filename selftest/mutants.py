"""Seeded faults (must be reported) and benign twins (must stay silent).

Each entry: id, prop, file (under audiolazy/), old -> new (exact text, must
match exactly once unless count is given), rule (prefix of the rule expected
to fire; None = any), benign (default False)."""

MUTANTS = []


def M(id, prop, file, old, new, rule=None, benign=False, count=1, edits=None):
    MUTANTS.append(dict(id=id, prop=prop, file=file, old=old, new=new, rule=rule, benign=benign, count=count,
                        edits=edits))


S = "lazy_stream.py"
F = "lazy_filters.py"
P = "lazy_poly.py"

# ------------------------------------------------------------------ C03
M("c03-copy-returns-kept", "C03", S, "    self._data = a\n    return Stream(b)", "    self._data = a\n    return Stream(a)", "C03.tee")
M("c03-copy-no-rebind", "C03", S, "    self._data = a\n    return Stream(b)", "    return Stream(b)", "C03.tee")
M("c03-peek-takes", "C03", S, "return self.copy().take(n=n, constructor=constructor)", "return self.take(n=n, constructor=constructor)", "C03.peek")
M("c03-peek-drops-n", "C03", S, "return self.copy().take(n=n, constructor=constructor)", "return self.copy().take(constructor=constructor)", "C03.peek")
M("c03-hub-no-map", "C03", S, "  map = wraps(Stream.map)(lambda self, func: Stream(self).map(func))\n", "", "C03.hub")
M("c03-hub-tee-n-plus-1", "C03", S, "self._iters = list(it.tee(iter_self, n))", "self._iters = list(it.tee(iter_self, n + 1))", "C03.hub")
M("c03-hub-iter-valueerror", "C03", S, 'raise IndexError("StreamTeeHub has no more copies left to use.")', 'raise ValueError("StreamTeeHub has no more copies left to use.")', "C03.hub")
M("c03-hub-limit-calls-skip", "C03", S, "lambda self, n: Stream(self).limit(n))", "lambda self, n: Stream(self).skip(n))", "C03.hub")
M("c03-thub-wraps-scalars", "C03", S, "return StreamTeeHub(data, n) if isinstance(data, Iterable) else data", "return StreamTeeHub(data, n) if isinstance(data, Iterable) else Stream(data)", "C03.hub")
M("c03-thub-n-minus-1", "C03", S, "return StreamTeeHub(data, n) if isinstance(data, Iterable) else data", "return StreamTeeHub(data, n - 1) if isinstance(data, Iterable) else data", "C03.hub")
M("c03-take-next-in-genexp", "C03", S, "return constructor(it.islice(self._data, max(n, 0)))", "return constructor(next(self._data) for _ in xrange(n))", "E3")
M("c03-take-off-by-one", "C03", S, "return constructor(it.islice(self._data, max(n, 0)))", "return constructor(it.islice(self._data, max(n + 1, 0)))", "C03.take")
M("c03-take-none-wraps", "C03", S, "    if n is None:\n      return next(self._data)", "    if n is None:\n      return next(self._data, None)", "C03.take")
M("c03-take-neg-inf-all", "C03", S, "if isinf(n) and n > 0:", "if isinf(n):", "C03.take")
M("c03-skip-offset", "C03", S, "for _ in it.islice(data, max(int(round(n)), 0)):", "for _ in it.islice(data, max(int(round(n)) - 1, 0)):", "C03.inplace")
M("c03-limit-offset", "C03", S, "self._data = it.islice(self._data, max(int(round(n)), 0))", "self._data = it.islice(self._data, max(int(round(n)), 0) + 1)", "C03.inplace")
M("c03-append-order", "C03", S, "self._data = it.chain(self._data, Stream(*other)._data)", "self._data = it.chain(Stream(*other)._data, self._data)", "C03.inplace")
M("c03-filter-no-return", "C03", S, "    self._data = xfilter(func, self._data)\n    return self", "    self._data = xfilter(func, self._data)\n    return Stream(self._data)", "C03.inplace")
M("c03-filterfalse", "C03", S, "self._data = xfilter(func, self._data)", "self._data = it.filterfalse(func, self._data)", "C03.inplace")
M("c03-itee-shared", "C03", "lazy_itertools.py", "return tuple(Stream(cp) for cp in it.tee(data, n))", "return tuple(Stream(data) for cp in it.tee(data, n))", "C03.itee")
M("c03-itee-count", "C03", "lazy_itertools.py", "return tuple(Stream(cp) for cp in it.tee(data, n))", "return tuple(Stream(cp) for cp in it.tee(data, 2))", "C03.itee")
M("c03-hubcopy-returns-kept", "C03", S, "      self._iters[0] = a\n      return Stream(b)", "      self._iters[0] = b\n      return Stream(b)", "C03.tee")
# benign
M("c03-benign-take-guarded-next", "C03", S, "return constructor(it.islice(self._data, max(n, 0)))",
  "def _taker(data):\n      for _ in xrange(n):\n        try:\n          yield next(data)\n        except StopIteration:\n          return\n    return constructor(_taker(self._data))", benign=True)
M("c03-benign-copy-rename", "C03", S, "    a, b = it.tee(self._data) # 2 generators, not thread-safe\n    self._data = a\n    return Stream(b)", "    mine, yours = it.tee(self._data)\n    self._data = yours\n    return Stream(mine)", benign=True)
M("c03-benign-thub-if", "C03", S, "  return StreamTeeHub(data, n) if isinstance(data, Iterable) else data", "  if isinstance(data, Iterable):\n    return StreamTeeHub(data, n)\n  return data", benign=True)

# ------------------------------------------------------------------ C05
M("c05-ne-and", "C05", F, "  def __ne__(self, other):\n    return not (self == other)\n\n\nclass ZFilterMeta", "  def __ne__(self, other):\n    if isinstance(other, LinearFilter):\n      return self.numpoly != other.numpoly and self.denpoly != other.denpoly\n    return True\n\n\nclass ZFilterMeta", "C05.ne")
M("c05-eq-drops-den", "C05", F, "return self.numpoly == other.numpoly and self.denpoly == other.denpoly", "return self.numpoly == other.numpoly", "C05.ne")
M("c05-hash-id", "C05", F, "return hash(tuple(self.numdict) + tuple(self.dendict))", "return hash(tuple(self.numdict) + tuple(self.dendict) + (id(self),))", "C05.hash")
M("c05-truediv-wrong", "C05", F, "      return ZFilter(self.numpoly * other.denpoly,\n                     self.denpoly * other.numpoly)", "      return ZFilter(self.numpoly * other.numpoly,\n                     self.denpoly * other.denpoly)", "C05.ops")
M("c05-add-cross-minus", "C05", F, "      return ZFilter(self.numpoly * other.denpoly.copy() +\n", "      return ZFilter(self.numpoly * other.denpoly.copy() -\n", "C05.ops")
M("c05-add-same-den-squares", "C05", F, "        return ZFilter(self.numpoly + other.numpoly, self.denpoly)", "        return ZFilter(self.numpoly + other.numpoly, self.denpoly * other.denpoly)", "C05.ops")
M("c05-sub-plus", "C05", F, "    return self + (-other)\n\n  def __mul__", "    return self + (+other)\n\n  def __mul__", "C05.ops")
M("c05-mul-scalar-den", "C05", F, "    return ZFilter(self.numpoly * other, self.denpoly)", "    return ZFilter(self.numpoly * other, self.denpoly * other)", "C05.ops")
M("c05-truediv-scalar", "C05", F, "    return self * operator.truediv(1, other)", "    return self * other", "C05.ops")
M("c05-pow-neg-arm", "C05", F, "      return ZFilter(self.denpoly, self.numpoly) ** -other", "      return ZFilter(self.denpoly, self.numpoly) ** other", "C05.ops")
M("c05-pow-den-forgot", "C05", F, "      return ZFilter(self.numpoly ** other, self.denpoly ** other)", "      return ZFilter(self.numpoly ** other, self.denpoly)", "C05.ops")
M("c05-rbinary-swapped", "C05", F, "      return op_func(cls([other]), self) # The \"other\" is probably a number", "      return op_func(self, cls([other]))", "C05.ops")
M("c05-unary-den", "C05", F, "      return cls(op_func(self.numpoly), self.denpoly)", "      return cls(op_func(self.numpoly), op_func(self.denpoly))", "C05.ops")
M("c05-z-is-delay", "C05", F, "z = ZFilter({-1: 1})", "z = ZFilter({1: 1})", "C05.ops")
M("c05-init-scale-one-side", "C05", F, "      self.numpoly *= poly_delta\n      self.denpoly *= poly_delta", "      self.denpoly *= poly_delta", "C05.ops")
M("c05-subst-positive-power", "C05", F, "      return sum(v * seq ** -k for k, v in self.numpoly.terms()) / \\", "      return sum(v * seq ** k for k, v in self.numpoly.terms()) / \\", "C05.subst")
M("c05-subst-den-uses-num", "C05", F, "             sum(v * seq ** -k for k, v in self.denpoly.terms())", "             sum(v * seq ** -k for k, v in self.numpoly.terms())", "C05.subst")
M("c05-parallel-response-mul", "C05", F, "    return reduce(operator.add, (filt.freq_response(freq)\n", "    return reduce(operator.mul, (filt.freq_response(freq)\n", "C05.lists")
M("c05-cascade-den-num", "C05", F, "      return reduce(operator.mul, (filt.denpoly for filt in self.callables))\n    except AttributeError:\n      raise AttributeError(\"Non-linear filter\")\n\n  @elementwise(\"freq\", 1)\n  def freq_response(self, freq):\n    return reduce(operator.mul", "      return reduce(operator.mul, (filt.numpoly for filt in self.callables))\n    except AttributeError:\n      raise AttributeError(\"Non-linear filter\")\n\n  @elementwise(\"freq\", 1)\n  def freq_response(self, freq):\n    return reduce(operator.mul", "C05.lists")
M("c05-parallel-den-product", "C05", F, "    return reduce(operator.add, self).denpoly", "    return reduce(operator.mul, (filt.denpoly for filt in self.callables))", "C05.lists")
M("c05-parallel-thub-short", "C05", F, "arg0 = thub(args[0], len(self))", "arg0 = thub(args[0], len(self) - 1)", "C05.lists")
M("c05-cascade-call-input", "C05", F, "    return reduce(lambda data, filt: filt(data, *args[1:], **kwargs),\n                  self.callables, args[0])", "    return reduce(lambda data, filt: filt(args[0], *args[1:], **kwargs),\n                  self.callables, args[0])", "C05.lists")
M("c05-linearize-weights-swapped", "C05", F, "pairs = [(left, v * weight_left), (right, v * weight_right)]", "pairs = [(left, v * weight_right), (right, v * weight_left)]", "C05.linearize")
M("c05-linearize-weight", "C05", F, "weight_left = 1. - weight_right", "weight_left = 1. + weight_right", "C05.linearize")
M("c05-linearize-overwrite", "C05", F, "            new_poly[key] += value", "            new_poly[key] = value", "C05.linearize")
M("c05-tablelookup-ne", "C05", "lazy_synth.py", "    return not self == other", "    return self.table != other.table", "C05.ne")
M("c05-filterlist-ne-and", "C05", F, "return type(self) != type(other) or list.__ne__(self, other)", "return type(self) != type(other) and list.__ne__(self, other)", "C05.ne")
# benign
M("c05-benign-ne-demorgan", "C05", F, "  def __ne__(self, other):\n    return not (self == other)\n\n\nclass ZFilterMeta", "  def __ne__(self, other):\n    if isinstance(other, LinearFilter):\n      return self.denpoly != other.denpoly or self.numpoly != other.numpoly\n    return True\n\n\nclass ZFilterMeta", benign=True)
M("c05-benign-mul-commuted", "C05", F, "      return ZFilter(self.numpoly * other.numpoly,\n                     self.denpoly * other.denpoly)", "      return ZFilter(other.numpoly * self.numpoly,\n                     other.denpoly * self.denpoly)", benign=True)
M("c05-benign-add-order", "C05", F, "      return ZFilter(self.numpoly * other.denpoly.copy() +\n                     other.numpoly * self.denpoly.copy(),", "      return ZFilter(other.numpoly * self.denpoly.copy() +\n                     self.numpoly * other.denpoly.copy(),", benign=True)
M("c05-benign-ne-not", "C05", F, "    return not (self == other)\n\n\nclass ZFilterMeta", "    return not self == other\n\n\nclass ZFilterMeta", benign=True)

# ------------------------------------------------------------------ C04
M("c04-den-one-sign", "C04", F, '        data_sum.append("-m{idx}".format(idx=delay))', '        data_sum.append("m{idx}".format(idx=delay))', "C04.equation")
M("c04-num-minus-one-sign", "C04", F, '        data_sum.append("-d{idx}".format(idx=delay))', '        data_sum.append("d{idx}".format(idx=delay))', "C04.equation")
M("c04-den-generic-sign", "C04", F, '"-{value} * m{idx}"', '"{value} * m{idx}"', "C04.equation")
M("c04-num-generic-plus", "C04", F, '"{value} * d{idx}"', '"{value} + d{idx}"', "C04.equation")
M("c04-den-stream-sign", "C04", F, '"-next(a{idx}) * m{idx}"', '"next(a{idx}) * m{idx}"', "C04.equation")
M("c04-gain-minus-one", "C04", F, 'expr = "-({expr})".format(expr=expr)', 'expr = "({expr})".format(expr=expr)', "C04.equation")
M("c04-gain-no-parens", "C04", F, '"({expr}) / ({gain})"', '"({expr}) / {gain}"', "C04.equation")
M("c04-gain-multiplies", "C04", F, '"({expr}) / ({gain})"', '"({expr}) * ({gain})"', "C04.equation")
M("c04-shift-ascending", "C04", F, "for idx in xrange(lm, 0, -1)]", "for idx in xrange(1, lm + 1)]", "C04.shift")
M("c04-dshift-ascending", "C04", F, "for idx in xrange(lb - 1, 0, -1)]", "for idx in xrange(1, lb)]", "C04.shift")
M("c04-shift-misses-last", "C04", F, "for idx in xrange(lm, 0, -1)]", "for idx in xrange(lm - 1, 0, -1)]", "C04.shift")
M("c04-shift-from-same", "C04", F, '"    m{idx} = m{idxold}".format(idx=idx, idxold=idx - 1)', '"    m{idx} = m{idxold}".format(idx=idx, idxold=idx)', "C04.shift")
M("c04-memory-reversed", "C04", F, '["m{} ,".format(el) for el in xrange(1, la)]', '["m{} ,".format(el) for el in xrange(la - 1, 0, -1)]', "C04.memory-order")
M("c04-dinit-short", "C04", F, '["d{}".format(el) for el in xrange(1, lb)]', '["d{}".format(el) for el in xrange(1, lb - 1)]', "C04")
M("c04-zero-filter-const", "C04", F, '"    yield {zero}".format(zero=zero)', '"    yield 0."', "C04.zero-filter")
M("c04-guard-num-only", "C04", F, "    if any(key < 0 for key, value in it.chain(self.numpoly.terms(),\n                                              self.denpoly.terms())\n          ):", "    if any(key < 0 for key, value in self.numpoly.terms()):", "C04.causal-first")
M("c04-guard-le", "C04", F, "    if any(key < 0 for key, value in it.chain(self.numpoly.terms(),", "    if any(key <= 0 for key, value in it.chain(self.numpoly.terms(),", "C04.causal-first")
M("c04-takewhile-le", "C04", F, "lambda pair: pair[0] < lm", "lambda pair: pair[0] <= lm", "C04.memory")
M("c04-callable-la", "C04", F, "memory = memory(lm)", "memory = memory(la)", "C04.memory")
M("c04-lm-la", "C04", F, "lm = la - 1 # Memory size", "lm = la # Memory size", "C04")
M("c04-nomem-la", "C04", F, "memory = [zero for unused in xrange(lm)]", "memory = [zero for unused in xrange(la)]", "C04.memory")
M("c04-args-order", "C04", F, "arguments = [iter(seq), memory, zero]", "arguments = [iter(seq), zero, memory]", "C04.exec")
M("c04-iterables-crossed", "C04", F, "arguments.extend(iter(self.numpoly[idx]) for idx in num_iterables)", "arguments.extend(iter(self.denpoly[idx]) for idx in num_iterables)", "C04.exec")
M("c04-yield-after-shift", "C04", F, None, None, "C04.shift", edits=[('      gen_func += ["    yield m0"]\n', ''), ('                   for idx in xrange(lb - 1, 0, -1)]\n', '                   for idx in xrange(lb - 1, 0, -1)]\n      gen_func += ["    yield m0"]\n')])
M("c04-la-numerator", "C04", F, "la, lb = len(self.denominator), len(self.numerator)", "la, lb = len(self.numerator), len(self.denominator)", "C04")
# benign
M("c04-benign-gain-reciprocal", "C04", F, '"({expr}) / ({gain})"', '"({expr}) * (1 / ({gain}))"', benign=True)
M("c04-benign-commuted-term", "C04", F, '"{value} * d{idx}"', '"d{idx} * ({value})"', benign=True)
M("c04-benign-den-commuted", "C04", F, '"-{value} * m{idx}"', '"-m{idx} * ({value})"', benign=True)
M("c04-benign-nomem-mul", "C04", F, "memory = [zero for unused in xrange(lm)]", "memory = [zero] * lm", benign=True)

# ------------------------------------------------------------------ C06
M("c06-add-drop-copy", "C06", F, "other.numpoly * self.denpoly.copy(),", "other.numpoly * self.denpoly,", "R4.3")
M("c06-add-copy-late", "C06", F, "      return ZFilter(self.numpoly * other.denpoly.copy() +\n                     other.numpoly * self.denpoly.copy(),\n                     self.denpoly * other.denpoly)", "      den = self.denpoly * other.denpoly\n      return ZFilter(self.numpoly * other.denpoly.copy() +\n                     other.numpoly * self.denpoly.copy(), den)", "R4.3")
M("c06-pow-alias", "C06", P, "[self.copy() for unused in xrange(other - 1)]\n                                + [self])", "[self.copy()] * (other - 1) + [self])", "R4.4")
M("c06-pow-no-copy", "C06", P, "[self.copy() for unused in xrange(other - 1)]", "[self for unused in xrange(other - 1)]", "R4.3")
M("c06-mul-budget-swapped", "C06", P, "    thubbed_self = [(k, thub(v, len(other._data)))", "    thubbed_self = [(k, thub(v, len(self._data)))", "R4.1")
M("c06-mul-budget-minus", "C06", P, "    thubbed_other = [(k, thub(v, len(self._data)))", "    thubbed_other = [(k, thub(v, len(self._data) - 1))", "R4.1")
M("c06-truediv-budget", "C06", P, "    other = thub(other, len(self))", "    other = thub(other, 1)", "R4.1")
M("c06-call-budget", "C06", P, "    value = thub(value, len(self))", "    value = thub(value, len(self) - 1)", "R4.1")
M("c06-horner-extra-use", "C06", P, "      return result * value ** last_power", "      return result * value ** last_power + 0 * value", "R4.1")
M("c06-next-twice", "C06", F, '"next(b{idx}) * d{idx}"', '"next(b{idx}) * d{idx} + 0 * next(b{idx})"', "C06.next-once")
M("c06-kernel-unprotected", "C06", F, None, None, "E3", edits=[('        gen_func += ["    try:",\n                     "      m0 = {expr}".format(expr=expr),\n                     "    except StopIteration:",\n                     "      return"]', '        gen_func += ["    m0 = {expr}".format(expr=expr)]')])
M("c06-iter-args-swapped", "C06", F, '      arg_names.extend("b{idx}".format(idx=idx) for idx in num_iterables)\n      arg_names.extend("a{idx}".format(idx=idx) for idx in den_iterables)', '      arg_names.extend("a{idx}".format(idx=idx) for idx in den_iterables)\n      arg_names.extend("b{idx}".format(idx=idx) for idx in num_iterables)', "C06.args")
M("c06-den-stream-sign", "C06", F, '"-next(a{idx}) * m{idx}"', '"next(a{idx}) * m{idx}"', "C06.equation")
M("c06-gain-no-copy", "C06", F, "      den *= inv_gain.copy()", "      den *= inv_gain", "C06.a0")
M("c06-gain-not-inverted", "C06", F, "      inv_gain = 1 / den[0]", "      inv_gain = den[0]", "C06.a0")
M("c06-gain-keeps-a0", "C06", F, "      den[0] = 0\n      den *= inv_gain.copy()\n      den[0] = 1", "      den *= inv_gain.copy()", "C06.a0")
M("c06-gain-drops-zero", "C06", F, "      return ZFilter(self.numpoly * inv_gain, den)(seq, memory=memory,\n                                                   zero=zero)", "      return ZFilter(self.numpoly * inv_gain, den)(seq, memory=memory)", "C06.a0")
M("c06-no-avoid-parallel", "C06", F, "@avoid_stream\nclass ParallelFilter(FilterList):", "class ParallelFilter(FilterList):", "C06.avoid")
M("c06-polycopy-shares", "C06", P, "(k, v.copy() if isinstance(v, Stream) else v)", "(k, v)", "C06.copy")
M("c06-stream-template-ignores", "C06", S, "  def __rbinary__(cls, op):\n    op_func = op.func\n    def dunder(self, other):\n      if isinstance(other, cls.__ignored_classes__):\n        return NotImplemented\n", "  def __rbinary__(cls, op):\n    op_func = op.func\n    def dunder(self, other):\n", "C06.avoid")
# benign
M("c06-benign-add-hoisted-copies", "C06", F, "      return ZFilter(self.numpoly * other.denpoly.copy() +\n                     other.numpoly * self.denpoly.copy(),\n                     self.denpoly * other.denpoly)", "      num = self.numpoly * other.denpoly.copy() + other.numpoly * self.denpoly.copy()\n      return ZFilter(num, self.denpoly * other.denpoly)", benign=True)
M("c06-benign-mul-rename", "C06", P, "    for k1, v1 in thubbed_self:\n      for k2, v2 in thubbed_other:\n        if k1 + k2 in new_data:\n          new_data[k1 + k2] += v1 * v2\n        else:\n          new_data[k1 + k2] = v1 * v2", "    for ka, va in thubbed_self:\n      for kb, vb in thubbed_other:\n        if ka + kb in new_data:\n          new_data[ka + kb] += va * vb\n        else:\n          new_data[ka + kb] = va * vb", benign=True)

# ------------------------------------------------------------------ C02
A = "lazy_analysis.py"
MI = "lazy_misc.py"
M("c02-map-eager", "C02", S, "    self._data = xmap(func, self._data)", "    self._data = iter(list(xmap(func, self._data)))", "R2.1")
M("c02-init-peeks", "C02", S, "        self._data = iter(dargs[0])", "        self._data = iter(dargs[0])\n        first = next(self._data)\n        self._data = it.chain([first], self._data)", "R2.1")
M("c02-binary-eager", "C02", S, "        return Stream(xmap(op_func, iter(self), iter(other)))\n      return Stream(xmap(lambda a: op_func(a, other), iter(self)))\n    return dunder\n\n  def __rbinary__", "        return Stream([op_func(a, b) for a, b in zip(iter(self), iter(other))])\n      return Stream(xmap(lambda a: op_func(a, other), iter(self)))\n    return dunder\n\n  def __rbinary__", "R2.1")
M("c02-tostream-eager", "C02", S, "    return Stream(func(*args, **kwargs))", "    return Stream(list(func(*args, **kwargs)))", "R2.1.tostream")
M("c02-thub-peeks", "C02", S, "    iter_self = super(StreamTeeHub, self).__iter__()\n", "    iter_self = super(StreamTeeHub, self).__iter__()\n    iter_self = iter(tuple(iter_self))\n", "R2.1")
M("c02-filter-call-list", "C02", F, "    arguments = [iter(seq), memory, zero]", "    arguments = [iter(list(seq)), memory, zero]", "R2.1")
M("c02-clip-list", "C02", A, "      return Stream(sig)\n", "      return Stream(list(sig))\n", "R2.1")
M("c02-clip-listcomp", "C02", A, "    return Stream(el if el < high else high for el in sig)", "    return Stream([el if el < high else high for el in sig])", "R2.1")
M("c02-envelope-take", "C02", A, "  return lowpass(cutoff)(abs(thub(sig, 1)))", "  sig = Stream(sig)\n  sig.peek(1)\n  return lowpass(cutoff)(abs(thub(sig, 1)))", "R2.1")
M("c02-zcross-lookahead", "C02", A, "  for el in seq_iter: # Keep the same iterator (needed for non-generators)\n    if el * last_sign < neg_hyst:", "  for el in seq_iter: # Keep the same iterator (needed for non-generators)\n    nxt = next(seq_iter, el)\n    if el * last_sign < neg_hyst:", "R2.2")
M("c02-zcross-missing-yield", "C02", A, "      last_sign = -1 if el < 0 else 1\n      yield 1\n    else:\n      yield 0", "      last_sign = -1 if el < 0 else 1\n      yield 1", "R2.2")
M("c02-maverage-cond-yield", "C02", A, "      mean_value += new_value\n      yield mean_value", "      mean_value += new_value\n      if len(data) == size:\n        yield mean_value", "R2.2")
M("c02-unwrap-double-yield", "C02", A, "    yield d1 + delta\n    d0 = d1", "    yield d1 + delta\n    yield d1 + delta\n    d0 = d1", "R2.2")
M("c02-accumulate-prefetch", "C02", "lazy_itertools.py", "  for el in iterator:\n    sum_data += el\n    yield sum_data", "  for el in iterator:\n    sum_data += el + next(iterator, 0)\n    yield sum_data", "R2.2")
M("c02-blocks-next", "C02", MI, "    for el in seq:\n      res.append(el)\n      if idx == last_idx:\n        yield res\n        idx = reinit_idx", "    seq = iter(seq)\n    for el in seq:\n      res.append(el)\n      if idx == last_idx:\n        yield res\n        res.append(next(seq))\n        idx = reinit_idx", "R2.3")
M("c02-parallel-no-hub", "C02", F, "    arg0 = thub(args[0], len(self))", "    arg0 = thub(args[0], len(self) + 1)", "R2.1")
M("c02-tablelookup-eager", "C02", "lazy_synth.py", "    tbl_iter = modulo_counter(part, total_len_float, step)", "    tbl_iter = list(modulo_counter(part, total_len_float, step))", "R2.1")
M("c02-lowpass-consumes", "C02", F, "  R = thub(exp(-cutoff), 2)\n  return (1 - R) / (1 - R * z ** -1)", "  cutoff = list(cutoff) if isinstance(cutoff, Iterable) else cutoff\n  R = thub(exp(-cutoff), 2)\n  return (1 - R) / (1 - R * z ** -1)", "R2.1")
M("c02-modulo-double-yield", "C02", "lazy_synth.py", "        for p, m, s in xzip(start, modulo, step):\n          c += p - lastp\n          c = c % m % m\n          yield c", "        for p, m, s in xzip(start, modulo, step):\n          c += p - lastp\n          c = c % m % m\n          yield c\n          yield c", "R2.2")
# benign
M("c02-benign-zcross-refactor", "C02", A, "    if el * last_sign < neg_hyst:\n      last_sign = -1 if el < 0 else 1\n      yield 1\n    else:\n      yield 0", "    crossed = el * last_sign < neg_hyst\n    if crossed:\n      last_sign = -1 if el < 0 else 1\n    yield 1 if crossed else 0", benign=True)
M("c02-benign-map-genexp", "C02", S, "    self._data = xmap(func, self._data)", "    self._data = (func(el) for el in self._data)", benign=True)
