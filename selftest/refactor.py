#!/venv/bin/python
"""Behaviour-preserving refactorings used to hunt false alarms.

  roundtrip : every module re-emitted by ast.unparse (drops comments, normalises formatting, joins string literals)
  rename    : additionally every *local* variable (not a parameter, not global/nonlocal, not a free variable of an
              enclosing scope) of every function is renamed consistently (name -> name_rn), including its uses
              as a free variable in nested functions / lambdas / comprehensions.

usage: refactor.py <mode> <src audiolazy dir> <dst audiolazy dir> [module ...]
"""
import ast
import os
import shutil
import sys
import symtable
import warnings


def local_names(src, filename):
    """{(function lineno, function name): set(local names that may be renamed)}"""
    out = {}
    with warnings.catch_warnings():
        warnings.simplefilter("ignore")
        top = symtable.symtable(src, filename, "exec")

    def rec(tab):
        for ch in tab.get_children():
            if ch.get_type() == "function" and ch.get_name() not in ("lambda", "genexpr", "listcomp", "setcomp", "dictcomp"):
                names = set()
                for s in ch.get_symbols():
                    if s.is_local() and not s.is_parameter() and not s.is_global() and not s.is_nonlocal() \
                            and not s.is_imported() and not s.is_namespace() and not s.get_name().startswith("__"):
                        names.add(s.get_name())
                out[(ch.get_lineno(), ch.get_name())] = names
            rec(ch)
    rec(top)
    return out


class Renamer(ast.NodeTransformer):
    def __init__(self, table):
        self.table = table
        self.stack = []         # list of dicts old->new (innermost last)

    def _lookup(self, name):
        for m in reversed(self.stack):
            if name in m:
                return m[name]
            if name in m.get("__shadow__", ()):
                return None
        return None

    def visit_FunctionDef(self, node):
        names = self.table.get((node.lineno, node.name), set())
        mapping = {n: n + "_rn" for n in names}
        # names bound in this scope that must NOT be renamed shadow outer mappings
        params = {a.arg for a in node.args.posonlyargs + node.args.args + node.args.kwonlyargs}
        if node.args.vararg:
            params.add(node.args.vararg.arg)
        if node.args.kwarg:
            params.add(node.args.kwarg.arg)
        mapping["__shadow__"] = params
        # decorators / defaults belong to the enclosing scope
        node.decorator_list = [self.visit(d) for d in node.decorator_list]
        node.args.defaults = [self.visit(d) for d in node.args.defaults]
        node.args.kw_defaults = [self.visit(d) if d is not None else None for d in node.args.kw_defaults]
        # the function's own name is bound in the enclosing scope
        new_name = self._lookup(node.name)
        self.stack.append(mapping)
        node.body = [self.visit(s) for s in node.body]
        self.stack.pop()
        if new_name:
            node.name = new_name
        return node

    def visit_Lambda(self, node):
        params = {a.arg for a in node.args.posonlyargs + node.args.args + node.args.kwonlyargs}
        if node.args.vararg:
            params.add(node.args.vararg.arg)
        if node.args.kwarg:
            params.add(node.args.kwarg.arg)
        node.args.defaults = [self.visit(d) for d in node.args.defaults]
        self.stack.append({"__shadow__": params})
        node.body = self.visit(node.body)
        self.stack.pop()
        return node

    def _comp(self, node):
        # comprehension targets are local to the comprehension: shadow them
        targets = set()
        for g in node.generators:
            for n in ast.walk(g.target):
                if isinstance(n, ast.Name):
                    targets.add(n.id)
        first = node.generators[0]
        first.iter = self.visit(first.iter)
        self.stack.append({"__shadow__": targets})
        for i, g in enumerate(node.generators):
            if i:
                g.iter = self.visit(g.iter)
            g.ifs = [self.visit(c) for c in g.ifs]
        if isinstance(node, ast.DictComp):
            node.key = self.visit(node.key)
            node.value = self.visit(node.value)
        else:
            node.elt = self.visit(node.elt)
        self.stack.pop()
        return node

    visit_ListComp = visit_SetComp = visit_GeneratorExp = visit_DictComp = _comp

    def visit_ClassDef(self, node):
        new_name = self._lookup(node.name)
        node.decorator_list = [self.visit(d) for d in node.decorator_list]
        node.bases = [self.visit(b) for b in node.bases]
        # class body: names are class-local; do not apply outer function mappings to Stores, but loads of free
        # variables inside methods are handled by the functions themselves.
        self.stack.append({"__shadow__": {n.id for s in node.body for n in ast.walk(s)
                                          if isinstance(n, ast.Name) and isinstance(n.ctx, ast.Store)}})
        node.body = [self.visit(s) for s in node.body]
        self.stack.pop()
        if new_name:
            node.name = new_name
        return node

    def visit_Name(self, node):
        new = self._lookup(node.id)
        if new:
            node.id = new
        return node

    def visit_ImportFrom(self, node):
        for a in node.names:
            new = self._lookup(a.asname or a.name)
            if new:
                a.asname = new
        return node

    def visit_Import(self, node):
        for a in node.names:
            nm = a.asname or a.name.split(".")[0]
            new = self._lookup(nm)
            if new and (a.asname or "." not in a.name):
                a.asname = new
        return node

    def visit_ExceptHandler(self, node):
        if node.name:
            new = self._lookup(node.name)
            if new:
                node.name = new
        self.generic_visit(node)
        return node


def transform(src, filename, mode):
    with warnings.catch_warnings():
        warnings.simplefilter("ignore")
        tree = ast.parse(src, filename)
    if mode == "rename":
        table = local_names(src, filename)
        tree = Renamer(table).visit(tree)
        ast.fix_missing_locations(tree)
    out = ast.unparse(tree)
    # keep the coding line / future imports intact (unparse keeps future imports as statements)
    return out + "\n"


def main():
    mode, src, dst = sys.argv[1:4]
    only = set(sys.argv[4:])
    os.makedirs(dst, exist_ok=True)
    for fn in sorted(os.listdir(src)):
        p = os.path.join(src, fn)
        if os.path.isdir(p):
            if fn == "tests":
                shutil.copytree(p, os.path.join(dst, fn), dirs_exist_ok=True)
            continue
        if fn.endswith(".py") and (not only or fn[:-3] in only) and fn != "__init__.py":
            text = open(p, encoding="utf-8").read()
            new = transform(text, p, mode)
            open(os.path.join(dst, fn), "w", encoding="utf-8").write(new)
        else:
            shutil.copy(p, os.path.join(dst, fn))


if __name__ == "__main__":
    main()
