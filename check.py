#!/venv/bin/python
"""Static checker for the AudioLazy properties C01..C20.

usage: check.py <ID> [--tier quick|thorough] [--repo DIR] [--no-write]
       check.py --replay <replay.json> [--repo DIR]
       check.py --all [--tier ...]

Exit 0: every obligation discharged (known findings are printed).
Exit 1: one ``VIOLATION property=<id> replay=<path>`` line per unlisted violation.
Exit 2: ``ANALYSIS-ERROR`` - the analysis could not decide (never with VIOLATION).
"""
import argparse
import importlib
import json
import os
import sys
import time
import traceback

HERE = os.path.dirname(os.path.abspath(__file__))
sys.path.insert(0, HERE)

from sa import core  # noqa: E402

IDS = ["C%02d" % i for i in range(1, 21)]


def run_property(pid, tier, root, write=True, out=sys.stdout, evidence_dir=None, replay_dir=None):
    t0 = time.time()
    seed = int(os.environ.get("VERIF_SEED", "0") or 0)
    chk = core.Check(pid, tier)
    error = None
    extra = None
    try:
        repo = core.Repo(root)
        chk.repo = repo
        mod = importlib.import_module("sa.props.%s" % pid.lower())
        chk.facts["explanation"] = mod.EXPLANATION
        chk.undecided = list(getattr(mod, "UNDECIDED", []))
        mod.run(chk, repo)
        if tier == "thorough":
            extra = mod.thorough(chk, repo) if hasattr(mod, "thorough") else {}
            extra = dict(extra or {})
            extra.update(_thorough_generic(chk, repo, pid, root))
        if not chk.obls:
            raise core.AnalysisError("no obligation was generated - every rule has gone blind")
        if chk.pending_errors:
            raise core.AnalysisError("; ".join(chk.pending_errors))
    except core.AnalysisError as ex:
        error = str(ex)
    except RecursionError as ex:   # pragma: no cover
        error = "recursion limit in analysis: %s" % ex
    except Exception as ex:  # an internal error is an analysis error, never a violation
        tb = traceback.format_exc().strip().splitlines()
        error = "internal error %s: %s [%s]" % (type(ex).__name__, ex, " | ".join(tb[-4:]))
    if "explanation" not in chk.facts:
        chk.facts["explanation"] = "analysis did not start: %s" % error
    status, ev = core.finish(chk, t0, seed, error=error, extra_cov=extra, out=out, write=write,
                             evidence_dir=evidence_dir, replay_dir=replay_dir)
    return status


def _thorough_generic(chk, repo, pid, root):
    """Thorough tier, common part: (1) package-wide sweep of the generic rules (PEP-479 escape analysis) with
    non-anchored hits reported as notes; (2) the seeded-fault self-test of this property's checker on scratch copies
    (mutants, reverse patches of the fix commits, independently seeded faults, benign twins).  Self-test results are
    evidence about the checker only: the exit status still comes from the analysis of the real tree."""
    out = {}
    try:
        from sa.e3 import E3, describe
        e3 = E3([(m.name, m.tree) for m in repo.modules.values()])
        hits = []
        for m in repo.modules.values():
            for s in e3.scan(m.tree):
                if s.escapes:
                    hits.append("%s:%s %s" % (m.relpath, core.enclosing_qual(s.node), describe(s)))
        out["package_wide_stopiteration_escapes"] = hits
        for h in hits:
            chk.note("E3", h.split(" ")[0], "package-wide sweep: " + h)
    except Exception as ex:   # pragma: no cover
        out["package_wide_sweep_error"] = str(ex)
    try:
        sys.path.insert(0, HERE)
        from selftest import run as st
        from selftest.mutants import MUTANTS
        from concurrent.futures import ThreadPoolExecutor
        muts = [m for m in list(MUTANTS) + st.load_patches(root) if m["prop"] == pid]
        with ThreadPoolExecutor(min(16, os.cpu_count() or 4)) as ex:
            results = list(ex.map(lambda m: st.run_one(m, root), muts))
        tally = {}
        for r in results:
            tally[r["outcome"]] = tally.get(r["outcome"], 0) + 1
        out["selftest"] = {"mutants": len(results), "tally": tally,
                           "not_as_expected": [{k: r.get(k) for k in ("id", "outcome", "rules_fired", "detail")}
                                               for r in results if r["outcome"] not in ("ok", "caught")],
                           "caught": [{"id": r["id"], "rules": r.get("rules_fired")} for r in results if r["outcome"] == "caught"],
                           "benign_silent": [r["id"] for r in results if r["outcome"] == "ok"]}
    except Exception as ex:   # pragma: no cover
        out["selftest_error"] = "%s: %s" % (type(ex).__name__, ex)
    return out


def replay(path, root):
    with open(path) as f:
        rec = json.load(f)
    pid = rec["property"]
    import io
    buf = io.StringIO()
    t0 = time.time()
    chk = core.Check(pid, "quick")
    try:
        repo = core.Repo(root)
        chk.repo = repo
        mod = importlib.import_module("sa.props.%s" % pid.lower())
        chk.facts["explanation"] = mod.EXPLANATION
        mod.run(chk, repo)
    except core.AnalysisError as ex:
        print("ANALYSIS-ERROR property=%s %s" % (pid, ex))
        return 2
    hits = [o for o in chk.obls if o.key == rec["key"]]
    if not hits:
        print("replay: obligation %s no longer exists on this tree (construct changed or removed)" % rec["key"])
        return 0
    o = hits[0]
    print("replay: %s at %s: %s -> %s%s" % (o.rule, o.where, o.text, o.status,
                                             (" (%s)" % o.detail) if o.detail else ""))
    if o.status == "violated":
        print("VIOLATION property=%s replay=%s" % (pid, path))
        return 1
    return 0


def main(argv=None):
    ap = argparse.ArgumentParser()
    ap.add_argument("pid", nargs="?")
    ap.add_argument("--tier", default=os.environ.get("VERIF_TIER", "quick"), choices=["quick", "thorough"])
    ap.add_argument("--repo", default=os.environ.get("VERIF_REPO", "/repo"))
    ap.add_argument("--replay")
    ap.add_argument("--all", action="store_true")
    ap.add_argument("--no-write", action="store_true")
    ap.add_argument("--evidence-dir")
    ap.add_argument("--replay-dir")
    args = ap.parse_args(argv)
    if args.replay:
        return replay(args.replay, args.repo)
    if args.all:
        worst = 0
        for pid in IDS:
            worst = max(worst, run_property(pid, args.tier, args.repo, not args.no_write,
                                            evidence_dir=args.evidence_dir,
                                            replay_dir=args.replay_dir and os.path.join(args.replay_dir, pid)))
        return worst
    if not args.pid:
        ap.error("property id required")
    pid = args.pid.upper()
    if pid not in IDS:
        ap.error("unknown property %s" % pid)
    return run_property(pid, args.tier, args.repo, not args.no_write,
                        evidence_dir=args.evidence_dir, replay_dir=args.replay_dir)


if __name__ == "__main__":
    try:
        rc = main()
    except SystemExit:
        raise
    except BaseException as ex:  # pragma: no cover - last resort: never look like a violation
        print("ANALYSIS-ERROR %s: %s" % (type(ex).__name__, ex))
        rc = 2
    sys.stdout.flush()
    sys.exit(rc)
