"""E8  concurrency structure: lock regions, lock order, joins, writes under locks."""
import ast

from .core import FuncTypes, unparse, docstring_free


class ClassInfo(object):
    def __init__(self, node):
        self.node = node
        self.name = node.name
        self.methods = {f.name: f for f in node.body if isinstance(f, FuncTypes)}
        self.locks, self.events = set(), set()
        self.attr_types = {}        # attribute -> class name (receivers)
        init = self.methods.get("__init__")
        if init is not None:
            for n in ast.walk(init):
                if isinstance(n, ast.Assign) and isinstance(n.targets[0], ast.Attribute) \
                        and unparse(n.targets[0].value) == "self" and isinstance(n.value, ast.Call):
                    fn = unparse(n.value.func)
                    if fn in ("threading.Lock", "threading.RLock", "Lock", "RLock"):
                        self.locks.add(n.targets[0].attr)
                    elif fn in ("threading.Event", "Event"):
                        self.events.add(n.targets[0].attr)


class Event(object):
    def __init__(self, kind, node, held, cls, method, detail=None):
        self.kind, self.node, self.held, self.cls, self.method, self.detail = kind, node, tuple(held), cls, method, detail


class Model(object):
    def __init__(self, module_tree, class_names):
        self.classes = {}
        for n in module_tree.body:
            if isinstance(n, ast.ClassDef) and n.name in class_names:
                self.classes[n.name] = ClassInfo(n)
        self.resolved = 0
        self.unresolved = []
        self._infer_receivers()

    # receivers: x = ClassName(...); self.attr.append(x) => elements of attr are ClassName;
    # ClassName(self, ...) inside class C => first ctor parameter of ClassName (stored as self.<param>) is C
    def _infer_receivers(self):
        for ci in self.classes.values():
            for m in ci.methods.values():
                local = {}
                for n in ast.walk(m):
                    if isinstance(n, ast.Assign) and isinstance(n.targets[0], ast.Name) and isinstance(n.value, ast.Call) \
                            and unparse(n.value.func) in self.classes:
                        local[n.targets[0].id] = unparse(n.value.func)
                        callee = self.classes[unparse(n.value.func)]
                        cinit = callee.methods.get("__init__")
                        if cinit is not None:
                            params = [a.arg for a in cinit.args.args][1:]
                            for p, a in zip(params, n.value.args):
                                if unparse(a) == "self":
                                    # callee stores it as self.<p> ?
                                    for s in ast.walk(cinit):
                                        if isinstance(s, ast.Assign) and isinstance(s.targets[0], ast.Attribute) \
                                                and unparse(s.targets[0].value) == "self" and unparse(s.value) == p:
                                            callee.attr_types[s.targets[0].attr] = ci.name
                for n in ast.walk(m):
                    if isinstance(n, ast.Call) and isinstance(n.func, ast.Attribute) and n.func.attr == "append" \
                            and isinstance(n.func.value, ast.Attribute) and unparse(n.func.value.value) == "self" \
                            and n.args and isinstance(n.args[0], ast.Name) and n.args[0].id in local:
                        ci.attr_types["[]" + n.func.value.attr] = local[n.args[0].id]

    def receiver_class(self, expr, ci, local):
        """Class name of the receiver expression of a method call, or None."""
        if isinstance(expr, ast.Name):
            if expr.id == "self":
                return ci.name
            return local.get(expr.id)
        if isinstance(expr, ast.Attribute) and unparse(expr.value) == "self":
            return ci.attr_types.get(expr.attr)
        return None

    def type_of(self, v, ci, local, depth=0):
        """class of the value of an expression: constructor call, element of a typed container attribute, typed local
        or attribute, or the result of a method all of whose non-None returns have one class"""
        if isinstance(v, ast.Call) and unparse(v.func) in self.classes:
            return unparse(v.func)
        if isinstance(v, ast.Subscript) and isinstance(v.value, ast.Attribute) \
                and unparse(v.value.value) == "self" and ("[]" + v.value.attr) in ci.attr_types:
            return ci.attr_types["[]" + v.value.attr]
        if isinstance(v, ast.Name):
            return local.get(v.id)
        if isinstance(v, ast.Attribute) and unparse(v.value) == "self":
            return ci.attr_types.get(v.attr)
        if isinstance(v, ast.Call) and isinstance(v.func, ast.Attribute) and depth < 4:
            rc = self.receiver_class(v.func.value, ci, local)
            if rc is not None and v.func.attr in self.classes[rc].methods:
                return self.return_type(rc, v.func.attr, depth + 1)
        return None

    def return_type(self, cls_name, method, depth=0):
        ci = self.classes[cls_name]
        fn = ci.methods[method]
        local = {}
        for n in ast.walk(fn):
            if isinstance(n, ast.Assign) and len(n.targets) == 1 and isinstance(n.targets[0], ast.Name):
                t_ = self.type_of(n.value, ci, local, depth)
                if t_ is not None:
                    local[n.targets[0].id] = t_
        found = set()
        for n in ast.walk(fn):
            if isinstance(n, ast.Return) and n.value is not None \
                    and not (isinstance(n.value, ast.Constant) and n.value.value is None):
                found.add(self.type_of(n.value, ci, local, depth))
        return found.pop() if len(found) == 1 else None

    def walk(self, cls_name, method, held=(), depth=0, seen=None, out=None):
        """Events reachable from a method with the lock set held: acquire / join / wait / set / clear / write:<attr> / call"""
        out = [] if out is None else out
        seen = set() if seen is None else seen
        key = (cls_name, method, tuple(held))
        if key in seen or depth > 6:
            return out
        seen.add(key)
        ci = self.classes[cls_name]
        fn = ci.methods.get(method)
        if fn is None:
            return out
        local = {}

        def lockname(e):
            if isinstance(e, ast.Attribute) and unparse(e.value) == "self" and e.attr in ci.locks:
                return "%s.%s" % (ci.name, e.attr)
            return None

        def visit(stmts, held):
            for st in stmts:
                if isinstance(st, ast.With):
                    inner = list(held)
                    for item in st.items:
                        ln = lockname(item.context_expr)
                        if ln:
                            out.append(Event("acquire", st, inner, cls_name, method, ln))
                            inner = inner + [ln]
                    visit(st.body, inner)
                    continue
                # nested blocks
                for fld in ("body", "orelse", "finalbody"):
                    pass
                if isinstance(st, (ast.If, ast.For, ast.While)):
                    expr_nodes = [st.test] if hasattr(st, "test") else [st.iter]
                    for e in expr_nodes:
                        scan_expr(e, held)
                    visit(st.body, held)
                    visit(st.orelse, held)
                    continue
                if isinstance(st, ast.Try):
                    visit(st.body, held)
                    for h in st.handlers:
                        visit(h.body, held)
                    visit(st.orelse, held)
                    visit(st.finalbody, held)
                    continue
                if isinstance(st, FuncTypes + (ast.ClassDef,)):
                    continue
                # assignments that type locals
                if isinstance(st, ast.Assign) and isinstance(st.targets[0], ast.Name):
                    t_ = self.type_of(st.value, ci, local)
                    if t_ is not None:
                        local[st.targets[0].id] = t_
                # attribute writes
                if isinstance(st, (ast.Assign, ast.AugAssign)):
                    tgts = st.targets if isinstance(st, ast.Assign) else [st.target]
                    for t in tgts:
                        if isinstance(t, ast.Attribute) and unparse(t.value) == "self":
                            out.append(Event("write:" + t.attr, st, held, cls_name, method))
                scan_expr(st, held)

        def scan_expr(node, held):
            for n in ast.walk(node):
                if not isinstance(n, ast.Call) or not isinstance(n.func, ast.Attribute):
                    continue
                f = n.func
                recv = f.value
                # container mutation of self.<attr>
                if isinstance(recv, ast.Attribute) and unparse(recv.value) == "self" \
                        and f.attr in ("append", "remove", "pop", "insert", "extend", "clear"):
                    out.append(Event("write:" + recv.attr, n, held, cls_name, method, f.attr))
                # event operations
                if isinstance(recv, ast.Attribute) and unparse(recv.value) == "self" and recv.attr in ci.events \
                        and f.attr in ("wait", "set", "clear", "is_set"):
                    out.append(Event(f.attr, n, held, cls_name, method,
                                     {"event": "%s.%s" % (ci.name, recv.attr), "timed": bool(n.args or n.keywords)}))
                    continue
                rc = self.receiver_class(recv, ci, local)
                if f.attr == "join" and rc is not None:
                    out.append(Event("join", n, held, cls_name, method, rc))
                    self.resolved += 1
                    continue
                if rc is not None and f.attr in self.classes[rc].methods:
                    self.resolved += 1
                    out.append(Event("call", n, held, cls_name, method, "%s.%s" % (rc, f.attr)))
                    if f.attr != "start":
                        self.walk(rc, f.attr, held, depth + 1, seen, out)
                elif unparse(recv) == "self" or rc is not None:
                    self.unresolved.append(unparse(n.func))
        visit(docstring_free(fn.body), list(held))
        return out


def cycles(edges):
    graph = {}
    for a, b in edges:
        graph.setdefault(a, set()).add(b)
    out = []

    def dfs(n, path):
        for m in graph.get(n, ()):
            if m in path:
                out.append(path[path.index(m):] + [m])
            elif len(path) < 10:
                dfs(m, path + [m])
    for n in list(graph):
        dfs(n, [n])
    return out
