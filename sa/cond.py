"""Normal forms of comparison conditions (linear in RF)."""
import ast

from .ratfun import RF, Evaluator, Inconclusive

_FLIP = {ast.Gt: ast.Lt, ast.GtE: ast.LtE, ast.Lt: ast.Gt, ast.LtE: ast.GtE}
_NEG = {ast.Lt: ast.GtE, ast.LtE: ast.Gt, ast.Gt: ast.LtE, ast.GtE: ast.Lt, ast.Eq: ast.NotEq, ast.NotEq: ast.Eq}
_NAME = {ast.Lt: "<", ast.LtE: "<=", ast.Eq: "==", ast.NotEq: "!="}


def norm_cmp(node, env=None, negate=False, call_hook=None):
    """(op, RF) meaning  RF op 0  with op in {<, <=, ==, !=}; None if not a simple comparison."""
    if isinstance(node, ast.UnaryOp) and isinstance(node.op, ast.Not):
        return norm_cmp(node.operand, env, not negate, call_hook)
    if not (isinstance(node, ast.Compare) and len(node.ops) == 1):
        return None
    op = type(node.ops[0])
    if op not in _NEG:
        return None
    if negate:
        op = _NEG[op]
    ev = Evaluator(env or {}, call_hook=call_hook)
    try:
        l, r = ev.ev(node.left), ev.ev(node.comparators[0])
    except Inconclusive:
        return None
    if op in (ast.Gt, ast.GtE):
        op = _FLIP[op]
        l, r = r, l
    diff = l - r
    if op in (ast.Eq, ast.NotEq):
        # sign-normalise
        s = diff.simplified()
        if s.n:
            lead = s.n[sorted(s.n)[0]]
            if lead < 0:
                diff = -diff
    return (_NAME[op], diff)


def same_cond(c1, c2):
    if c1 is None or c2 is None:
        return False
    return c1[0] == c2[0] and c1[1] == c2[1]


def cond_key(c):
    return None if c is None else "%s %s 0" % (c[1].key(), c[0])


def parse_cond(src, env=None, negate=False):
    return norm_cmp(ast.parse(src, mode="eval").body, env, negate)


def relation(cond_node, polarity, a, b, env=None):
    """Relation between names a and b implied by a comparison node taken with the given polarity:
    one of '<', '<=', '>', '>=', '==', '!=' (a REL b) or None."""
    if isinstance(cond_node, ast.UnaryOp) and isinstance(cond_node.op, ast.Not):
        return relation(cond_node.operand, not polarity, a, b, env)
    if not (isinstance(cond_node, ast.Compare) and len(cond_node.ops) == 1):
        return None
    l, r = ast.unparse(cond_node.left), ast.unparse(cond_node.comparators[0])
    op = type(cond_node.ops[0])
    if op not in _NEG:
        return None
    if not polarity:
        op = _NEG[op]
    names = {ast.Lt: "<", ast.LtE: "<=", ast.Gt: ">", ast.GtE: ">=", ast.Eq: "==", ast.NotEq: "!="}
    flip = {"<": ">", "<=": ">=", ">": "<", ">=": "<=", "==": "==", "!=": "!="}
    if (l, r) == (a, b):
        return names[op]
    if (l, r) == (b, a):
        return flip[names[op]]
    return None
