"""E14  helper inlining.

"Extract function" is the most common behaviour-preserving edit, and almost every rule is written about the function a
property is anchored in.  Before the rules (and the equivalence normaliser) look at a tree, calls to *private helpers that
the confirmed snapshot does not have* are replaced by the helper's body:

  * module-level ``_helper(..)``, methods ``self._helper(..)`` of the same class or of a base class in the module, and
    closures defined inside the calling function;
  * the call is a statement (``h(..)``, ``x = h(..)``, ``return h(..)``) or the first thing a statement evaluates (it is
    then hoisted into a temporary, which keeps the order of effects);
  * the body is first brought to a form in which every ``return`` is in tail position (code after an ``if`` that leaves
    belongs to its other arm); a ``return`` inside a loop / try / with, a generator, or ``global`` / ``nonlocal`` stops
    the inlining of that helper;
  * plain-name and literal arguments are substituted, anything else is bound to a temporary first (arguments are
    evaluated exactly once, before the body, in order); the helper's own locals get a unique suffix.

Each step preserves behaviour, so a rule that decides the in-lined function decides the original.  Helpers that are no
longer referenced afterwards are dropped from the analysed view.
"""
import ast
import copy

from .core import FuncTypes, docstring_free


def _clean(node):
    return ast.parse(ast.unparse(node)).body[0]


def _copy_expr(e):
    """copy of an expression that does not follow the ``_parent`` back-links of analysed trees"""
    return ast.parse(ast.unparse(e), mode="eval").body


def _copy_target(t):
    new = ast.parse(ast.unparse(t) + " = 0").body[0].targets[0]
    return new


def _fix_empty(stmts):
    """blocks must not be empty"""
    for st in stmts:
        for n in ast.walk(st):
            if isinstance(n, (ast.If, ast.For, ast.While, ast.With, ast.Try, ast.ExceptHandler) + FuncTypes) and not n.body:
                n.body = [ast.Pass(lineno=getattr(n, "lineno", 1), col_offset=0)]
    return stmts


def _always_leaves(stmts):
    if not stmts:
        return False
    last = stmts[-1]
    if isinstance(last, (ast.Return, ast.Raise, ast.Continue, ast.Break)):
        return True
    if isinstance(last, ast.If) and last.orelse:
        return _always_leaves(last.body) and _always_leaves(last.orelse)
    return False


def _tailify(stmts):
    """code after an ``if`` with a leaving arm moves into the other arm (recursively)"""
    stmts = list(stmts)
    for i, st in enumerate(stmts):
        if isinstance(st, ast.If):
            rest = stmts[i + 1:]
            bl, ol = _always_leaves(st.body), _always_leaves(st.orelse)
            if rest and (bl or ol) and not (bl and ol):
                if bl:
                    st.orelse = list(st.orelse) + rest
                else:
                    st.body = list(st.body) + rest
                stmts = stmts[:i + 1]
                break
    for st in stmts:
        if isinstance(st, ast.If):
            st.body = _tailify(st.body)
            st.orelse = _tailify(st.orelse)
    return stmts


def _returns_only_in_tail(stmts):
    """True when every Return of the block is the last statement of a tail chain of ifs"""
    for i, st in enumerate(stmts):
        last = i == len(stmts) - 1
        if isinstance(st, ast.Return):
            if not last:
                return False
            continue
        if isinstance(st, ast.If) and last:
            if not _returns_only_in_tail(st.body) or not _returns_only_in_tail(st.orelse):
                return False
            continue
        if isinstance(st, FuncTypes + (ast.ClassDef,)):
            continue
        for n in ast.walk(st):
            if isinstance(n, ast.Return):
                # inside a nested def it belongs to that def
                inside = False
                for d in ast.walk(st):
                    if isinstance(d, FuncTypes + (ast.Lambda,)) and d is not st and any(x is n for x in ast.walk(d)):
                        inside = True
                        break
                if not inside:
                    return False
    return True


def _replace_tails(stmts, make):
    """replace tail ``return E`` by make(E) (a list of statements); tails that fall off get make(None)"""
    if not stmts:
        return make(None)
    last = stmts[-1]
    if isinstance(last, ast.Return):
        return stmts[:-1] + make(last.value)
    if isinstance(last, ast.Raise):
        return stmts
    if isinstance(last, ast.If):
        last.body = _replace_tails(last.body, make)
        last.orelse = _replace_tails(last.orelse, make)
        return stmts
    return stmts + make(None)


def _has_effect(node):
    return any(isinstance(n, (ast.Call, ast.Yield, ast.YieldFrom, ast.Await, ast.NamedExpr)) for n in ast.walk(node))


STABLE_MODULES = {"operator", "it", "itertools", "math", "cmath", "np", "numpy", "sys", "struct", "array", "wave"}


def _simple(e):
    """evaluating it has no effect and gives the same object whenever it is done"""
    if isinstance(e, (ast.Name, ast.Constant)):
        return True
    return isinstance(e, ast.Attribute) and isinstance(e.value, ast.Name) and e.value.id in STABLE_MODULES


class _Subst(ast.NodeTransformer):
    def __init__(self, mapping):
        self.m = mapping

    def visit_Name(self, n):
        if n.id in self.m and isinstance(n.ctx, ast.Load):
            return _copy_expr(self.m[n.id])
        return n


def _bind(helper, call, lead):
    params = [a.arg for a in helper.args.args]
    a = helper.args
    if a.vararg or a.kwarg or a.kwonlyargs or a.posonlyargs:
        return None
    if any(k.arg is None for k in call.keywords) or any(isinstance(x, ast.Starred) for x in call.args):
        return None
    args = list(lead) + list(call.args)
    if len(args) > len(params):
        return None
    bound = []
    seen = set()
    for p, v in zip(params, args):
        bound.append((p, v))
        seen.add(p)
    for k in call.keywords:
        if k.arg not in params or k.arg in seen:
            return None
        bound.append((k.arg, k.value))
        seen.add(k.arg)
    dfl = helper.args.defaults
    for p, d in zip(params[len(params) - len(dfl):], dfl):
        if p not in seen:
            bound.append((p, d))
            seen.add(p)
    if seen != set(params):
        return None
    return bound


def first_effect_call(node):
    """The call that is evaluated first among everything with an effect in ``node`` (Python's evaluation order), or
    None when something else comes first / the order cannot be told."""
    if isinstance(node, (ast.Expr, ast.Return)):
        return first_effect_call(node.value) if node.value is not None else None
    if isinstance(node, ast.Assign):
        if not all(isinstance(t, ast.Name) for t in node.targets):
            return None
        return first_effect_call(node.value)
    if isinstance(node, ast.If):
        return first_effect_call(node.test)
    if isinstance(node, ast.For):
        return first_effect_call(node.iter)
    if isinstance(node, (ast.Name, ast.Constant)) or node is None:
        return None
    if isinstance(node, ast.Call):
        f = node.func
        base = f
        while isinstance(base, ast.Attribute):
            base = base.value
        if not isinstance(base, ast.Name):
            r = first_effect_call(node.func)
            return r
        for a in list(node.args) + [k.value for k in node.keywords]:
            if _has_effect(a):
                return first_effect_call(a)
        return node
    if isinstance(node, (ast.GeneratorExp, ast.ListComp, ast.SetComp, ast.DictComp)):
        return first_effect_call(node.generators[0].iter)
    if isinstance(node, ast.BinOp):
        if _has_effect(node.left):
            return first_effect_call(node.left)
        # both operands are evaluated (left, then right) before the operator is applied: with an effect-free left
        # operand the first effect of the right one is the first effect of the whole
        return first_effect_call(node.right) if _has_effect(node.right) else None
    if isinstance(node, ast.Compare):
        if _has_effect(node.left):
            return first_effect_call(node.left)
        if len(node.comparators) == 1 and _has_effect(node.comparators[0]):
            return first_effect_call(node.comparators[0])
        return None
    if isinstance(node, ast.BoolOp):
        return first_effect_call(node.values[0]) if _has_effect(node.values[0]) else None
    if isinstance(node, ast.UnaryOp):
        return first_effect_call(node.operand)
    if isinstance(node, ast.IfExp):
        return first_effect_call(node.test) if _has_effect(node.test) else None
    if isinstance(node, (ast.Attribute, ast.Subscript, ast.Starred)):
        return first_effect_call(node.value) if _has_effect(node.value) else None
    if isinstance(node, (ast.Tuple, ast.List)):
        for e in node.elts:
            if _has_effect(e):
                return first_effect_call(e)
        return None
    return None


def expr_body(helper):
    """the helper's result as one expression when its body is a tree of if / return only, else None"""
    if any(isinstance(n, (ast.Yield, ast.YieldFrom, ast.Global, ast.Nonlocal, ast.Await)) for n in ast.walk(helper)):
        return None
    a = helper.args
    if a.vararg or a.kwarg or a.kwonlyargs or a.posonlyargs:
        return None
    body = _tailify(docstring_free(_clean(helper).body))

    def conv(stmts):
        if not stmts:
            return ast.Constant(value=None)
        if len(stmts) != 1:
            return None
        st = stmts[0]
        if isinstance(st, ast.Return):
            return st.value if st.value is not None else ast.Constant(value=None)
        if isinstance(st, ast.If):
            x, y = conv(st.body), conv(st.orelse)
            if x is None or y is None:
                return None
            return ast.IfExp(test=st.test, body=x, orelse=y)
        return None
    return conv(body)


def _bound_inside(node):
    out = set()
    for n in ast.walk(node):
        if isinstance(n, ast.comprehension):
            out |= {t.id for t in ast.walk(n.target) if isinstance(t, ast.Name)}
        elif isinstance(n, ast.Lambda):
            out |= {x.arg for x in n.args.args + n.args.kwonlyargs}
        elif isinstance(n, ast.NamedExpr):
            out.add(n.target.id)
    return out


def beta_reduce(call):
    """(lambda p, q: E)(a, b)  ->  E[p:=a, q:=b] for arguments that are plain names / literals (no capture)"""
    f = call.func
    if not (isinstance(f, ast.Lambda) and not call.keywords and not any(isinstance(x, ast.Starred) for x in call.args)):
        return call
    a = f.args
    if a.vararg or a.kwarg or a.kwonlyargs or a.posonlyargs or a.defaults or len(a.args) != len(call.args):
        return call
    inner = _bound_inside(f.body)
    subst, keep_p, keep_a = {}, [], []
    def pure_read(e):
        if isinstance(e, (ast.Name, ast.Constant)):
            return True
        if isinstance(e, ast.Attribute):
            return pure_read(e.value)
        return isinstance(e, ast.Call) and isinstance(e.func, ast.Name) and e.func.id == "len" and len(e.args) == 1 \
            and not e.keywords and pure_read(e.args[0])
    for p, v in zip(a.args, call.args):
        free = {n.id for n in ast.walk(v) if isinstance(n, ast.Name)} - _bound_inside(v)
        once = sum(1 for n in ast.walk(f.body) if isinstance(n, ast.Name) and n.id == p.arg) == 1
        # the body is a generator expression whose first iterable is the parameter: evaluated on the spot, like the argument
        first_iter = once and isinstance(f.body, ast.GeneratorExp) and isinstance(f.body.generators[0].iter, ast.Name) \
            and f.body.generators[0].iter.id == p.arg and len(call.args) == 1
        if first_iter and not (free & (inner - {p.arg})):
            subst[p.arg] = v
            continue
        if once and len(call.args) == 1 and not (free & inner) and p.arg not in inner:
            # the only argument, read before anything else the body does: evaluating it there is evaluating it first
            from .equiv import _loaded_first
            if _loaded_first(f.body, p.arg):
                subst[p.arg] = v
                continue
        if (_simple(v) or isinstance(v, ast.Lambda) or (pure_read(v) and once)) and not (free & inner) and p.arg not in inner:
            subst[p.arg] = v
        else:
            keep_p.append(p)
            keep_a.append(v)
    if not subst:
        return call
    body = _Subst(subst).visit(_copy_expr(f.body))
    if not keep_p:
        return body
    lam = ast.Lambda(args=ast.arguments(posonlyargs=[], args=keep_p, vararg=None, kwonlyargs=[], kw_defaults=[],
                                        kwarg=None, defaults=[]), body=body)
    return ast.Call(func=lam, args=keep_a, keywords=[])


class ExprInliner(ast.NodeTransformer):
    """calls of helpers whose body is one expression -> applied lambda, beta-reduced where possible"""
    def __init__(self, resolve):
        self.resolve = resolve
        self.done = []

    def visit_Call(self, node):
        self.generic_visit(node)
        h, lead = self.resolve(node)
        if h is not None:
            e = expr_body(h)
            if e is not None:
                bound = _bind(h, node, lead)
                if bound is not None:
                    order = {p.arg: i for i, p in enumerate(h.args.args)}
                    bound.sort(key=lambda pv: order[pv[0]])
                    # keyword / default arguments change evaluation order only among themselves: accepted when they are simple
                    positional = len(lead) + len(node.args)
                    if all(_simple(v) for _, v in bound[positional:]):
                        lam = ast.Lambda(args=ast.arguments(posonlyargs=[], args=[ast.arg(arg=p) for p, _ in bound], vararg=None,
                                                            kwonlyargs=[], kw_defaults=[], kwarg=None, defaults=[]), body=e)
                        self.done.append(h.name)
                        return beta_reduce(ast.Call(func=lam, args=[_copy_expr(v) for _, v in bound], keywords=[]))
        if isinstance(node.func, ast.Lambda):
            return beta_reduce(node)
        return node


def _recursive(h):
    """the helper mentions its own name (a call to itself, directly or as a method)"""
    r = getattr(h, "_rec", None)
    if r is None:
        r = any((isinstance(n, ast.Name) and n.id == h.name) or (isinstance(n, ast.Attribute) and n.attr == h.name)
                for s_ in h.body for n in ast.walk(s_))
        try:
            h._rec = r
        except Exception:
            pass
    return r


class Inliner(object):
    def __init__(self, helpers, methods):
        self.helpers = helpers      # name -> FunctionDef (module level)
        self.methods = methods      # name -> FunctionDef (self._m)
        self.counter = 0
        self.done = []
        self.class_names = ()       # the class being read and its bases: ``C._m(self, ..)`` / ``C._s(..)`` (static) calls
        self.statics = {}           # name -> FunctionDef decorated @staticmethod

    def resolve(self, call, local):
        h, lead = None, None
        if isinstance(call.func, ast.Name):
            h = local.get(call.func.id) or self.helpers.get(call.func.id)
            lead = []
        elif isinstance(call.func, ast.Attribute) and isinstance(call.func.value, ast.Name) and call.func.value.id == "self" \
                and call.func.attr in self.methods:
            h, lead = self.methods[call.func.attr], [ast.Name(id="self", ctx=ast.Load())]
        elif isinstance(call.func, ast.Attribute) and isinstance(call.func.value, ast.Name) \
                and call.func.value.id in self.class_names:
            if call.func.attr in self.methods and call.args and isinstance(call.args[0], ast.Name) and call.args[0].id == "self":
                h, lead = self.methods[call.func.attr], []          # C._m(self, ..): self is the first argument
            elif call.func.attr in self.statics:
                h, lead = self.statics[call.func.attr], []
        elif isinstance(call.func, ast.Attribute) and isinstance(call.func.value, ast.Name) and call.func.value.id == "self" \
                and call.func.attr in self.statics:
            h, lead = self.statics[call.func.attr], []
        if h is None or _recursive(h):
            return None, None
        return h, lead

    def body_for(self, helper, call, lead, make, keep_returns=False):
        bound = _bind(helper, call, lead)
        if bound is None:
            return None
        if any(isinstance(n, (ast.Yield, ast.YieldFrom, ast.Global, ast.Nonlocal, ast.Await)) for n in ast.walk(helper)):
            return None
        h = _clean(helper)
        body = _tailify(docstring_free(h.body))
        if not keep_returns and not _returns_only_in_tail(body):
            return None
        self.counter += 1
        suffix = "__in%d" % self.counter
        params = [p for p, _ in bound]
        stored = {n.id for n in ast.walk(ast.Module(body=body, type_ignores=[]))
                  if isinstance(n, ast.Name) and isinstance(n.ctx, (ast.Store, ast.Del))}
        stored |= {n.name for n in ast.walk(ast.Module(body=body, type_ignores=[])) if isinstance(n, FuncTypes)}
        pre = []
        subst = {}
        rename = {}
        def _captured_late(pname):
            """is the parameter read inside a nested def / lambda / comprehension of the helper (evaluated later)?"""
            for n in ast.walk(ast.Module(body=body, type_ignores=[])):
                if isinstance(n, FuncTypes + (ast.Lambda,)):
                    if any(isinstance(x, ast.Name) and x.id == pname for x in ast.walk(n)):
                        return True
                elif isinstance(n, (ast.GeneratorExp,)):
                    inner = [x for g in n.generators[1:] for x in ast.walk(g.iter)] + list(ast.walk(n.elt)) \
                        + [x for g in n.generators for c_ in g.ifs for x in ast.walk(c_)]
                    if any(isinstance(x, ast.Name) and x.id == pname for x in inner):
                        return True
            return False
        for p, v in bound:
            # a variable of the caller handed to a helper that closes over its parameter: the helper holds the value
            # the variable has at the call, whatever the caller binds the name to afterwards - kept in a local of its own
            if _simple(v) and p not in stored and not (isinstance(v, ast.Name) and _captured_late(p)
                                                       and _rebound_later(getattr(self, "current_fn", None), v.id, call)):
                subst[p] = v
            else:
                rename[p] = p + suffix
                pre.append(ast.Assign(targets=[ast.Name(id=p + suffix, ctx=ast.Store())], value=_copy_expr(v),
                                      lineno=call.lineno, col_offset=0))
        for nm in stored - set(params):
            rename[nm] = nm + suffix
        mod = ast.Module(body=body, type_ignores=[])
        for n in ast.walk(mod):
            if isinstance(n, ast.Name) and n.id in rename:
                n.id = rename[n.id]
            elif isinstance(n, FuncTypes) and n.name in rename:
                n.name = rename[n.name]
        mod = _Subst(subst).visit(mod)
        if keep_returns:
            out = pre + mod.body + ([] if _always_leaves(mod.body) else [ast.Return(value=None)])
        else:
            out = pre + _replace_tails(mod.body, make)
        for n in out:
            for x in ast.walk(n):
                if hasattr(x, "lineno") or isinstance(x, (ast.stmt, ast.expr)):
                    x.lineno = getattr(call, "lineno", 1)
                    x.end_lineno = getattr(call, "lineno", 1)
                    x.col_offset = 0
                    x.end_col_offset = 0
        self.done.append(helper.name)
        return _fix_empty(out)

    def expressions(self, st, local):
        """expression-bodied helpers inside the statement's own expressions (not inside nested statements)"""
        tr = ExprInliner(lambda c: self.resolve(c, local))
        changed = False
        for fld, val in ast.iter_fields(st):
            if fld in ("body", "orelse", "finalbody", "handlers"):
                continue
            if isinstance(val, ast.expr):
                new = tr.visit(val)
                if tr.done:
                    setattr(st, fld, new)
            elif isinstance(val, list):
                for i, v in enumerate(val):
                    if isinstance(v, ast.expr):
                        val[i] = tr.visit(v)
                    elif isinstance(v, (ast.keyword, ast.withitem)):
                        tr.visit(v)
        if tr.done:
            self.done.extend(tr.done)
            changed = True
        return changed

    def generator_helper(self, call, local):
        """helper generator function for ``call`` (statement-level yields only, no return), else None"""
        if not isinstance(call, ast.Call):
            return None, None
        h, lead = None, None
        if isinstance(call.func, ast.Name):
            h, lead = local.get(call.func.id) or self.helpers.get(call.func.id), []
        elif isinstance(call.func, ast.Attribute) and isinstance(call.func.value, ast.Name) and call.func.value.id == "self" \
                and call.func.attr in self.methods:
            h, lead = self.methods[call.func.attr], [ast.Name(id="self", ctx=ast.Load())]
        if h is None or _recursive(h):
            return None, None
        ys = [n for n in ast.walk(h) if isinstance(n, (ast.Yield, ast.YieldFrom))]
        if not ys or any(isinstance(n, (ast.YieldFrom, ast.Return, ast.Global, ast.Nonlocal)) for n in ast.walk(h)):
            return None, None
        stmt_yields = [n for n in ast.walk(h) if isinstance(n, ast.Expr) and isinstance(n.value, ast.Yield)]
        if len(stmt_yields) != len(ys):
            return None, None          # a yield whose value is used
        return h, lead

    def for_over_generator(self, st, local):
        """for T in gen(args): BODY   ->   gen's body with every ``yield E`` replaced by  T = E ; BODY"""
        if not (isinstance(st, ast.For) and not st.orelse and isinstance(st.target, ast.Name)):
            return None
        # for x in (A, B, C): BODY  with generator-helper calls among A, B, C: unrolled first (creating the generators
        # has no effect, their bodies run when iterated)
        if isinstance(st.iter, (ast.Tuple, ast.List)) and st.iter.elts and len(st.body) <= 3 and any(
                self.generator_helper(e, local)[0] is not None for e in st.iter.elts) and all(
                isinstance(e, ast.Name) or (isinstance(e, ast.Call) and all(_simple(a) for a in e.args) and not e.keywords
                                            and self.generator_helper(e, local)[0] is not None) for e in st.iter.elts) \
                and not any(isinstance(n, (ast.Break, ast.Continue)) for b in st.body for n in ast.walk(b)):
            out = []
            for e in st.iter.elts:
                body = [ast.parse(ast.unparse(b)).body[0] for b in st.body]
                body = [_Subst({st.target.id: e}).visit(b) for b in body]
                out.extend(body)
            return out
        h, lead = self.generator_helper(st.iter, local)
        if h is None:
            return None
        if any(isinstance(n, (ast.Break, ast.Continue, ast.Return)) for b in st.body for n in ast.walk(b)):
            return None
        bound = _bind(h, st.iter, lead)
        if bound is None or not all(_simple(v) for _, v in bound):
            return None
        hc = _clean(h)
        body = docstring_free(hc.body)
        self.counter += 1
        suffix = "__in%d" % self.counter
        params = [p for p, _ in bound]
        mod = ast.Module(body=body, type_ignores=[])
        stored = {n.id for n in ast.walk(mod) if isinstance(n, ast.Name) and isinstance(n.ctx, (ast.Store, ast.Del))}
        if stored & set(params):
            return None
        for n in ast.walk(mod):
            if isinstance(n, ast.Name) and n.id in stored:
                n.id = n.id + suffix
        mod = _Subst(dict(bound)).visit(mod)
        tname = st.target.id
        loop_body_src = [ast.unparse(b) for b in st.body]

        def repl(stmts):
            out = []
            for s_ in stmts:
                if isinstance(s_, ast.Expr) and isinstance(s_.value, ast.Yield):
                    val = s_.value.value if s_.value.value is not None else ast.Constant(value=None)
                    out.append(ast.Assign(targets=[ast.Name(id=tname, ctx=ast.Store())], value=val, lineno=st.lineno, col_offset=0))
                    out.extend(ast.parse(src).body[0] for src in loop_body_src)
                    continue
                for fld in ("body", "orelse", "finalbody"):
                    b = getattr(s_, fld, None)
                    if isinstance(b, list) and b and isinstance(b[0], ast.stmt):
                        setattr(s_, fld, repl(b))
                for hh in getattr(s_, "handlers", []) or []:
                    hh.body = repl(hh.body)
                out.append(s_)
            return out
        new = repl(mod.body)
        for n_ in new:
            for x in ast.walk(n_):
                if isinstance(x, (ast.stmt, ast.expr)):
                    x.lineno = getattr(st, "lineno", 1)
                    x.end_lineno = getattr(st, "lineno", 1)
                    x.col_offset = 0
                    x.end_col_offset = 0
        self.done.append(h.name)
        return _fix_empty(new)

    def _has_helper_call(self, node, local):
        for n in ast.walk(node):
            if isinstance(n, ast.Call) and self.resolve(n, local)[0] is not None:
                return True
        return False

    def statement(self, st, local):
        """[statements] replacing ``st`` or None"""
        # if A and H(..): S      ->      if A: if H(..): S          (no else: exactly the same short circuit)
        if isinstance(st, ast.If) and not st.orelse and isinstance(st.test, ast.BoolOp) and isinstance(st.test.op, ast.And) \
                and len(st.test.values) >= 2 and not self._has_helper_call(st.test.values[0], local) \
                and any(self._has_helper_call(v, local) for v in st.test.values[1:]):
            rest = st.test.values[1:]
            inner_test = rest[0] if len(rest) == 1 else ast.BoolOp(op=ast.And(), values=rest)
            inner = ast.If(test=inner_test, body=st.body, orelse=[], lineno=st.lineno, col_offset=0)
            outer = ast.If(test=st.test.values[0], body=[inner], orelse=[], lineno=st.lineno, col_offset=0)
            ast.fix_missing_locations(outer)
            return [outer]
        # if A or H(..): LEAVE      ->      if A: LEAVE ; if H(..): LEAVE         (LEAVE one break / continue / return / raise
        # without a call: the second test is reached exactly when A is false)
        if isinstance(st, ast.If) and not st.orelse and isinstance(st.test, ast.BoolOp) and isinstance(st.test.op, ast.Or) \
                and len(st.test.values) >= 2 and not self._has_helper_call(st.test.values[0], local) \
                and any(self._has_helper_call(v, local) for v in st.test.values[1:]) and len(st.body) == 1 \
                and isinstance(st.body[0], (ast.Break, ast.Continue, ast.Return, ast.Raise)) \
                and not any(isinstance(n, ast.Call) for n in ast.walk(st.body[0])):
            rest = st.test.values[1:]
            second_test = rest[0] if len(rest) == 1 else ast.BoolOp(op=ast.Or(), values=rest)
            first = ast.If(test=st.test.values[0], body=[copy.deepcopy(st.body[0])], orelse=[], lineno=st.lineno, col_offset=0)
            second = ast.If(test=second_test, body=st.body, orelse=[], lineno=st.lineno, col_offset=0)
            ast.fix_missing_locations(first)
            ast.fix_missing_locations(second)
            return [first, second]
        if isinstance(st, ast.For):
            rep = self.for_over_generator(st, local)
            if rep is not None:
                return rep
        if not isinstance(st, FuncTypes + (ast.ClassDef,)) and self.expressions(st, local):
            return [st]
        call, kind = None, None
        if isinstance(st, ast.Expr) and isinstance(st.value, ast.Call):
            call, kind = st.value, "expr"
        elif isinstance(st, ast.Assign) and isinstance(st.value, ast.Call):
            call, kind = st.value, "assign"
        elif isinstance(st, ast.Return) and isinstance(st.value, ast.Call):
            call, kind = st.value, "return"
        if call is not None:
            h, lead = self.resolve(call, local)
            if h is not None:
                ln = st.lineno

                def make(val):
                    v = val if val is not None else ast.Constant(value=None)
                    if kind == "expr":
                        return [ast.Expr(value=v, lineno=ln, col_offset=0)] if _has_effect(v) else []
                    if kind == "assign":
                        return [ast.Assign(targets=[_copy_target(t) for t in st.targets], value=v, lineno=ln, col_offset=0)]
                    return [ast.Return(value=val, lineno=ln, col_offset=0)]
                got = self.body_for(h, call, lead, make, keep_returns=(kind == "return"))
                if got is not None:
                    return got or [ast.Pass(lineno=ln, col_offset=0)]
        # hoist: a helper call that is the first effect of the statement
        if isinstance(st, (ast.Expr, ast.Assign, ast.Return, ast.If, ast.For)):
            c = first_effect_call(st)
            if c is not None and c is not call:
                h, lead = self.resolve(c, local)
                if h is not None:
                    self.counter += 1
                    tmp = "ret__in%d" % self.counter
                    ln = st.lineno

                    def make2(val):
                        v = val if val is not None else ast.Constant(value=None)
                        return [ast.Assign(targets=[ast.Name(id=tmp, ctx=ast.Store())], value=v, lineno=ln, col_offset=0)]
                    got = self.body_for(h, c, lead, make2)
                    if got is not None:
                        # replace the call node inside st by the temporary
                        class R(ast.NodeTransformer):
                            def visit_Call(self2, node):
                                if node is c:
                                    return ast.Name(id=tmp, ctx=ast.Load(), lineno=ln, col_offset=0)
                                self2.generic_visit(node)
                                return node
                        new_st = R().visit(st)
                        return got + [new_st]
        return None

    def block(self, stmts, local):
        out = []
        changed = False
        for st in stmts:
            rep = self.statement(st, local)
            if rep is not None:
                changed = True
                sub, _ = self.block(rep, local) if len(self.done) < 200 else (rep, False)
                out.extend(sub)
                continue
            if not isinstance(st, FuncTypes + (ast.ClassDef,)):
                for fld in ("body", "orelse", "finalbody"):
                    blk = getattr(st, fld, None)
                    if isinstance(blk, list) and blk and isinstance(blk[0], ast.stmt):
                        nb, ch = self.block(blk, local)
                        if ch:
                            setattr(st, fld, nb)
                            changed = True
                for h in getattr(st, "handlers", []) or []:
                    nb, ch = self.block(h.body, local)
                    if ch:
                        h.body = nb
                        changed = True
            elif isinstance(st, FuncTypes):
                ch = self.function(st, local)
                changed = changed or ch
            out.append(st)
        return out, changed

    def function(self, fn, outer_local=None):
        """inline inside ``fn`` (closures defined in it included); True when something changed"""
        local = dict(outer_local or {})
        for s in fn.body:
            if isinstance(s, FuncTypes) and not s.decorator_list:
                # a closure is a candidate only when it is just called (never passed around)
                loads = [n for n in ast.walk(fn) if isinstance(n, ast.Name) and n.id == s.name and isinstance(n.ctx, ast.Load)]
                calls = [n for n in ast.walk(fn) if isinstance(n, ast.Call) and isinstance(n.func, ast.Name) and n.func.id == s.name]
                if loads and len(loads) == len(calls):
                    local[s.name] = s
        new, changed = self.block(fn.body, local)
        if changed:
            fn.body = new
            # closures that are not referenced any more disappear
            keep = []
            for s in fn.body:
                if isinstance(s, FuncTypes) and s.name in local and not any(
                        isinstance(n, ast.Name) and n.id == s.name for n in ast.walk(fn) if n is not s):
                    continue
                keep.append(s)
            fn.body = keep or [ast.Pass()]
        return changed


def _rebound_later(fn, name, call):
    """may the caller bind ``name`` again after the call (a store below it, or anywhere in a loop around it)?
    Unknown caller: yes."""
    if fn is None:
        return True
    line = getattr(call, "lineno", 0)
    stores = [n for n in ast.walk(fn) if (isinstance(n, ast.Name) and n.id == name and isinstance(n.ctx, (ast.Store, ast.Del)))]
    if any(getattr(s_, "lineno", 0) >= line for s_ in stores):
        return True
    for lp in [n for n in ast.walk(fn) if isinstance(n, (ast.For, ast.While))]:
        inside = list(ast.walk(lp))
        if any(x is call for x in inside) and any(s_ in inside for s_ in stores):
            return True
    return False


def run_inliner(inl, fn, known=frozenset()):
    base = inl.function

    def function(f, outer_local=None):
        prev_ = getattr(inl, "current_fn", None)
        inl.current_fn = f
        try:
            return _function(f, outer_local)
        finally:
            inl.current_fn = prev_

    def _function(f, outer_local=None):
        local = dict(outer_local or {})
        nested_defs = []
        for blk in _blocks_of(f):
            for x in blk:
                if isinstance(x, FuncTypes) and not x.decorator_list and x.name not in known:
                    if blk is not f.body:
                        # a definition inside a branch: only when it is the one binding of its name in the function
                        binds = sum(1 for n in ast.walk(f) if (isinstance(n, ast.Name) and n.id == x.name
                                                               and isinstance(n.ctx, (ast.Store, ast.Del)))
                                    or (isinstance(n, FuncTypes) and n is not f and n.name == x.name))
                        if binds != 1:
                            continue
                        # and every call follows it in that same block
                        idx = blk.index(x)
                        inside = sum(1 for s2 in blk[idx + 1:] for n in ast.walk(s2) if isinstance(n, ast.Name) and n.id == x.name)
                        total = sum(1 for n in ast.walk(f) if isinstance(n, ast.Name) and n.id == x.name)
                        if inside != total:
                            continue
                        nested_defs.append((blk, x))
                    loads = [n for n in ast.walk(f) if isinstance(n, ast.Name) and n.id == x.name and isinstance(n.ctx, ast.Load)]
                    calls = [n for n in ast.walk(f) if isinstance(n, ast.Call) and isinstance(n.func, ast.Name) and n.func.id == x.name]
                    if loads and len(loads) == len(calls):
                        local[x.name] = x
        new, changed = inl.block(f.body, local)
        if changed:
            f.body = new
            keep = []
            for x in f.body:
                if isinstance(x, FuncTypes) and x.name in local and not any(
                        isinstance(n, ast.Name) and n.id == x.name for n in ast.walk(f) if n is not x):
                    continue
                keep.append(x)
            f.body = keep or [ast.Pass()]
            for blk in _blocks_of(f):
                for x in list(blk):
                    if blk is not f.body and isinstance(x, FuncTypes) and x.name in local and not any(
                            isinstance(n, ast.Name) and n.id == x.name for n in ast.walk(f) if n is not x):
                        blk.remove(x)
                        if not blk:
                            blk.append(ast.Pass())
        return changed
    inl.function = function
    if function(fn):
        for g in ast.walk(fn):
            if isinstance(g, FuncTypes):
                cleanup_copies(g, only=lambda nm: "__in" in nm)



def _private(name):
    return name.startswith("_") and not name.startswith("__")


def _literal_value(e, depth=0):
    if isinstance(e, ast.Constant):
        return True
    if isinstance(e, ast.UnaryOp) and isinstance(e.op, ast.USub) and isinstance(e.operand, ast.Constant):
        return True
    if depth > 3:
        return False
    if isinstance(e, (ast.Tuple, ast.List, ast.Set)):
        return all(_literal_value(x, depth + 1) for x in e.elts)
    if isinstance(e, ast.Dict):
        return all(k is not None and _literal_value(k, depth + 1) for k in e.keys) \
            and all(_literal_value(v, depth + 1) for v in e.values)
    return False


def _inline_new_constants(tree, ref_tree):
    """A private module-level name the reference does not have, bound once to a literal and only ever read (looked up,
    tested for membership, iterated, measured) stands for that literal: uses are replaced by it and the binding goes."""
    ref_names = {n.id for n in ast.walk(ref_tree) if isinstance(n, ast.Name)} | \
                {a.arg for a in ast.walk(ref_tree) if isinstance(a, ast.arg)}
    cands = {}
    for st in tree.body:
        if isinstance(st, ast.Assign) and len(st.targets) == 1 and isinstance(st.targets[0], ast.Name) \
                and _private(st.targets[0].id) and st.targets[0].id not in ref_names and _literal_value(st.value):
            cands[st.targets[0].id] = st
    if not cands:
        return []
    parents = {}
    for p in ast.walk(tree):
        for c in ast.iter_child_nodes(p):
            parents[c] = p
    uses = {k: [] for k in cands}
    for n in ast.walk(tree):
        if isinstance(n, (ast.Global, ast.Nonlocal)):
            for nm in n.names:
                cands.pop(nm, None)
        elif isinstance(n, ast.arg) and n.arg in cands:
            cands.pop(n.arg, None)
        elif isinstance(n, ast.Constant) and isinstance(n.value, str) and n.value in cands:
            cands.pop(n.value, None)        # named in __all__ / getattr
        elif isinstance(n, ast.Name) and n.id in cands:
            st = cands[n.id]
            if n is st.targets[0]:
                continue
            if not isinstance(n.ctx, ast.Load):
                cands.pop(n.id, None)
                continue
            immutable = isinstance(st.value, (ast.Constant, ast.UnaryOp)) or (
                isinstance(st.value, ast.Tuple) and all(isinstance(x, (ast.Constant, ast.UnaryOp)) for x in st.value.elts))
            p = parents.get(n)
            ok = immutable
            if not ok and isinstance(p, ast.Attribute) and p.attr in ("get", "keys", "values", "items", "index", "count") \
                    and isinstance(parents.get(p), ast.Call) and parents[p].func is p:
                ok = True
            if not ok and isinstance(p, ast.Subscript) and p.value is n and isinstance(p.ctx, ast.Load):
                ok = True
            if not ok and isinstance(p, ast.Compare) and n in p.comparators and all(isinstance(o, (ast.In, ast.NotIn)) for o in p.ops):
                ok = True
            if not ok and isinstance(p, (ast.For, ast.comprehension)) and p.iter is n:
                ok = True
            if not ok and isinstance(p, ast.Call) and isinstance(p.func, ast.Name) and p.func.id in (
                    "len", "tuple", "sorted", "frozenset", "set", "list", "dict", "iter", "enumerate", "max", "min", "sum"):
                ok = True
            if not ok:
                cands.pop(n.id, None)
                continue
            uses.setdefault(n.id, []).append(n)
    done = []
    for name, st in cands.items():
        for n in uses.get(name, []):
            p = parents[n]
            lit = ast.parse(ast.unparse(st.value), mode="eval").body
            for fld, val in ast.iter_fields(p):
                if val is n:
                    setattr(p, fld, lit)
                elif isinstance(val, list):
                    for i, x in enumerate(val):
                        if x is n:
                            val[i] = lit
        tree.body.remove(st)
        done.append(name)
    ast.fix_missing_locations(tree)
    return done


def _generator_methods_to_closures(tree, class_methods):
    """A new private *generator* method mentioned once in its class, as ``self._m(a, b)`` with plain names for
    arguments inside a simple statement of another method, is the closure it was extracted from: ``def _m(): BODY``
    (parameters spelled as the arguments) defined just before that statement and called without arguments.  Calling a
    generator function runs nothing of its body, and the body of either reads ``self`` and the arguments' objects only
    when iterated.  Conditions: the arguments are not re-bound in the caller after the call, the body does not re-bind
    its parameters, and no free name of the body is a local of the caller."""
    done = []
    for cls in [c for c in tree.body if isinstance(c, ast.ClassDef)]:
        for name, meth in list(class_methods.get(cls.name, {}).items()):
            if not any(isinstance(x, (ast.Yield, ast.YieldFrom)) for x in ast.walk(meth)):
                continue
            if any(isinstance(x, FuncTypes) and x is not meth for x in ast.walk(meth)):
                continue
            a = meth.args
            if a.vararg or a.kwarg or a.kwonlyargs or a.defaults or a.posonlyargs:
                continue
            refs = [n for n in ast.walk(tree) if isinstance(n, ast.Attribute) and n.attr == name]
            strs = [n for n in ast.walk(tree) if isinstance(n, ast.Constant) and n.value == name]
            if len(refs) != 1 or strs:
                continue
            host = None
            for m2 in cls.body:
                if isinstance(m2, FuncTypes) and m2 is not meth and any(x is refs[0] for x in ast.walk(m2)):
                    host = m2
            if host is None or not host.args.args or host.args.args[0].arg != "self":
                continue
            call = None
            for n in ast.walk(host):
                if isinstance(n, ast.Call) and n.func is refs[0]:
                    call = n
            if call is None or call.keywords or not (isinstance(refs[0].value, ast.Name) and refs[0].value.id == "self") \
                    or len(call.args) != len(a.args) - 1 or not all(isinstance(x, ast.Name) for x in call.args):
                continue
            params = [x.arg for x in a.args]
            if params[0] != "self":
                continue
            mapping = dict(zip(params[1:], [x.id for x in call.args]))
            body_stores = {n.id for n in ast.walk(meth) if isinstance(n, ast.Name) and isinstance(n.ctx, (ast.Store, ast.Del))}
            if body_stores & (set(params) | set(mapping.values())):
                continue
            # the statement of the host that holds the call: a simple statement of its top-level body
            site = None
            for i, st in enumerate(host.body):
                if any(x is call for x in ast.walk(st)):
                    site = i
            if site is None or isinstance(host.body[site], (ast.For, ast.While, ast.If, ast.Try, ast.With) + FuncTypes):
                continue
            if any(any(x is call for x in ast.walk(n)) for n in ast.walk(host.body[site])
                   if isinstance(n, (ast.Lambda, ast.GeneratorExp, ast.ListComp, ast.SetComp, ast.DictComp))):
                continue
            later_stores = {n.id for s2 in host.body[site:] for n in ast.walk(s2)
                            if isinstance(n, ast.Name) and isinstance(n.ctx, (ast.Store, ast.Del))}
            if later_stores & (set(mapping.values()) | {"self"}):
                continue
            host_bound = {n.id for n in ast.walk(host) if isinstance(n, ast.Name) and isinstance(n.ctx, (ast.Store, ast.Del))} \
                | {x.arg for x in host.args.args + host.args.kwonlyargs} \
                | {n.name for n in ast.walk(host) if isinstance(n, FuncTypes) and n is not host}
            free = {n.id for n in ast.walk(meth) if isinstance(n, ast.Name) and isinstance(n.ctx, ast.Load)} - body_stores - set(params)
            if free & host_bound or name in host_bound:
                continue
            body = [copy.deepcopy(x) for x in docstring_free(meth.body)]
            for b_ in body:
                for n in ast.walk(b_):
                    if isinstance(n, ast.Name) and n.id in mapping:
                        n.id = mapping[n.id]
            local = ast.FunctionDef(name=name, args=ast.arguments(posonlyargs=[], args=[], vararg=None, kwonlyargs=[],
                                                                  kw_defaults=[], kwarg=None, defaults=[]),
                                    body=body, decorator_list=[], returns=None, type_comment=None,
                                    lineno=host.body[site].lineno, col_offset=host.body[site].col_offset)
            try:
                local.type_params = []
            except Exception:
                pass
            call.func = ast.Name(id=name, ctx=ast.Load())
            call.args = []
            host.body.insert(site, local)
            ast.fix_missing_locations(host)
            done.append(name)
    return done


def inline_new_helpers(tree, ref_tree, hier=None):
    """Inline, inside ``tree``, private helpers that ``ref_tree`` does not define.  Returns the names inlined."""
    ref_top = {s.name for s in ref_tree.body if isinstance(s, FuncTypes)}
    ref_methods = {}
    ref_nested = {}
    for s in ref_tree.body:
        if isinstance(s, ast.ClassDef):
            ref_methods[s.name] = {m.name for m in s.body if isinstance(m, FuncTypes)}
    helpers = {s.name: s for s in tree.body if isinstance(s, FuncTypes) and _private(s.name) and s.name not in ref_top
               and not s.decorator_list}
    class_methods = {}
    class_statics = {}
    for s in tree.body:
        if isinstance(s, ast.ClassDef):
            class_methods[s.name] = {m.name: m for m in s.body if isinstance(m, FuncTypes) and _private(m.name)
                                     and m.name not in ref_methods.get(s.name, set()) and not m.decorator_list
                                     and m.args.args and m.args.args[0].arg == "self"}
            class_statics[s.name] = {m.name: m for m in s.body if isinstance(m, FuncTypes) and _private(m.name)
                                     and m.name not in ref_methods.get(s.name, set()) and len(m.decorator_list) == 1
                                     and isinstance(m.decorator_list[0], ast.Name) and m.decorator_list[0].id == "staticmethod"}
    done = []
    done.extend(_inline_new_constants(tree, ref_tree))

    def ref_closures(qual):
        # names of functions nested in the reference's function(s) of that qualified name (strategies share names)
        nodes = [ref_tree]
        for part in qual:
            nxt = []
            for node in nodes:
                body = getattr(node, "body", [])
                stack = list(body)
                while stack:
                    s_ = stack.pop()
                    if isinstance(s_, FuncTypes + (ast.ClassDef,)):
                        if s_.name == part:
                            nxt.append(s_)
                        continue
                    for fld in ("body", "orelse", "finalbody"):
                        stack.extend(getattr(s_, fld, []) or [])
                    for h in getattr(s_, "handlers", []) or []:
                        stack.extend(h.body)
            nodes = nxt
            if not nodes:
                return set()
        out = set()
        for node in nodes:
            out |= {s_.name for s_ in ast.walk(node) if isinstance(s_, FuncTypes) and s_ is not node}
        return out

    def visit(body, qual, cls):
        for s in body:
            if isinstance(s, ast.ClassDef):
                visit(s.body, qual + [s.name], s.name)
            elif isinstance(s, FuncTypes):
                if s.name in helpers and not qual:
                    continue
                meths = {}
                if cls is not None:
                    for b in (hier or {}).get(cls, ()):
                        meths.update(class_methods.get(b, {}))
                    meths.update(class_methods.get(cls, {}))
                    meths = {k: v for k, v in meths.items() if v is not s}
                inl = Inliner(helpers, meths)
                if cls is not None:
                    inl.class_names = tuple([cls] + list((hier or {}).get(cls, ())))
                    st_ = {}
                    for b in (hier or {}).get(cls, ()):
                        st_.update(class_statics.get(b, {}))
                    st_.update(class_statics.get(cls, {}))
                    inl.statics = {k: v for k, v in st_.items() if v is not s}
                known = ref_closures(qual + [s.name])
                run_inliner(inl, s, known)
                done.extend(inl.done)
            elif isinstance(s, (ast.If, ast.Try)):
                for fld in ("body", "orelse", "finalbody"):
                    visit(getattr(s, fld, []) or [], qual, cls)

    # helpers may call helpers: inline inside the helpers first
    for _ in range(3):
        for h in list(helpers.values()) + [m for ms in class_methods.values() for m in ms.values()]:
            others = {k: v for k, v in helpers.items() if v is not h}
            inl = Inliner(others, {})
            run_inliner(inl, h, set())
    visit(tree.body, [], None)
    done.extend(_generator_methods_to_closures(tree, class_methods))
    # drop helpers that nothing references any more
    removed = []
    for _ in range(4):
        again = False
        for container in [tree.body] + [s.body for s in tree.body if isinstance(s, ast.ClassDef)]:
            for i, s in enumerate(list(container)):
                if isinstance(s, FuncTypes) and (s.name in helpers and helpers[s.name] is s or any(
                        s is m for ms in list(class_methods.values()) + list(class_statics.values()) for m in ms.values())):
                    uses = 0
                    for n in ast.walk(tree):
                        if isinstance(n, ast.Name) and n.id == s.name and isinstance(n.ctx, ast.Load):
                            uses += 1
                        elif isinstance(n, ast.Attribute) and n.attr == s.name:
                            uses += 1
                        elif isinstance(n, ast.Constant) and n.value == s.name:
                            uses += 1
                    if uses == 0:
                        container.remove(s)
                        removed.append(s.name)
                        again = True
        if not again:
            break
    return sorted(set(done)), removed


# --------------------------------------------------------------------------- copy clean-up
def _occ(node, name, ctxs=None):
    return [n for n in ast.walk(node) if isinstance(n, ast.Name) and n.id == name and (ctxs is None or isinstance(n.ctx, ctxs))]


def _blocks_of(fn):
    """every statement list of the function (nested functions excluded)"""
    out = [fn.body]
    stack = list(fn.body)
    while stack:
        st = stack.pop()
        if isinstance(st, FuncTypes + (ast.ClassDef,)):
            continue
        for fld in ("body", "orelse", "finalbody"):
            blk = getattr(st, fld, None)
            if isinstance(blk, list) and blk and isinstance(blk[0], ast.stmt):
                out.append(blk)
                stack.extend(blk)
        for h in getattr(st, "handlers", []) or []:
            out.append(h.body)
            stack.extend(h.body)
    return out


def _captured(fn, name):
    for n in ast.walk(fn):
        if n is not fn and isinstance(n, FuncTypes + (ast.Lambda, ast.GeneratorExp)):
            occ = _occ(n, name)
            if isinstance(n, ast.GeneratorExp):
                # the first iterable of a generator expression is evaluated on the spot, in the enclosing scope
                first = {id(x) for x in ast.walk(n.generators[0].iter)}
                inner = [x for g in ast.walk(n.generators[0].iter) if isinstance(g, (ast.Lambda, ast.GeneratorExp)) for x in ast.walk(g)]
                occ = [x for x in occ if id(x) not in first or any(x is y for y in inner)]
            if occ:
                return True
    return False


def _pos(n):
    return (getattr(n, "lineno", 0), getattr(n, "col_offset", 0))


def _in_loop(fn, st):
    for n in ast.walk(fn):
        if isinstance(n, (ast.For, ast.While)) and any(x is st for x in ast.walk(n)):
            return True
    return False


def _stmt_order(fn):
    """pre-order index of every node of the function (textual order)"""
    order = {}
    k = [0]

    def walk(n):
        order[id(n)] = k[0]
        k[0] += 1
        for ch in ast.iter_child_nodes(n):
            walk(ch)
    walk(fn)
    return order


def _order_ok(fn, st, a, b):
    order = _stmt_order(fn)
    here = order[id(st)]
    end = max(order[id(x)] for x in ast.walk(st))
    for n in _occ(fn, b):
        if order[id(n)] > end:
            return False
    for n in _occ(fn, a):
        if order[id(n)] < here:
            return False
    return True


def _backward_nested(fn, blk, i, a, b, bdef):
    """the copy blk[i] (a = b) sits inside ifs hanging off a later statement of the block P that binds b; every other
    arm of those ifs leaves; b occurs only between its binding and the copy; a does not occur there"""
    for P in _blocks_of(fn):
        for p_idx, sp in enumerate(P):
            if isinstance(sp, ast.Assign) and any(t is bdef for t in sp.targets):
                for q in range(p_idx + 1, len(P)):
                    sq = P[q]
                    if not isinstance(sq, ast.If) or not any(x is blk[i] for x in ast.walk(sq)):
                        continue
                    # chain of ifs down to blk
                    node = sq
                    ok = True
                    while True:
                        if any(x is blk[i] for s_ in node.body for x in ast.walk(s_)):
                            arm, other = node.body, node.orelse
                        else:
                            arm, other = node.orelse, node.body
                        if not _always_leaves(other):
                            ok = False
                            break
                        if arm is blk:
                            break
                        nxt = [s_ for s_ in arm if isinstance(s_, ast.If) and any(x is blk[i] for x in ast.walk(s_))]
                        if len(nxt) != 1 or arm[-1] is not nxt[0]:
                            ok = False
                            break
                        node = nxt[0]
                    if not ok:
                        return False
                    region = P[p_idx:q + 1]
                    if sum(len(_occ(s_, b)) for s_ in region) != len(_occ(fn, b)):
                        return False
                    order = _stmt_order(fn)
                    copy_pos = order[id(blk[i])]
                    if any(order[id(n)] < copy_pos for s_ in region for n in _occ(s_, a)):
                        return False
                    if any(order[id(n)] > copy_pos for n in _occ(fn, b) if n is not blk[i].value):
                        return False
                    for s_ in region:
                        for n in _occ(s_, b):
                            n.id = a
                    del blk[i]
                    return True
    return False


def cleanup_copies(fn, only=None):
    """Remove plain copies ``a = b`` between local names where that cannot change behaviour:

    (1) round trip: ``a = b`` ... ``b = a`` in one block, b untouched in between, a living only inside that range:
        a is b.
    (2) forward: ``a = b`` is a's only binding, all of a's occurrences follow in the same block and b is not re-bound
        before the last of them: a is b.
    ``only``: predicate on the name a (e.g. temporaries made by the inliner)."""
    changed_any = False
    # ``if c: <raise / return> else: a = b``  (what in-lining a helper that ends in ``return b`` after a guard leaves behind):
    # the copy follows the ``if``
    for blk in _blocks_of(fn):
        i = 0
        while i < len(blk):
            st = blk[i]
            if isinstance(st, ast.If) and st.body and isinstance(st.body[-1], (ast.Raise, ast.Return)) and st.orelse \
                    and all(isinstance(x, ast.Assign) and len(x.targets) == 1 and isinstance(x.targets[0], ast.Name)
                            and isinstance(x.value, ast.Name) and ("__in" in x.value.id or "__in" in x.targets[0].id)
                            for x in st.orelse):
                moved = list(st.orelse)
                st.orelse = []
                blk[i + 1:i + 1] = moved
                changed_any = True
            i += 1
    for _ in range(10):
        changed = False
        for blk in _blocks_of(fn):
            for i, st in enumerate(blk):
                if not (isinstance(st, ast.Assign) and len(st.targets) == 1 and isinstance(st.targets[0], ast.Name)
                        and isinstance(st.value, ast.Name) and st.value.id != st.targets[0].id):
                    continue
                a, b = st.targets[0].id, st.value.id
                if only is not None and not (only(a) or only(b)):
                    continue
                if _captured(fn, a):
                    continue
                if _captured(fn, b):
                    # closures over b are harmless to the round trip when they are all created after it is closed
                    rt = None
                    for j in range(i + 1, len(blk)):
                        sj = blk[j]
                        if isinstance(sj, ast.Assign) and len(sj.targets) == 1 and isinstance(sj.targets[0], ast.Name) \
                                and sj.targets[0].id == b and isinstance(sj.value, ast.Name) and sj.value.id == a:
                            rt = j
                            break
                    if rt is None:
                        continue
                    inside_caps = False
                    for s_ in blk[:rt + 1]:
                        for n in ast.walk(s_):
                            if isinstance(n, FuncTypes + (ast.Lambda, ast.GeneratorExp)) and _occ(n, b):
                                inside_caps = True
                    outer_caps = any(isinstance(n, FuncTypes + (ast.Lambda, ast.GeneratorExp)) and _occ(n, b)
                                     for n in ast.walk(fn) if n is not fn
                                     and not any(n is x for s_ in blk[rt + 1:] for x in ast.walk(s_)))
                    if inside_caps or outer_caps:
                        continue
                    if sum(len(_occ(s, a)) for s in blk[i:rt + 1]) != len(_occ(fn, a)) or sum(len(_occ(s, b)) for s in blk[i + 1:rt]):
                        continue
                    for s in blk[i + 1:rt]:
                        for n in _occ(s, a):
                            n.id = b
                    del blk[rt]
                    del blk[i]
                    changed = True
                    break
                # a free variable of this function (b is bound in an enclosing scope) must not become a local of it:
                # only a name bound by this very copy may be replaced by it
                own = {n.id for n in ast.walk(fn) if isinstance(n, ast.Name) and isinstance(n.ctx, (ast.Store, ast.Del))} \
                    | {x.arg for x in ast.walk(fn.args) if isinstance(x, ast.arg)}
                if (b not in own and len(_occ(fn, a, (ast.Store, ast.Del))) != 1) or a not in own:
                    continue
                total_a = len(_occ(fn, a))
                # (1) round trip
                for j in range(i + 1, len(blk)):
                    sj = blk[j]
                    if isinstance(sj, ast.Assign) and len(sj.targets) == 1 and isinstance(sj.targets[0], ast.Name) \
                            and sj.targets[0].id == b and isinstance(sj.value, ast.Name) and sj.value.id == a:
                        inside = sum(len(_occ(s, a)) for s in blk[i:j + 1])
                        b_between = sum(len(_occ(s, b)) for s in blk[i + 1:j])
                        if inside == total_a and b_between == 0:
                            for s in blk[i + 1:j]:
                                for n in _occ(s, a):
                                    n.id = b
                            del blk[j]
                            del blk[i]
                            changed = True
                        break
                    if _occ(sj, b, (ast.Store, ast.Del)):
                        break
                if changed:
                    break
                # (3) backward: b is bound once, earlier in this block, lives only up to this copy, and a is not
                #     mentioned in between: b is a
                stores_b = _occ(fn, b, (ast.Store, ast.Del))
                if len(stores_b) == 1:
                    p_idx = None
                    for k in range(i):
                        sk = blk[k]
                        if isinstance(sk, ast.Assign) and any(t is stores_b[0] for t in sk.targets):
                            p_idx = k
                    if p_idx is not None:
                        in_range = sum(len(_occ(s_, b)) for s_ in blk[p_idx:i + 1])
                        a_between = sum(len(_occ(s_, a)) for s_ in blk[p_idx:i])
                        if in_range == len(_occ(fn, b)) and a_between == 0:
                            for s_ in blk[p_idx:i]:
                                for n in _occ(s_, b):
                                    n.id = a
                            del blk[i]
                            changed = True
                            break
                # (3'') backward, b bound several times: first by a plain assignment earlier in this block, every other
                #       occurrence of b between there and the copy (arms of ifs included), a not mentioned in between
                if len(stores_b) > 1:
                    p_idx = None
                    for k in range(i):
                        sk = blk[k]
                        if isinstance(sk, ast.Assign) and len(sk.targets) == 1 and isinstance(sk.targets[0], ast.Name) \
                                and sk.targets[0].id == b:
                            p_idx = k
                            break
                    if p_idx is not None and not any(isinstance(s_, (ast.For, ast.While)) and _occ(s_, b, (ast.Store, ast.Del))
                                                     for s_ in blk[p_idx:i]):
                        in_range = sum(len(_occ(s_, b)) for s_ in blk[p_idx:i + 1])
                        a_between = sum(len(_occ(s_, a)) for s_ in blk[p_idx:i])
                        if in_range == len(_occ(fn, b)) and a_between == 0 and not _in_loop(fn, st):
                            for s_ in blk[p_idx:i]:
                                for n in _occ(s_, b):
                                    n.id = a
                            del blk[i]
                            changed = True
                            break
                # (3') backward through ifs whose other arm leaves: b bound once in an enclosing block, dead after the copy
                if len(stores_b) == 1 and _backward_nested(fn, blk, i, a, b, stores_b[0]):
                    changed = True
                    break
                # (4) continuation: outside any loop, b never mentioned after the copy and a never before it: a is b
                if not _in_loop(fn, st) and _order_ok(fn, st, a, b):
                    for n in _occ(fn, a):
                        n.id = b
                    blk.remove(st)
                    changed = True
                    break
                # (2) forward
                stores_a = len(_occ(fn, a, (ast.Store, ast.Del)))
                here = sum(len(_occ(s, a)) for s in blk[i:])
                if stores_a == 1 and here == total_a:
                    last = i
                    for j in range(i + 1, len(blk)):
                        if _occ(blk[j], a):
                            last = j
                    if not any(_occ(s, b, (ast.Store, ast.Del)) for s in blk[i + 1:last + 1]):
                        # b must not be re-bound by an enclosing loop's later iteration before a's uses: a is re-bound
                        # from b at statement i in every iteration, so uses after i always see the current b
                        for s in blk[i + 1:last + 1]:
                            for n in _occ(s, a):
                                n.id = b
                        del blk[i]
                        changed = True
                        break
            if changed:
                break
        if not changed:
            break
        changed_any = True
    if changed_any:
        _fix_empty([fn])
    return changed_any
