"""Loop-free path enumeration with RF (rational normal form) environments.

``enumerate_paths(body, env, oracle, evaluator_factory)`` walks ``if`` /
``return`` / ``raise`` / assignments of a loop-free body.  ``oracle(test, env)``
decides a branch: returns ``True`` / ``False`` to follow one side, ``None`` to
follow both, or a list of ``(taken: bool, env_update: dict)`` alternatives (a
branch condition applied as a substitution).  Each completed path yields
``(kind, value_node, env, trail)`` with kind in {"return", "raise", "fall"}.
"""
import ast

from .core import docstring_free


class PathLimit(Exception):
    pass


def enumerate_paths(body, env, oracle, assign, limit=256):
    """assign(target_node, value_node, env) -> new env (or raises Inconclusive)."""
    out = []

    def walk(stmts, env, trail):
        if len(out) > limit:
            raise PathLimit("too many paths")
        if not stmts:
            return [(env, trail)]
        st, rest = stmts[0], stmts[1:]
        if isinstance(st, ast.Return):
            out.append(("return", st, env, trail))
            return []
        if isinstance(st, ast.Raise):
            out.append(("raise", st, env, trail))
            return []
        if isinstance(st, ast.If):
            alts = oracle(st.test, env)
            if alts is True:
                alts = [(True, {})]
            elif alts is False:
                alts = [(False, {})]
            elif alts is None:
                alts = [(True, {}), (False, {})]
            conts = []
            for taken, upd in alts:
                e2 = dict(env)
                e2.update(upd)
                branch = st.body if taken else st.orelse
                for e3, t3 in walk(list(branch), e2, trail + [(st.test, taken)]):
                    conts.extend(walk(rest, e3, t3))
            return conts
        if isinstance(st, (ast.Assign, ast.AugAssign, ast.AnnAssign)):
            env = assign(st, env)
            return walk(rest, env, trail)
        if isinstance(st, ast.Expr):
            return walk(rest, env, trail)
        if isinstance(st, (ast.Pass, ast.Assert, ast.Import, ast.ImportFrom, ast.FunctionDef)):
            if isinstance(st, ast.FunctionDef):
                env = dict(env)
                env["<def:%s>" % st.name] = st
            return walk(rest, env, trail)
        if isinstance(st, ast.Try):
            # follow the body only (handlers are exceptional paths)
            conts = []
            for e3, t3 in walk(list(st.body) + list(st.orelse), env, trail):
                conts.extend(walk(rest, e3, t3))
            return conts
        raise PathLimit("statement kind %s not supported in loop-free path enumeration" % type(st).__name__)

    for env_end, trail in walk(docstring_free(list(body)), dict(env), []):
        out.append(("fall", None, env_end, trail))
    return out
