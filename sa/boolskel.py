"""Boolean-skeleton comparison used by the eq/ne coherence rules (E7)."""
import ast

from .core import unparse, docstring_free

_NEG_CMP = {ast.Eq: ast.NotEq, ast.NotEq: ast.Eq, ast.Lt: ast.GtE, ast.GtE: ast.Lt, ast.Gt: ast.LtE,
            ast.LtE: ast.Gt, ast.Is: ast.IsNot, ast.IsNot: ast.Is, ast.In: ast.NotIn, ast.NotIn: ast.In}
# canonical polarity: the "positive" member of each pair
_POS = {ast.Eq: ("==", True), ast.NotEq: ("==", False), ast.Lt: ("<", True), ast.GtE: ("<", False),
        ast.Gt: (">", True), ast.LtE: (">", False), ast.Is: ("is", True), ast.IsNot: ("is", False),
        ast.In: ("in", True), ast.NotIn: ("in", False)}


def canon(e, neg=False):
    if isinstance(e, ast.BoolOp):
        is_and = isinstance(e.op, ast.And)
        kind = "and" if is_and != neg else "or"
        return (kind, tuple(sorted(repr(canon(v, neg)) for v in e.values)))
    if isinstance(e, ast.UnaryOp) and isinstance(e.op, ast.Not):
        return canon(e.operand, not neg)
    if isinstance(e, ast.Compare) and len(e.ops) == 1:
        name, pol = _POS[type(e.ops[0])]
        l, r = unparse(e.left), unparse(e.comparators[0])
        if name in ("==", "is"):
            l, r = sorted((l, r))
        return ("atom", name, l, r, pol != neg)
    if isinstance(e, ast.Call) and isinstance(e.func, ast.Attribute) and e.func.attr in ("__eq__", "__ne__"):
        pol = e.func.attr == "__eq__"
        return ("atom", "call-eq", unparse(e.func.value), tuple(unparse(a) for a in e.args), pol != neg)
    if isinstance(e, ast.Constant) and isinstance(e.value, bool):
        return ("const", e.value != neg)
    return ("atom", "expr", unparse(e), None, not neg)


def is_complement(e1, e2):
    return canon(e1) == canon(e2, True)


def is_not_eq_call(e):
    """``not (self == other)`` / ``not self == other`` / ``not self.__eq__(other)``"""
    if isinstance(e, ast.UnaryOp) and isinstance(e.op, ast.Not):
        v = e.operand
        if isinstance(v, ast.Compare) and len(v.ops) == 1 and isinstance(v.ops[0], ast.Eq) \
                and {unparse(v.left), unparse(v.comparators[0])} == {"self", "other"}:
            return True
        if isinstance(v, ast.Call) and unparse(v.func) == "self.__eq__" and [unparse(a) for a in v.args] == ["other"]:
            return True
    return False


def guarded_returns(func):
    """[(guard-text or None, return-expr)] for bodies of the shape
    ``if G: return E`` ... ``return E``; None when the shape differs."""
    out = []
    for st in docstring_free(func.body):
        if isinstance(st, ast.If) and not st.orelse and len(st.body) == 1 and isinstance(st.body[0], ast.Return):
            out.append((unparse(st.test), st.body[0].value))
        elif isinstance(st, ast.If) and len(st.body) == 1 and isinstance(st.body[0], ast.Return) \
                and len(st.orelse) == 1 and isinstance(st.orelse[0], ast.Return):
            out.append((unparse(st.test), st.body[0].value))
            out.append((None, st.orelse[0].value))
            return out
        elif isinstance(st, ast.Return):
            out.append((None, st.value))
            return out
        else:
            return None
    return out
