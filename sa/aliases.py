"""E17  Stable local aliases written back.

A maintainer's tidy-up often binds something that cannot change to a local before it is used (several times):
``add_term = data_sum.append``, ``playing = self._playing``, ``inv_z = 1 / z``, ``prefix = "ola_"``,
``delay = z ** -m`` inside the loop over ``m``.  The rules read the functions of the confirmed tree, where these are
written in place; this pass writes such a local back where it is used and drops the binding - only when the value is
*stable* between the binding and every use:

* the local is bound exactly once in its function, by a plain assignment, and every use comes after it inside the
  block that holds the binding;
* the value is a chain of attribute reads from ``self`` / a parameter / a module-level name / a local whose own
  bindings all come before (a bound method is such a chain) and no attribute of that chain is re-bound anywhere in the
  package outside ``__init__`` / ``__new__`` (for ``self.x``: in the class of the method or a class related to it by
  inheritance; otherwise: in any class) - mutation in place does not matter, the alias is the same object;
* or the value is arithmetic over literals, module-level constants (``z``, ``pi`` ...), ``len`` / ``sqrt`` of a
  literal and the variables of enclosing ``range`` loops (numbers: evaluating twice gives the same number);
* or it is arithmetic over any names and the local is used exactly once (nothing is evaluated twice);
* or a lambda that reads no local of the function.

Nothing is executed.  A stale alias (the attribute is re-bound somewhere, a name of the expression is re-bound after the
binding) is left as written, so that a rule that meets it reports what it sees.
"""
import ast
import copy

FuncTypes = (ast.FunctionDef, ast.AsyncFunctionDef)
INIT_LIKE = ("__init__", "__new__")
MODULE_NUMBERS = {"z", "pi", "e", "inf", "nan"}
PURE_OF_LITERAL = {"len", "sqrt", "abs", "float", "int"}


CONTAINER_METHODS = {"append", "extend", "insert", "pop", "popleft", "appendleft", "remove", "clear", "index", "count",
                     "get", "setdefault", "update", "items", "keys", "values", "add", "discard", "byteswap", "pack",
                     "unpack", "write", "read", "readframes", "join", "format", "startswith", "endswith", "copy", "sort",
                     "reverse", "rotate", "tobytes", "tostring", "frombytes"}


class _Names(set):
    """names defined by ``def`` in the classes of the package; ``.by_class``: the same, per class"""
    by_class = None


def method_names(trees):
    """names defined by ``def`` directly in a class body of the package"""
    out = _Names()
    out.by_class = {}
    for t in trees:
        for c in [n for n in ast.walk(t) if isinstance(n, ast.ClassDef)]:
            for m in c.body:
                if isinstance(m, FuncTypes):
                    out.add(m.name)
                    out.by_class.setdefault(c.name, set()).add(m.name)
    return out


_FRESH = {}


def _fresh_objects(fn, cls):
    """locals of fn bound (only) to a newly created instance: ``self = cls()``, ``obj = Klass(..)`` of the enclosing
    class, ``x = object.__new__(cls)``"""
    key = id(fn)
    if key in _FRESH and _FRESH[key][0] is fn:
        return _FRESH[key][1]
    binds = {}
    for n in ast.walk(fn):
        if isinstance(n, ast.Assign) and len(n.targets) == 1 and isinstance(n.targets[0], ast.Name):
            v = n.value
            fresh = isinstance(v, ast.Call) and ((isinstance(v.func, ast.Name) and v.func.id in ("cls", cls or "")) or (
                isinstance(v.func, ast.Attribute) and v.func.attr == "__new__"))
            binds.setdefault(n.targets[0].id, []).append(fresh)
    out = {k for k, v in binds.items() if v and all(v)}
    _FRESH[key] = (fn, out)
    return out


def rebinding_sites(trees):
    """({attr: set(class names where ``self.attr`` is re-bound outside __init__)}, set(attr re-bound through another
    receiver or outside any method))"""
    by_class, anywhere = {}, set()

    def scan(node, cls, fn):
        for ch in ast.iter_child_nodes(node):
            if isinstance(ch, ast.ClassDef):
                scan(ch, ch.name, None)
                continue
            if isinstance(ch, FuncTypes):
                scan(ch, cls, ch if fn is None else fn)
                continue
            targets = []
            if isinstance(ch, ast.Assign):
                targets = ch.targets
            elif isinstance(ch, (ast.AugAssign, ast.AnnAssign)):
                targets = [ch.target]
            elif isinstance(ch, ast.Delete):
                targets = ch.targets
            elif isinstance(ch, (ast.For, ast.AsyncFor)):
                targets = [ch.target]
            elif isinstance(ch, (ast.With, ast.AsyncWith)):
                targets = [i.optional_vars for i in ch.items if i.optional_vars is not None]
            for t in targets:
                for n in ast.walk(t):
                    if isinstance(n, ast.Attribute) and isinstance(n.ctx, (ast.Store, ast.Del)):
                        in_init = fn is not None and fn.name in INIT_LIKE
                        if fn is not None and isinstance(n.value, ast.Name) and n.value.id in _fresh_objects(fn, cls):
                            continue        # an object this function has just created: still its construction
                        if isinstance(n.value, ast.Name) and n.value.id == "self" and cls is not None and fn is not None:
                            if not in_init:
                                by_class.setdefault(n.attr, set()).add(cls)
                        elif fn is None:
                            pass        # module / class level: runs once, when the module is imported
                        elif not (in_init and isinstance(n.value, ast.Name) and n.value.id in ("self", "cls")):
                            anywhere.add(n.attr)
            if isinstance(ch, ast.Call) and isinstance(ch.func, ast.Name) and ch.func.id in ("setattr", "delattr") \
                    and len(ch.args) >= 2 and isinstance(ch.args[1], ast.Constant) and isinstance(ch.args[1].value, str):
                anywhere.add(ch.args[1].value)
            scan(ch, cls, fn)
    for t in trees:
        scan(t, None, None)
    return by_class, anywhere


def _own_nodes(fn):
    stack = list(fn.body)
    while stack:
        n = stack.pop()
        yield n
        if isinstance(n, FuncTypes + (ast.ClassDef,)):
            continue            # its name is bound here, its body is another scope
        for ch in ast.iter_child_nodes(n):
            if isinstance(ch, ast.Lambda):
                continue
            stack.append(ch)


def _pos(n):
    return (getattr(n, "lineno", 0), getattr(n, "col_offset", 0))


def _clone(e):
    """a fresh copy of an expression (nodes may carry parent links: a deep copy would drag the whole module along)"""
    return ast.parse(ast.unparse(e), mode="eval").body


class _Subst(ast.NodeTransformer):
    def __init__(self, name, value):
        self.name, self.value, self.count = name, value, 0

    def visit_Name(self, n):
        if n.id == self.name and isinstance(n.ctx, ast.Load):
            self.count += 1
            return ast.copy_location(_clone(self.value), n)
        return n


def _suspended_before_use(stmts, v):
    """can a ``yield`` / ``await`` run between the start of ``stmts`` and a read of ``v`` in them (loops taken twice)?"""
    SUSP = (ast.Yield, ast.YieldFrom, ast.Await)
    bad = [False]

    def expr(e, yielded):
        if e is None:
            return yielded
        nodes = list(ast.walk(e))
        if yielded and any(isinstance(n, ast.Name) and n.id == v and isinstance(n.ctx, ast.Load) for n in nodes):
            bad[0] = True
        return yielded or any(isinstance(n, SUSP) for n in nodes)

    DEAD = None      # a path that has left the function: it reaches no later use

    def join(*ys):
        live = [y for y in ys if y is not DEAD]
        return DEAD if not live else any(live)

    def block(body, yielded):
        for st in body:
            if yielded is DEAD:
                return DEAD
            if isinstance(st, (ast.Return, ast.Raise)):
                expr(getattr(st, "value", None) or getattr(st, "exc", None), yielded)
                return DEAD
            if isinstance(st, FuncTypes + (ast.ClassDef,)):
                if any(isinstance(n, ast.Name) and n.id == v for n in ast.walk(st)):
                    bad[0] = True       # read from a nested scope: whenever that runs
                continue
            if isinstance(st, ast.If):
                y0 = expr(st.test, yielded)
                yielded = join(block(st.body, y0), block(st.orelse, y0))
            elif isinstance(st, (ast.For, ast.AsyncFor, ast.While)):
                y0 = expr(st.iter if hasattr(st, "iter") else st.test, yielded)
                y1 = block(st.body, y0)
                y1 = y0 if y1 is DEAD else y1
                if hasattr(st, "test"):
                    y1 = expr(st.test, y1)
                y2 = block(st.body, y1)             # second iteration: what the first one left
                y2 = y1 if y2 is DEAD else y2
                yo = block(st.orelse, bool(y0) or bool(y2))
                yielded = bool(y0) or bool(y2) or bool(yo)
            elif isinstance(st, (ast.With, ast.AsyncWith)):
                for it_ in st.items:
                    yielded = expr(it_.context_expr, yielded)
                yielded = block(st.body, yielded)
            elif isinstance(st, ast.Try):
                y1 = block(st.body, yielded)
                y1b = bool(yielded) if y1 is DEAD else bool(y1)
                ys = [block(h.body, bool(yielded) or y1b) for h in st.handlers]
                y2 = block(st.orelse, y1b) if y1 is not DEAD else DEAD
                allv = [y1, y2] + ys
                fin = bool(yielded) or any(bool(y) for y in allv if y is not DEAD)
                yf = block(st.finalbody, fin) if st.finalbody else fin
                yielded = DEAD if all(y is DEAD for y in [y1 if y2 is DEAD else y2] + ys) and (y1 is DEAD) else (
                    DEAD if yf is DEAD else (bool(yf) or fin))
            else:
                yielded = expr(st, yielded)
        return yielded
    block(stmts, False)
    return bad[0]


def write_back(tree, related_classes, sites, only=None, keep=(), methods=()):
    """rewrite the functions of ``tree`` in place (``only``: restrict to these function nodes and what is nested in
    them); returns the list of 'function: local' written back.
    ``related_classes(cls)``: the classes tied to cls by inheritance (itself included); ``keep``: texts of bindings
    that stay as they are (the confirmed tree writes them too)"""
    by_class, anywhere = sites
    keep_by_func = keep if isinstance(keep, dict) else None
    keep = set() if keep_by_func is not None else set(keep)
    package_defs = set(methods)
    defs_by_class = getattr(methods, "by_class", None) or {}
    methods = set(methods) | CONTAINER_METHODS
    done = []
    module_names = set()
    for st in tree.body:
        for n in ast.walk(st) if isinstance(st, (ast.Assign, ast.Import, ast.ImportFrom)) else []:
            if isinstance(n, ast.Name) and isinstance(n.ctx, ast.Store):
                module_names.add(n.id)
            elif isinstance(n, ast.alias):
                module_names.add((n.asname or n.name).split(".")[0])

    top_name = [None]

    def visit(node, cls, active, top=None):
        for ch in ast.iter_child_nodes(node):
            if isinstance(ch, ast.ClassDef):
                visit(ch, ch.name, active, top)
            elif isinstance(ch, FuncTypes):
                act = active or only is None or any(ch is o for o in only)
                top_name[0] = top or ch.name
                for _ in range(12 if act else 0):
                    got = _one(ch, cls)
                    if not got:
                        break
                    done.append("%s: %s" % (ch.name, got))
                visit(ch, cls, act, top or ch.name)
            else:
                visit(ch, cls, active, top)

    def _one(fn, cls):
        nonlocal keep
        if keep_by_func is not None:
            # what the confirmed unit of the same name (with everything nested in it) binds
            keep = keep_by_func.get(top_name[0], set()) | keep_by_func.get(fn.name, set())
        if any(isinstance(n, (ast.Global, ast.Nonlocal)) for n in ast.walk(fn)):
            return None
        params = {a.arg for a in fn.args.args + fn.args.kwonlyargs + fn.args.posonlyargs}
        for a in (fn.args.vararg, fn.args.kwarg):
            if a is not None:
                params.add(a.arg)
        stores = {}
        for n in _own_nodes(fn):
            if isinstance(n, ast.Name) and isinstance(n.ctx, (ast.Store, ast.Del)):
                stores.setdefault(n.id, []).append(n)
            elif isinstance(n, FuncTypes + (ast.ClassDef,)):
                stores.setdefault(n.name, []).append(n)
            elif isinstance(n, ast.alias):
                stores.setdefault((n.asname or n.name).split(".")[0], []).append(n)
            elif isinstance(n, ast.ExceptHandler) and n.name:
                stores.setdefault(n.name, []).append(n)
        range_vars = {}
        for n in _own_nodes(fn):
            if isinstance(n, ast.For) and isinstance(n.target, ast.Name) and isinstance(n.iter, ast.Call) \
                    and isinstance(n.iter.func, ast.Name) and n.iter.func.id in ("range", "xrange"):
                range_vars[n.target.id] = n

        def attr_stable(root_cls, attr):
            if attr in anywhere:
                return False
            where = by_class.get(attr, set())
            if not where:
                return True
            if root_cls is not None:
                return not (where & related_classes(root_cls))
            return False

        public = [False]
        computed = [False]

        def classify(e, locals_used, numeric):
            """True when e is of an accepted form; fills locals_used; numeric[0] stays True while every leaf is a number"""
            if isinstance(e, ast.Constant):
                if not isinstance(e.value, (int, float, str, bytes, complex)) and e.value is not None:
                    numeric[0] = False
                return True
            if isinstance(e, ast.Name) and isinstance(e.ctx, ast.Load):
                if e.id in stores or e.id in params:
                    locals_used.add(e.id)
                    if e.id not in range_vars:
                        numeric[0] = False
                elif e.id not in MODULE_NUMBERS:
                    numeric[0] = False
                return True
            if isinstance(e, ast.Attribute) and isinstance(e.ctx, ast.Load):
                numeric[0] = False
                root = e
                while isinstance(root, ast.Attribute):
                    root = root.value
                if not isinstance(root, ast.Name):
                    return False
                root_cls = cls if (root.id == "self" and "self" in params) else None
                if root.id in typed and _pos(typed[root.id][1]) < _pos(e):
                    root_cls = typed[root.id][0]
                g_ = guarded.get(id(current_stmt[0]), {}) if current_stmt[0] is not None else {}
                if root.id in g_ and len(stores.get(root.id, [])) == 0:
                    root_cls = g_[root.id]
                cur = e
                while isinstance(cur, ast.Attribute):
                    # only the attribute read directly from an object of known class is judged per class
                    direct = isinstance(cur.value, ast.Name)
                    if not attr_stable(root_cls if direct else None, cur.attr):
                        return False
                    if not cur.attr.startswith("_") and cur.attr not in methods:
                        # a public data attribute: callers may assign it whenever this frame is suspended
                        public[0] = True
                    known_cls = root_cls if direct else None
                    in_defs = cur.attr in package_defs if known_cls is None or not defs_by_class else any(
                        cur.attr in defs_by_class.get(c_, ()) for c_ in related_classes(known_cls))
                    if in_defs:
                        # defined by `def` in a class of the package: a method - or a property, whose value is computed
                        # at each access (judged by how the local is used, below)
                        computed[0] = True
                    cur = cur.value
                return classify(root, locals_used, [True])
            if isinstance(e, ast.BinOp) and isinstance(e.op, (ast.Add, ast.Sub, ast.Mult, ast.Div, ast.Pow, ast.FloorDiv, ast.Mod)):
                return classify(e.left, locals_used, numeric) and classify(e.right, locals_used, numeric)
            if isinstance(e, ast.UnaryOp) and isinstance(e.op, (ast.USub, ast.UAdd)):
                return classify(e.operand, locals_used, numeric)
            if isinstance(e, ast.Call) and isinstance(e.func, ast.Name) and e.func.id in PURE_OF_LITERAL and not e.keywords \
                    and e.func.id not in stores and e.func.id not in params \
                    and len(e.args) == 1 and isinstance(e.args[0], ast.Constant):
                return True
            if isinstance(e, (ast.Dict, ast.Tuple)) and not isinstance(getattr(e, "ctx", ast.Load()), ast.Store):
                # a table of stable things, looked up only (see the use test below)
                parts = [x for x in (list(e.keys) + list(e.values) if isinstance(e, ast.Dict) else e.elts)]
                if any(x is None or isinstance(x, ast.Starred) for x in parts):
                    return False
                numeric[0] = False
                ok_ = all(classify(x, locals_used, [True]) for x in parts)
                computed[0] = False         # (methods kept in a table are references, not computed values)
                return ok_
            if isinstance(e, ast.Lambda):
                own = {a.arg for a in e.args.args + e.args.kwonlyargs}
                if e.args.vararg or e.args.kwarg or e.args.defaults or e.args.kw_defaults:
                    return False
                for n in ast.walk(e.body):
                    if isinstance(n, ast.Name) and n.id not in own and (n.id in stores or n.id in params):
                        locals_used.add(n.id)       # read when called: must not be re-bound after the binding
                    if isinstance(n, (ast.Lambda, ast.Yield, ast.YieldFrom, ast.NamedExpr)):
                        return False
                numeric[0] = False
                return True
            return False

        def blocks(node):
            for f in ("body", "orelse", "finalbody"):
                b = getattr(node, f, None)
                if isinstance(b, list) and b and isinstance(b[0], ast.stmt):
                    yield b
            for h in getattr(node, "handlers", []) or []:
                yield h.body

        # a, b = X, Y with plain names on the left and nothing on the right reading them: two bindings
        for node in [fn] + [n for n in _own_nodes(fn)]:
            for blk in blocks(node):
                k = 0
                while k < len(blk):
                    st = blk[k]
                    if isinstance(st, ast.Assign) and len(st.targets) == 1 and isinstance(st.targets[0], ast.Tuple) \
                            and isinstance(st.value, ast.Tuple) and len(st.value.elts) == len(st.targets[0].elts) \
                            and all(isinstance(t, ast.Name) for t in st.targets[0].elts) \
                            and not any(isinstance(x, ast.Starred) for x in st.value.elts):
                        names = {t.id for t in st.targets[0].elts}
                        reads = {n.id for x in st.value.elts for n in ast.walk(x) if isinstance(n, ast.Name)}
                        # (both sides are evaluated left to right either way; only the moment the first name is bound
                        # differs, and nothing on the right reads it)
                        pure = not any(isinstance(n, (ast.Yield, ast.YieldFrom, ast.Await, ast.NamedExpr, ast.Lambda,
                                                      ast.ListComp, ast.GeneratorExp, ast.SetComp, ast.DictComp))
                                       for x in st.value.elts for n in ast.walk(x))
                        if not (names & reads) and len(names) == len(st.targets[0].elts) and pure:
                            blk[k:k + 1] = [ast.copy_location(ast.Assign(targets=[t], value=x), st)
                                            for t, x in zip(st.targets[0].elts, st.value.elts)]
                            k += len(names)
                            continue
                    k += 1
        # ``if not isinstance(P, C): P = C(P)``: from there on P is a C
        typed = {}
        for n in _own_nodes(fn):
            if isinstance(n, ast.If) and not n.orelse and len(n.body) == 1 and isinstance(n.test, ast.UnaryOp) \
                    and isinstance(n.test.op, ast.Not) and isinstance(n.test.operand, ast.Call) \
                    and isinstance(n.test.operand.func, ast.Name) and n.test.operand.func.id == "isinstance" \
                    and len(n.test.operand.args) == 2 and isinstance(n.test.operand.args[0], ast.Name) \
                    and isinstance(n.test.operand.args[1], ast.Name):
                P, C = n.test.operand.args[0].id, n.test.operand.args[1].id
                b = n.body[0]
                if isinstance(b, ast.Assign) and len(b.targets) == 1 and isinstance(b.targets[0], ast.Name) and b.targets[0].id == P \
                        and isinstance(b.value, ast.Call) and isinstance(b.value.func, ast.Name) and b.value.func.id == C:
                    typed[P] = (C, n)
        # inside ``if isinstance(P, C):`` P is a C
        guarded = {}
        for n in _own_nodes(fn):
            if isinstance(n, ast.If) and isinstance(n.test, ast.Call) and isinstance(n.test.func, ast.Name) \
                    and n.test.func.id == "isinstance" and len(n.test.args) == 2 and isinstance(n.test.args[0], ast.Name) \
                    and isinstance(n.test.args[1], ast.Name):
                for b in n.body:
                    for x in ast.walk(b):
                        if isinstance(x, ast.stmt):
                            guarded.setdefault(id(x), {})[n.test.args[0].id] = n.test.args[1].id
        current_stmt = [None]
        stores = {}
        for n in _own_nodes(fn):
            if isinstance(n, ast.Name) and isinstance(n.ctx, (ast.Store, ast.Del)):
                stores.setdefault(n.id, []).append(n)
            elif isinstance(n, FuncTypes + (ast.ClassDef,)):
                stores.setdefault(n.name, []).append(n)
            elif isinstance(n, ast.alias):
                stores.setdefault((n.asname or n.name).split(".")[0], []).append(n)
            elif isinstance(n, ast.ExceptHandler) and n.name:
                stores.setdefault(n.name, []).append(n)
        todo = [fn]
        while todo:
            node = todo.pop()
            for blk in blocks(node):
                for i, st in enumerate(blk):
                    if not isinstance(st, FuncTypes + (ast.ClassDef,)):
                        todo.append(st)
                    if isinstance(st, FuncTypes) and not st.decorator_list and not isinstance(st, ast.AsyncFunctionDef) \
                            and len(stores.get(st.name, [])) == 1 and ("def " + st.name) not in keep:
                        # def f(x): return E   handed on once as a value: the lambda it is
                        b_ = [x for x in st.body if not (isinstance(x, ast.Expr) and isinstance(x.value, ast.Constant))]
                        a_ = st.args
                        loads_ = [n for n in ast.walk(fn) if isinstance(n, ast.Name) and n.id == st.name and isinstance(n.ctx, ast.Load)]
                        called_ = [n for n in ast.walk(fn) if isinstance(n, ast.Call) and isinstance(n.func, ast.Name) and n.func.id == st.name]
                        simple_sig = not (a_.vararg or a_.kwarg or a_.defaults or a_.kw_defaults or a_.kwonlyargs)
                        # (a def the confirmed unit spells as a lambda of the same name keeps its full signature)
                        as_ref_lambda = ("name " + st.name) in keep
                        if len(b_) == 1 and isinstance(b_[0], ast.Return) and b_[0].value is not None \
                                and ((len(loads_) == 1 and not called_ and simple_sig) or as_ref_lambda) \
                                and not any(isinstance(n, (ast.Yield, ast.YieldFrom, ast.Await)) for n in ast.walk(st)):
                            lam = ast.Lambda(args=a_, body=b_[0].value)
                            blk[i] = ast.copy_location(ast.Assign(targets=[ast.Name(id=st.name, ctx=ast.Store())], value=lam), st)
                            ast.fix_missing_locations(blk[i])
                            stores[st.name] = [blk[i].targets[0]]
                            st = blk[i]
                    if not (isinstance(st, ast.Assign) and len(st.targets) == 1 and isinstance(st.targets[0], ast.Name)):
                        continue
                    v = st.targets[0].id
                    if v in params or len(stores.get(v, [])) != 1 or ast.unparse(st) in keep or ("name " + v) in keep:
                        continue
                    e = st.value
                    if ("value " + ast.unparse(e)) in keep:
                        # the confirmed unit keeps such a value in a local too: this is that local - unless the local
                        # is itself copied into another one (``den = denpoly``), which then plays that part
                        if not any(isinstance(n, ast.Assign) and isinstance(n.value, ast.Name) and n.value.id == v
                                   and len(n.targets) == 1 and isinstance(n.targets[0], ast.Name) for n in ast.walk(fn)):
                            continue
                    if isinstance(e, (ast.Constant, ast.Name)) and not (isinstance(e, ast.Constant) and isinstance(e.value, (str, int, float))):
                        continue            # plain copies of names are the business of the equivalence engine
                    locals_used, numeric = set(), [True]
                    public[0] = False
                    computed[0] = False
                    current_stmt[0] = st
                    if not classify(e, locals_used, numeric):
                        continue
                    reads_public = public[0]
                    maybe_property = computed[0]
                    plain_attr = isinstance(e, (ast.Attribute, ast.Lambda, ast.Constant))
                    if isinstance(e, (ast.Dict, ast.Tuple)):
                        # every use only reads it: a look-up v[...], the iterable of a loop / comprehension, `x in v`
                        reads_ = 0
                        for n in ast.walk(fn):
                            if isinstance(n, ast.Subscript) and isinstance(n.value, ast.Name) and n.value.id == v \
                                    and isinstance(n.ctx, ast.Load):
                                reads_ += 1
                            elif isinstance(n, (ast.For, ast.comprehension)) and isinstance(n.iter, ast.Name) and n.iter.id == v:
                                reads_ += 1
                            elif isinstance(n, ast.Compare) and len(n.ops) == 1 and isinstance(n.ops[0], (ast.In, ast.NotIn)) \
                                    and isinstance(n.comparators[0], ast.Name) and n.comparators[0].id == v:
                                reads_ += 1
                        nloads = sum(1 for n in ast.walk(fn) if isinstance(n, ast.Name) and n.id == v and isinstance(n.ctx, ast.Load))
                        if reads_ != nloads:
                            continue
                        plain_attr = True
                    # every use after the binding, inside the block that holds it
                    end = (getattr(st, "end_lineno", st.lineno), getattr(st, "end_col_offset", 0))
                    for par_ in ast.walk(fn):
                        for ch_ in ast.iter_child_nodes(par_):
                            if isinstance(ch_, ast.Name) and ch_.id == v:
                                ch_._al_parent = par_
                    all_loads = [n for n in ast.walk(fn) if isinstance(n, ast.Name) and n.id == v and isinstance(n.ctx, ast.Load)]
                    inside = [n for s2 in blk[i + 1:] for n in ast.walk(s2)
                              if isinstance(n, ast.Name) and n.id == v and isinstance(n.ctx, ast.Load)]
                    if not all_loads or len(inside) != len(all_loads) or any(_pos(n) < end for n in all_loads):
                        continue
                    if maybe_property and plain_attr:
                        # a bound method is only ever called; anything else read through a `def` of the package is a
                        # property value: computed once here, it must not be written out where it would be computed
                        # again (several uses, a use inside a loop) or changed through the local
                        calls_only = all(isinstance(getattr(n, "_al_parent", None), ast.Call) and n._al_parent.func is n
                                         for n in all_loads)
                        if not calls_only:
                            plain_attr = False
                            numeric[0] = False
                    if not (plain_attr or numeric[0] or len(all_loads) == 1):
                        continue
                    if reads_public and _suspended_before_use(blk[i + 1:], v):
                        continue            # the frame can be suspended between the binding and a use
                    # a name the value reads is not re-bound at or after the binding (nor in a nested scope)
                    stale = False
                    for L in locals_used:
                        if L == v:
                            stale = True
                        for s_ in stores.get(L, []):
                            if _pos(s_) >= _pos(st) and not (L in range_vars and s_ is range_vars[L].target):
                                stale = True
                        if L in range_vars and range_vars[L].target in stores.get(L, []):
                            # the variable of a range loop: the binding and its uses sit inside that loop
                            lp = range_vars[L]
                            if not any(st is x for x in ast.walk(lp)) or len(stores.get(L, [])) != 1:
                                stale = True
                        elif L not in params and not stores.get(L):
                            stale = True
                    if stale:
                        continue
                    # a single use must not be carried into a loop or a nested scope (it would be evaluated again), nor
                    # past a statement that touches what the value is computed from (it may be changed in place)
                    if not (plain_attr or numeric[0]):
                        use = all_loads[0]
                        carried = False
                        for s2 in blk[i + 1:]:
                            if any(x is use for x in ast.walk(s2)):
                                break
                            if any(isinstance(x, ast.Name) and x.id in locals_used for x in ast.walk(s2)) \
                                    or any(isinstance(x, (ast.Yield, ast.YieldFrom, ast.Await)) for x in ast.walk(s2)):
                                carried = True
                        for s2 in blk[i + 1:]:
                            for holder in ast.walk(s2):
                                if isinstance(holder, (ast.For, ast.While, ast.Lambda, ast.ListComp, ast.GeneratorExp,
                                                       ast.SetComp, ast.DictComp) + FuncTypes) \
                                        and any(x is use for x in ast.walk(holder)) \
                                        and not (isinstance(holder, (ast.For,)) and any(x is use for x in ast.walk(holder.iter))):
                                    carried = True
                        if carried:
                            continue
                    sub = _Subst(v, e)
                    for k in range(i + 1, len(blk)):
                        blk[k] = sub.visit(blk[k])
                    if sub.count != len(all_loads):
                        continue        # (cannot happen: the loads were counted in these statements)
                    del blk[i]
                    ast.fix_missing_locations(fn)
                    return v
        return None

    visit(tree, None, False)
    return done


COMPAT = {"range": "xrange", "zip": "xzip", "map": "xmap", "filter": "xfilter"}


def compat_spellings(tree, ref_tree):
    """The package's compatibility names are the lazy builtins themselves on Python 3 (``xrange is range``; that they
    are is an obligation of C01.elementwise on lazy_compat).  Where the confirmed module uses the compat name and the
    current one the builtin, the view speaks the confirmed module's language.  ``while (v := E): ...`` is written
    ``while True: v = E ; if not v: break ; ...``.  Returns the number of rewrites."""
    ref_used = {n.id for n in ast.walk(ref_tree) if isinstance(n, ast.Name)}
    bound = set()
    for n in ast.walk(tree):
        if isinstance(n, ast.Name) and isinstance(n.ctx, (ast.Store, ast.Del)):
            bound.add(n.id)
        elif isinstance(n, ast.arg):
            bound.add(n.arg)
        elif isinstance(n, FuncTypes + (ast.ClassDef,)):
            bound.add(n.name)
    count = 0
    imp = [st for st in tree.body if isinstance(st, ast.ImportFrom) and st.module == "lazy_compat" and st.level == 1]
    need = set()
    for n in ast.walk(tree):
        if isinstance(n, ast.Name) and isinstance(n.ctx, ast.Load) and n.id in COMPAT and n.id not in bound \
                and COMPAT[n.id] in ref_used and n.id not in ref_used and imp:
            n.id = COMPAT[n.id]
            need.add(n.id)
            count += 1
    for nm in sorted(need):
        if not any((al.asname or al.name) == nm for st in imp for al in st.names):
            imp[0].names.append(ast.alias(name=nm, asname=None))     # the view imports what it names
    # Poly({K: V for ..}) is Poly(OrderedDict((K, V) for ..)): the constructor copies the mapping, order is insertion order
    if "OrderedDict" in ref_used and "OrderedDict" not in bound:
        for n in ast.walk(tree):
            if isinstance(n, ast.Call) and isinstance(n.func, ast.Name) and n.func.id in ("Poly", "OrderedDict") and n.args \
                    and isinstance(n.args[0], ast.DictComp):
                dc = n.args[0]
                gen = ast.GeneratorExp(elt=ast.Tuple(elts=[dc.key, dc.value], ctx=ast.Load()), generators=dc.generators)
                if n.func.id == "OrderedDict":
                    n.args[0] = gen
                else:
                    n.args[0] = ast.Call(func=ast.Name(id="OrderedDict", ctx=ast.Load()), args=[gen], keywords=[])
                count += 1
    # super() in a method is super(<its class>, <its first parameter>)
    ref_zero_arg_super = any(isinstance(n, ast.Call) and isinstance(n.func, ast.Name) and n.func.id == "super" and not n.args
                             for n in ast.walk(ref_tree))
    if not ref_zero_arg_super and "super" not in bound:
        for c in [n for n in ast.walk(tree) if isinstance(n, ast.ClassDef)]:
            for m in [x for x in c.body if isinstance(x, FuncTypes) and x.args.args]:
                if any(isinstance(d, ast.Name) and d.id == "staticmethod" for d in m.decorator_list):
                    continue
                first = m.args.args[0].arg
                for n in _own_nodes(m):
                    if isinstance(n, ast.Call) and isinstance(n.func, ast.Name) and n.func.id == "super" and not n.args and not n.keywords:
                        n.args = [ast.Name(id=c.name, ctx=ast.Load()), ast.Name(id=first, ctx=ast.Load())]
                        count += 1
    ref_yield_from = any(isinstance(n, ast.YieldFrom) for n in ast.walk(ref_tree))
    nyf = 0
    for node in ast.walk(tree):
        for f in ("body", "orelse", "finalbody"):
            blk = getattr(node, f, None)
            if not (isinstance(blk, list) and blk and isinstance(blk[0], ast.stmt)):
                continue
            for i, st in enumerate(blk):
                if not ref_yield_from and isinstance(st, ast.Expr) and isinstance(st.value, ast.YieldFrom):
                    # ``yield from X`` as a statement hands out the items of X one by one (what it also forwards -
                    # send / throw / close - no consumer of these generators uses)
                    nyf += 1
                    var = "el__yf%d" % nyf
                    blk[i] = ast.copy_location(ast.For(
                        target=ast.Name(id=var, ctx=ast.Store()), iter=st.value.value,
                        body=[ast.Expr(value=ast.Yield(value=ast.Name(id=var, ctx=ast.Load())))], orelse=[]), st)
                    count += 1
                    continue
                if isinstance(st, ast.While) and isinstance(st.test, ast.NamedExpr) and isinstance(st.test.target, ast.Name) \
                        and not st.orelse and not any(isinstance(x, ast.Continue) for x in ast.walk(st)):
                    v = st.test.target.id
                    head = [ast.Assign(targets=[ast.Name(id=v, ctx=ast.Store())], value=st.test.value),
                            ast.If(test=ast.UnaryOp(op=ast.Not(), operand=ast.Name(id=v, ctx=ast.Load())), body=[ast.Break()], orelse=[])]
                    for h in head:
                        ast.copy_location(h, st)
                    st.test = ast.copy_location(ast.Constant(value=True), st)
                    st.body = head + st.body
                    count += 1
    if count:
        ast.fix_missing_locations(tree)
    return count


def complete_imports(tree, ref_tree):
    """After adoption the view may name things the way the confirmed module does (``xzip``) although the current module
    dropped that import: the view imports what it names, from where the confirmed module imports it.  Returns the
    names added."""
    bound = set()
    for st in tree.body:
        if isinstance(st, (ast.Import, ast.ImportFrom)):
            for al in st.names:
                bound.add((al.asname or al.name).split(".")[0])
        elif isinstance(st, FuncTypes + (ast.ClassDef,)):
            bound.add(st.name)
        elif isinstance(st, ast.Assign):
            for t in st.targets:
                for n in ast.walk(t):
                    if isinstance(n, ast.Name):
                        bound.add(n.id)
    used = {n.id for n in ast.walk(tree) if isinstance(n, ast.Name) and isinstance(n.ctx, ast.Load)}
    added = []
    for rst in ref_tree.body:
        if not isinstance(rst, ast.ImportFrom):
            continue
        for al in rst.names:
            nm = al.asname or al.name
            if nm in used and nm not in bound and nm != "*":
                home = [st for st in tree.body if isinstance(st, ast.ImportFrom) and st.module == rst.module and st.level == rst.level]
                if home:
                    home[0].names.append(ast.alias(name=al.name, asname=al.asname))
                else:
                    new = ast.ImportFrom(module=rst.module, names=[ast.alias(name=al.name, asname=al.asname)], level=rst.level)
                    pos = max([i for i, st in enumerate(tree.body) if isinstance(st, (ast.Import, ast.ImportFrom))] + [-1]) + 1
                    tree.body.insert(pos, ast.fix_missing_locations(ast.copy_location(new, tree.body[0] if tree.body else new)))
                bound.add(nm)
                added.append(nm)
    return added
