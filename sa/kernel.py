"""Template frames of LinearFilter.__call__ (E6, filter kernel).

``fold_kernel`` reconstructs, for a *schema* (abstract coefficient per delay),
the text that ``LinearFilter.__call__`` hands to ``exec``; ``analyse_kernel``
parses that text and checks it, in rational normal form, against one step of
the difference equation plus the state-shift invariants - an inductive
argument over all inputs for that schema.
"""
import ast
from collections import OrderedDict

from .core import AnalysisError, parse_snippet, docstring_free, unparse
from .peval import Folder, Token, Obj
from .ratfun import RF, Evaluator, Inconclusive, opaque
from .e3 import E3

import re
_STATE_VAR = re.compile(r"^[md]\d+$")
_ITER_VAR = re.compile(r"^[ab]\d+$")

TRACKED = {"la", "lb", "lm", "data_sum", "num_iterables", "den_iterables", "gain", "expr", "arg_names", "gen_func"}

FLAVOURS = {            # text pasted by str(coefficient)  ->  meaning
    "atom": lambda n: (n, RF.sym(n)),
    "frac": lambda n: ("P%s/Q%s" % (n, n), RF.sym("P" + n) / RF.sym("Q" + n)),
    "negfrac": lambda n: ("-P%s/Q%s" % (n, n), -(RF.sym("P" + n) / RF.sym("Q" + n))),
    "neg": lambda n: ("-%s" % n, -RF.sym(n)),
    "float": lambda n: ("2.5", RF.const("5/2")),
    "negfloat": lambda n: ("-0.25", RF.const("-1/4")),
    "complex": lambda n: ("(%s+%sj)" % ("R" + n, "1"), None),   # text only: str(complex) is parenthesised
}


def token(cls, name, flavour="atom"):
    if cls == "one":
        t = Token("one", "1", name)
        t.rf = RF.const(1)
    elif cls == "minus_one":
        t = Token("minus_one", "-1", name)
        t.rf = RF.const(-1)
    elif cls == "zero":
        t = Token("zero", "0", name)
        t.rf = RF.const(0)
    elif isinstance(cls, tuple) and cls[0] == "const":
        t = Token("const", repr(cls[1]), name)     # a plain number the builder singles out by a comparison
        t.value = cls[1]
        from fractions import Fraction as _Fr
        t.rf = RF.const(str(_Fr(cls[1]).limit_denominator(10 ** 6)))
    elif cls == "stream":
        t = Token("stream", "<stream %s>" % name, name)
        t.rf = None           # value = next(<argument>) at each sample
    else:
        text, rf = FLAVOURS[flavour](name)
        t = Token("generic", text, name)
        t.rf = rf
    return t


class Schema(object):
    """num: {delay: (cls, flavour)}, den: {delay: (cls, flavour)} with den[0] present."""

    def __init__(self, num, den):
        self.num = OrderedDict()
        self.den = OrderedDict()
        for k in sorted(num):
            cls, fl = num[k] if isinstance(num[k], tuple) and num[k][0] != "const" else (num[k], "atom")
            self.num[k] = token(cls, "Bc%d" % k, fl)
        for k in sorted(den):
            cls, fl = den[k] if isinstance(den[k], tuple) and den[k][0] != "const" else (den[k], "atom")
            self.den[k] = token(cls, "Ac%d" % k, fl)
        if 0 not in self.den:
            raise ValueError("schema needs a[0]")

    def label(self):
        f = lambda d: "{" + ", ".join("%d:%s%s" % (k, t.cls, "" if t.cls != "generic" else "'" + t.text + "'")
                                      for k, t in d.items()) + "}"
        return "num=%s den=%s" % (f(self.num), f(self.den))

    def coeff_list(self, d):
        if not d:
            return []
        order = max(d)
        return [d.get(k, token("zero", "z")) for k in range(order + 1)]


def fold_kernel(call_fn, schema):
    """Fold the string-building slice of LinearFilter.__call__ for a schema.
    Returns dict(text=..., arg_names=[...], num_iterables=[...], den_iterables=[...])."""
    zero = Token("generic", "zero_value", "zero")
    zero.rf = RF.sym("zero_value")
    selfobj = Obj("self", {
        "numdict": OrderedDict(schema.num), "dendict": OrderedDict(schema.den),
        "numerator": schema.coeff_list(schema.num), "denominator": schema.coeff_list(schema.den),
        "numlist": schema.coeff_list(schema.num), "denlist": schema.coeff_list(schema.den),
        # the polynomials, read by delay (self.denpoly[0] is the a[0] of the schema)
        "numpoly": PolyTokens(schema.num, schema.coeff_list(schema.num)),
        "denpoly": PolyTokens(schema.den, schema.coeff_list(schema.den)),
    })

    def isinst(value, what):
        if what == "Iterable":
            return isinstance(value, Token) and value.cls == "stream"
        if what == "Stream":
            return isinstance(value, Token) and value.cls == "stream"
        raise Inconclusive("isinstance(_, %s) while folding the kernel builder" % what)

    f = Folder({"self": selfobj, "zero": zero}, isinstance_hook=isinst)
    body = docstring_free(call_fn.body)
    tracked = _tracked_closure(call_fn)
    r = f.run(body, tracked)
    if r is not None:
        raise Inconclusive("kernel builder returned/raised while folding: %r" % (r,))
    gf = f.env.get("gen_func")
    if not isinstance(gf, list) or not all(isinstance(x, str) for x in gf):
        raise Inconclusive("gen_func is not a list of strings after folding")
    return {"text": "\n".join(gf), "arg_names": f.env.get("arg_names"),
            "num_iterables": f.env.get("num_iterables"), "den_iterables": f.env.get("den_iterables"),
            "la": f.env.get("la"), "lb": f.env.get("lb"), "lm": f.env.get("lm")}


class PolyTokens(OrderedDict):
    """the numerator / denominator polynomial of a schema as the builder may read it: ``p[k]`` is the coefficient of
    delay k, ``p.values()`` the dense coefficient list (``Poly.values``), ``p.terms()`` the (delay, coefficient) pairs;
    ``sym``: subscripts give the symbolic text ``self.<name>[k]`` instead of the token (the kernel call site)"""
    def __init__(self, items, dense, sym=None):
        OrderedDict.__init__(self, items)
        self.dense, self.sym = list(dense), sym

    def __getitem__(self, k):
        if self.sym is not None:
            t = Token("sym", "%s[%r]" % (self.sym, k), "%s[%r]" % (self.sym, k))
            t.rf = None
            return t
        return OrderedDict.__getitem__(self, k)

    def values(self):
        return list(self.dense)

    def terms(self):
        return list(OrderedDict.items(self))


class SymSeq(object):
    """an indexable object known only by name: x[k] is the token 'name[k]'"""
    def __init__(self, name):
        self.name = name

    def __getitem__(self, k):
        t = Token("sym", "%s[%r]" % (self.name, k), "%s[%r]" % (self.name, k))
        t.rf = None
        return t


def fold_arguments(call_fn, schema):
    """Fold what the generated kernel is called with: the positional arguments of gen(..) in the final return, as
    texts (iter(seq), memory, zero, iter(self.numpoly[k]) ...), for one schema."""
    zero = Token("generic", "zero", "zero")
    zero.rf = RF.sym("zero")
    selfobj = Obj("self", {
        "numdict": OrderedDict(schema.num), "dendict": OrderedDict(schema.den),
        "numerator": schema.coeff_list(schema.num), "denominator": schema.coeff_list(schema.den),
        "numlist": schema.coeff_list(schema.num), "denlist": schema.coeff_list(schema.den),
        "numpoly": PolyTokens(schema.num, schema.coeff_list(schema.num), sym="self.numpoly"),
        "denpoly": PolyTokens(schema.den, schema.coeff_list(schema.den), sym="self.denpoly"),
    })

    def isinst(value, what):
        if what in ("Iterable", "Stream"):
            return isinstance(value, Token) and value.cls == "stream"
        raise Inconclusive("isinstance(_, %s) while folding the kernel call" % what)

    def hook(folder, e):
        if isinstance(e.func, ast.Name) and e.func.id == "iter" and len(e.args) == 1 and not e.keywords:
            v = folder.ev(e.args[0])
            if isinstance(v, Token):
                t = Token("sym", "iter(%s)" % v.text, "iter")
                t.rf = None
                return t
            raise Inconclusive("iter() of %r" % (v,))
        return NotImplemented
    seq = Token("sym", "seq", "seq")
    mem = Token("sym", "memory", "memory")
    f = Folder({"self": selfobj, "zero": zero, "seq": seq, "memory": mem}, isinstance_hook=isinst, call_hook=hook)
    body = docstring_free(call_fn.body)
    last = body[-1]
    if not (isinstance(last, ast.Return) and isinstance(last.value, ast.Call) and len(last.value.args) == 1
            and isinstance(last.value.args[0], ast.Call)):
        raise Inconclusive("final return is not <wrapper>(gen(...))")
    gcall = last.value.args[0]
    # names feeding the call
    feed = {n.id for n in ast.walk(gcall) if isinstance(n, ast.Name)} - {"seq", "memory", "zero", "self", "gen", "iter"}
    tracked = set(_tracked_closure(call_fn)) | feed
    changed = True
    assigned = {}
    for n in ast.walk(call_fn):
        if isinstance(n, (ast.Assign, ast.AugAssign)):
            for t in (n.targets if isinstance(n, ast.Assign) else [n.target]):
                for x in ast.walk(t):
                    if isinstance(x, ast.Name):
                        assigned.setdefault(x.id, []).append(n)
        elif isinstance(n, ast.Expr) and isinstance(n.value, ast.Call) and isinstance(n.value.func, ast.Attribute) \
                and n.value.func.attr in ("append", "extend", "insert") and isinstance(n.value.func.value, ast.Name):
            assigned.setdefault(n.value.func.value.id, []).append(n)
    while changed:
        changed = False
        for name in list(tracked):
            for st in assigned.get(name, []):
                for x in ast.walk(st.value):
                    if isinstance(x, ast.Name) and x.id in assigned and x.id not in tracked \
                            and x.id not in ("seq", "memory", "zero", "self", "tw", "actual_len", "gen"):
                        tracked.add(x.id)
                        changed = True
    r = f.run(body[:-1], tracked)
    if r is not None:
        raise Inconclusive("kernel builder returned/raised while folding: %r" % (r,))
    args = []
    for a in gcall.args:
        if isinstance(a, ast.Starred):
            v = f.ev(a.value)
            if not isinstance(v, (list, tuple)):
                raise Inconclusive("star-argument is not a list")
            args.extend(v)
        else:
            args.append(f.ev(a))
    if gcall.keywords:
        raise Inconclusive("keyword arguments in the kernel call")
    texts = [x.text if isinstance(x, Token) else repr(x) for x in args]
    return {"wrapper": unparse(last.value.func), "callee": unparse(gcall.func), "args": texts,
            "arg_names": f.env.get("arg_names"), "num_iterables": f.env.get("num_iterables"),
            "den_iterables": f.env.get("den_iterables")}


_CLOSURE = {}


def _tracked_closure(call_fn):
    """TRACKED plus every local of the method that (transitively) feeds a tracked variable - so that helper
    variables introduced by a refactoring of the builder are folded too.  Inputs (seq, memory, self) are excluded."""
    key = id(call_fn)
    if key in _CLOSURE and _CLOSURE[key][0] is call_fn:
        return _CLOSURE[key][1]
    tracked = set(TRACKED)
    assigned = {}
    for n in ast.walk(call_fn):
        if isinstance(n, (ast.Assign, ast.AugAssign)):
            tg = n.targets if isinstance(n, ast.Assign) else [n.target]
            for t in tg:
                for x in ast.walk(t):
                    if isinstance(x, ast.Name):
                        assigned.setdefault(x.id, []).append(n)
        elif isinstance(n, ast.For):
            for x in ast.walk(n.target):
                if isinstance(x, ast.Name):
                    assigned.setdefault(x.id, [])
        elif isinstance(n, ast.Expr) and isinstance(n.value, ast.Call) and isinstance(n.value.func, ast.Attribute) \
                and n.value.func.attr in ("append", "extend", "insert", "update", "setdefault") \
                and isinstance(n.value.func.value, ast.Name):
            # x.append(E): E feeds x
            assigned.setdefault(n.value.func.value.id, []).append(n)
    exclude = {"seq", "memory", "self", "zero", "tw", "actual_len", "gen", "arguments", "den", "inv_gain"}
    changed = True
    while changed:
        changed = False
        for name in list(tracked):
            for st in assigned.get(name, []):
                for x in ast.walk(st.value):
                    if isinstance(x, ast.Name) and x.id in assigned and assigned[x.id] and x.id not in tracked \
                            and x.id not in exclude:
                        tracked.add(x.id)
                        changed = True
        # control dependence: a local tested by an `if` that guards a write of a tracked name feeds it as well
        for cond in [n for n in ast.walk(call_fn) if isinstance(n, (ast.If, ast.IfExp, ast.While))]:
            inner = cond.body + cond.orelse if isinstance(cond, (ast.If, ast.While)) else [cond]
            writes_tracked = any(
                (isinstance(x, ast.Name) and isinstance(x.ctx, ast.Store) and x.id in tracked) or
                (isinstance(x, ast.Call) and isinstance(x.func, ast.Attribute) and isinstance(x.func.value, ast.Name)
                 and x.func.value.id in tracked and x.func.attr in ("append", "extend", "insert", "update", "setdefault"))
                for st in inner for x in ast.walk(st)) or (isinstance(cond, ast.IfExp) and any(
                    cond in list(ast.walk(a_.value)) for nm_ in tracked for a_ in assigned.get(nm_, []) if hasattr(a_, "value")))
            if writes_tracked:
                for x in ast.walk(cond.test):
                    if isinstance(x, ast.Name) and x.id in assigned and assigned[x.id] and x.id not in tracked \
                            and x.id not in exclude:
                        tracked.add(x.id)
                        changed = True
    _CLOSURE[key] = (call_fn, tracked)
    return tracked


class KernelReport(object):
    def __init__(self):
        self.items = []     # (rule, ok, text, why)

    def add(self, rule, ok, text, why=""):
        self.items.append((rule, bool(ok), text, why))


def analyse_kernel(folded, schema, e3=None):
    rep = KernelReport()
    text = folded["text"]
    try:
        tree = parse_snippet(text, "<kernel>")
    except SyntaxError as ex:
        rep.add("C04.kernel", False, "generated kernel parses", "SyntaxError: %s in\n%s" % (ex, text))
        return rep
    fns = [n for n in tree.body if isinstance(n, ast.FunctionDef)]
    if len(fns) != 1 or fns[0].name != "gen":
        rep.add("C04.kernel", False, "generated text defines gen()", "found %s" % [f.name for f in fns])
        return rep
    gen = fns[0]
    argn = [a.arg for a in gen.args.args]
    lm = max(schema.den) if schema.den else 0
    lb1 = max(schema.num) if schema.num else -1       # highest numerator delay
    have_terms = any(t.cls != "zero" for t in schema.num.values()) or any(
        t.cls != "zero" for k, t in schema.den.items() if k != 0)

    loops = [s for s in gen.body if isinstance(s, ast.For)]
    if len(loops) != 1 or gen.body[-1] is not loops[0]:
        rep.add("C04.kernel", False, "kernel is prologue + one trailing for-loop", text)
        return rep
    loop = loops[0]
    rep.add("C04.one-per-input", isinstance(loop.iter, ast.Name) and loop.iter.id == argn[0] and not loop.orelse,
            "loop iterates the input argument '%s'" % argn[0], "loop over %s" % unparse(loop.iter))

    # ---- all-zero filter ------------------------------------------------
    if not have_terms:
        body = loop.body
        ok = len(body) == 1 and isinstance(body[0], ast.Expr) and isinstance(body[0].value, ast.Yield) \
            and body[0].value.value is not None
        val = None
        if ok:
            try:
                val = Evaluator().ev(body[0].value.value)
            except Inconclusive:
                ok = False
        rep.add("C04.zero-filter", ok and val == RF.sym("zero_value"),
                "all-zero filter yields the zero value once per input", "kernel:\n" + text)
        return rep

    # ---- prologue ---------------------------------------------------------
    env = {}
    mem_vars, d_vars = {}, {}
    for st in gen.body[:-1]:
        if isinstance(st, ast.Assign) and len(st.targets) == 1 and isinstance(st.targets[0], ast.Tuple) \
                and isinstance(st.value, ast.Name) and st.value.id == "memory":
            for i, t in enumerate(st.targets[0].elts):
                if isinstance(t, ast.Name):
                    mem_vars[t.id] = i
                    env[t.id] = RF.sym("memory[%d]" % i)
        elif isinstance(st, ast.Assign) and isinstance(st.value, ast.Name) and st.value.id == "zero":
            for t in st.targets:
                if isinstance(t, ast.Name):
                    d_vars[t.id] = True
                    env[t.id] = RF.sym("zero")
        else:
            rep.add("C04.kernel", False, "prologue statement understood: " + unparse(st), "unexpected statement")
    want_m = {"m%d" % k: k - 1 for k in range(1, lm + 1)}
    rep.add("C04.memory-order", mem_vars == want_m,
            "m1..m%d unpacked from memory in ascending order (m_k = k-th memory item)" % lm,
            "unpacked %s, expected %s" % (sorted(mem_vars.items()), sorted(want_m.items())))
    want_d = set("d%d" % k for k in range(1, lb1 + 1))
    rep.add("C04.init-zero", set(d_vars) == want_d, "d1..d%d start as the zero value" % max(lb1, 0),
            "initialised %s, expected %s" % (sorted(d_vars), sorted(want_d)))

    # ---- loop body: one symbolic step --------------------------------------
    pre = {}
    d0 = loop.target.id if isinstance(loop.target, ast.Name) else None
    rep.add("C04.kernel", d0 == "d0", "loop variable is the current input d0", "target %s" % unparse(loop.target))
    pre["d0"] = RF.sym("x0")
    for k in range(1, lb1 + 1):
        pre["d%d" % k] = RF.sym("x%d" % k)
    for k in range(1, lm + 1):
        pre["m%d" % k] = RF.sym("y%d" % k)
    state = dict(pre)
    nexts = {}
    yields = []
    undefined = []
    protected_next = [True]

    def call_hook(ev, name, node):
        if name == "next" and len(node.args) == 1 and isinstance(node.args[0], ast.Name):
            a = node.args[0].id
            nexts[a] = nexts.get(a, 0) + 1
            return RF.sym("next_" + a)
        return None

    def names_in(e):
        return [n.id for n in ast.walk(e) if isinstance(n, ast.Name) and isinstance(n.ctx, ast.Load)]
    coef_names = {"zero_value"}
    for t_ in list(schema.num.values()) + list(schema.den.values()):
        coef_names |= set(re.findall(r"[A-Za-z_][A-Za-z_0-9]*", t_.text))

    def step(stmts, in_try):
        for st in stmts:
            if isinstance(st, ast.Try):
                handles = any(h.type is None or "StopIteration" in unparse(h.type) or unparse(h.type) in
                              ("Exception", "BaseException") for h in st.handlers)
                step(st.body, in_try or handles)
                continue
            if isinstance(st, ast.Assign) and len(st.targets) == 1 and isinstance(st.targets[0], ast.Name):
                for nm in names_in(st.value):
                    if _STATE_VAR.match(nm) and nm not in state:
                        undefined.append(nm)
                    elif _ITER_VAR.match(nm) and nm not in argn:
                        undefined.append(nm)
                    elif nm not in state and nm not in argn and nm not in coef_names \
                            and nm not in ("next", "StopIteration", "True", "False", "None"):
                        undefined.append(nm)        # any other free name of the generated loop is a NameError
                before = dict(nexts)
                try:
                    val = Evaluator(state, call_hook=call_hook).ev(st.value)
                except Inconclusive as ex:
                    rep.add("C04.kernel", False, "statement interpretable: " + unparse(st), str(ex))
                    continue
                if nexts != before and not in_try:
                    protected_next[0] = False
                state[st.targets[0].id] = val
            elif isinstance(st, ast.Expr) and isinstance(st.value, ast.Yield):
                v = st.value.value
                try:
                    yields.append((Evaluator(state, call_hook=call_hook).ev(v), dict(state)))
                except Inconclusive as ex:
                    rep.add("C04.kernel", False, "yield interpretable: " + unparse(st), str(ex))
            else:
                rep.add("C04.kernel", False, "loop statement understood: " + unparse(st), "unexpected statement kind")
    step(loop.body, False)

    rep.add("C04.one-per-input", len(yields) == 1, "exactly one yield per input sample", "%d yields" % len(yields))
    rep.add("C04.names", not undefined, "every state variable read in the loop is defined",
            "undefined: %s in kernel\n%s" % (sorted(set(undefined)), text))
    if len(yields) != 1:
        return rep
    y, at_yield = yields[0]

    # expected value
    def coef(tok, argname):
        return RF.sym("next_" + argname) if tok.cls == "stream" else tok.rf
    rhs = RF.const(0)
    for k, t in schema.num.items():
        rhs = rhs + coef(t, "b%d" % k) * pre["d%d" % k]
    for k, t in schema.den.items():
        if k:
            rhs = rhs - coef(t, "a%d" % k) * pre["m%d" % k]
    a0 = schema.den[0].rf
    ok = (y * a0 == rhs)
    rep.add("C04.equation", ok, "a0*y[n] = sum b_k*x[n-k] - sum a_k*y[n-k]  (%s)" % schema.label(),
            "kernel computes y = %s ; difference equation requires a0*y = %s with a0 = %s ; kernel:\n%s"
            % (y.key(), rhs.key(), a0.key(), text))
    # shifts
    bad = []
    for k in range(1, lm + 1):
        want = y if k == 1 else pre["m%d" % (k - 1)]
        got = state.get("m%d" % k)
        if got is None or not (got == want):
            bad.append("m%d" % k)
    for k in range(1, lb1 + 1):
        want = pre["d%d" % (k - 1)]
        got = state.get("d%d" % k)
        if got is None or not (got == want):
            bad.append("d%d" % k)
    rep.add("C04.shift", not bad, "after the yield m_k <- m_(k-1) (m_1 <- y) and d_k <- d_(k-1) for every k",
            "wrong next-state for %s ; kernel:\n%s" % (bad, text))
    # shifts must come after the yield: the yielded state must still be the pre-state
    moved = [k for k in pre if k != "d0" and not (at_yield.get(k) == pre[k])]
    rep.add("C04.shift", not moved, "state is shifted only after the yield",
            "shifted before the yield: %s" % moved)
    # next() bookkeeping
    want_next = {}
    for k, t in schema.num.items():
        if t.cls == "stream":
            want_next["b%d" % k] = 1
    for k, t in schema.den.items():
        if t.cls == "stream" and k:
            want_next["a%d" % k] = 1
    rep.add("C06.next-once", nexts == want_next, "each coefficient iterator is advanced exactly once per sample",
            "next() counts %s, expected %s" % (nexts, want_next))
    exp_args = ["seq", "memory", "zero"] + sorted(k for k in want_next if k[0] == "b") + \
        sorted(k for k in want_next if k[0] == "a")
    rep.add("C06.args", argn == exp_args and folded.get("arg_names") == argn,
            "kernel parameters are seq, memory, zero, numerator iterators, denominator iterators",
            "got %s (arg_names %s), expected %s" % (argn, folded.get("arg_names"), exp_args))
    want_ni = [k for k, t in schema.num.items() if t.cls == "stream"]
    want_di = [k for k, t in schema.den.items() if t.cls == "stream" and k]
    # the builder's own bookkeeping lists, when it keeps them as lists of delays (what reaches the kernel - parameter
    # names above, call arguments in C04.exec - is checked whatever the bookkeeping looks like)
    ni_, di_ = folded.get("num_iterables"), folded.get("den_iterables")
    if isinstance(ni_, list) and isinstance(di_, list) and all(isinstance(k, int) for k in ni_ + di_):
        rep.add("C06.args", ni_ == want_ni and di_ == want_di,
                "num_iterables / den_iterables list the delays holding Streams, in term order",
                "got %s / %s expected %s / %s" % (ni_, di_, want_ni, want_di))
    if want_next:
        rep.add("E3", protected_next[0], "next(coefficient) in the generated generator is inside try/except "
                "StopIteration", "a finished coefficient Stream raises RuntimeError (PEP 479) instead of ending "
                "the output; kernel:\n" + text)
    return rep


def size_thresholds(call_fn):
    """integer literals (3..64) the kernel builder compares a length with - la, lb, lm, len(..) or a local computed from
    them: a branch taken only beyond such a size (a long-filter fast path) is folded too, see quick_schemas"""
    sized = {"la", "lb", "lm"}
    for _ in range(3):
        for n in ast.walk(call_fn):
            if isinstance(n, ast.Assign) and len(n.targets) == 1 and isinstance(n.targets[0], ast.Name) \
                    and any((isinstance(x, ast.Name) and x.id in sized) or (
                        isinstance(x, ast.Call) and isinstance(x.func, ast.Name) and x.func.id == "len") for x in ast.walk(n.value)) \
                    and not any(isinstance(x, ast.Compare) for x in ast.walk(n.value)):
                sized.add(n.targets[0].id)
    out = set()
    for n in ast.walk(call_fn):
        if isinstance(n, ast.Compare):
            parts = [n.left] + list(n.comparators)
            about_size = any((isinstance(x, ast.Name) and x.id in sized) or (
                isinstance(x, ast.Call) and isinstance(x.func, ast.Name) and x.func.id == "len")
                for p_ in parts for x in ast.walk(p_))
            if about_size:
                for p_ in parts:
                    if isinstance(p_, ast.Constant) and type(p_.value) is int and 3 <= p_.value <= 64:
                        out.add(p_.value)
    return sorted(out)


def quick_schemas(thresholds=()):
    """Representative schemas: every coefficient class at every position up to
    delay 2 against a few partners, gaps, and the text flavours of pasted values; plus, for every size the builder
    itself compares lengths with, filters just below, at and beyond that size."""
    num_classes = [None, "one", "minus_one", "generic", "stream"]
    den0 = ["one", "minus_one", "generic"]
    out = []
    partners_den = [{0: "one"}, {0: "generic"}, {0: "minus_one", 1: "generic", 2: "stream"}, {0: "generic", 2: "one"}]
    partners_num = [{}, {0: "one"}, {0: "generic", 1: "stream", 2: "minus_one"}, {1: "generic"}]

    def mk(classes, base=0):
        return {k + base: c for k, c in enumerate(classes) if c is not None}
    import itertools
    for combo in itertools.product(num_classes, repeat=3):
        for d in partners_den:
            out.append((mk(combo), d))
    for a0 in den0:
        for combo in itertools.product(num_classes, repeat=2):
            d = {0: a0}
            d.update(mk(combo, 1))
            for n in partners_num:
                out.append((n, d))
    # sparse high delays
    out.append(({0: "generic", 3: "one"}, {0: "one", 4: "generic"}))
    out.append(({5: "minus_one"}, {0: "generic", 1: "stream", 5: "minus_one"}))
    out.append(({2: "stream"}, {0: "minus_one", 3: "stream"}))
    for t in thresholds:
        for o in (t - 1, t, t + 1, t + 2):
            if o >= 3:
                out.append(({0: "generic", 1: "one"}, {0: "one", 1: "generic", o: "generic"}))
                out.append(({0: "one", o: "generic"}, {0: "generic", 2: "minus_one"}))
                out.append(({o: "stream"}, {0: "minus_one", 1: "stream", o: "generic"}))
    # pasted-text flavours (operator precedence of str(value))
    for fl in ("frac", "negfrac", "neg", "float", "negfloat"):
        out.append(({0: ("generic", fl), 1: ("generic", fl)}, {0: ("generic", fl), 1: ("generic", fl)}))
        out.append(({1: ("generic", fl)}, {0: "one", 2: ("generic", fl)}))
        out.append(({0: "one", 2: "minus_one"}, {0: ("generic", fl), 1: "one"}))
    seen = set()
    res = []
    for n, d in out:
        key = (tuple(sorted((k, str(v)) for k, v in n.items())), tuple(sorted((k, str(v)) for k, v in d.items())))
        if key not in seen:
            seen.add(key)
            res.append((n, d))
    return res


def thorough_schemas(order=2):
    import itertools
    num_classes = [None, "one", "minus_one", "generic", "stream"]
    den0 = ["one", "minus_one", "generic"]
    for combo in itertools.product(num_classes, repeat=order + 1):
        n = {k: c for k, c in enumerate(combo) if c is not None}
        for a0 in den0:
            for dc in itertools.product(num_classes, repeat=order):
                d = {0: a0}
                d.update({k + 1: c for k, c in enumerate(dc) if c is not None})
                yield n, d
