"""C13  Designed filters meet their documented gain, cut-off and pole contracts."""
import ast

from ..core import (AnalysisError, FuncTypes, unparse, short, canon, canon_call, base_name, own_nodes,
                    docstring_free)
from ..ratfun import RF, Evaluator, Inconclusive, opaque, sym_pow, reduce_relations, OPAQUE_ARGS
from ..pathrf import enumerate_paths, PathLimit
from .. import e4

EXPLANATION = (
    "Static analysis of the design strategies (lazy_filters.py, lazy_auditory.py). Hub budgets (R4.1/R4.2): on every "
    "path of the 12 low/high-pass, 4 resonator, gammatone.klapuri and 3 envelope strategies each thub(x, n) is used at "
    "most n times and every other possibly-Stream value at most once (use counts with comprehension multiplicities), "
    "so Stream-valued parameters never hit 'no more copies' nor get iterated twice. Rational normal forms (E5), every "
    "path, pole parameter free: lowpass designs have gain exactly 1 at z = 1 and highpass designs at z = -1; the 'pole' "
    "and 'z' strategies satisfy the half-power identity 2|N|^2 - |D|^2 = 0 at the cut-off for every cut-off "
    "(identity modulo sqrt(a)^2 = a and sin^2 + cos^2 = 1); the one pole sits at R (lowpass: +R, highpass: -R) with the "
    "documented R; resonators have denominator 1 - 2R cos(.) z^-1 + R^2 z^-2 with R = exp(-bandwidth/2), z-resonator "
    "numerators vanish at z = +-1; comb.fb = 1/(1 - alpha z^-delay), comb.ff = 1 + alpha z^-delay, comb.tau has "
    "alpha = e^(-delay/tau). Gammatone sampled/slaney sections are f / abs(f.freq_response(freq)) with the function's "
    "own freq (unit gain at the centre frequency by construction); klapuri is the cascade of z_exp and poles_exp "
    "resonators twice, sharing freq and 2*bandwidth through hubs. Not decided: monotonicity, |R| < 1 for all cut-offs "
    "(numeric), resonator peak gain."
    " Also: Resonators: |H|^2 = 1 at the resonant frequency is proved as a polynomial identity in R and cos (modulo sqrt^2, sin^2 relations) for all four strategies; z-type numerators are gain * (1 - z^-2). ")

UNDECIDED = ["monotone magnitude response", "numeric pole radius < 1 over the whole cut-off range", "resonator peak gain"]

LF, LAu, LA = "lazy_filters", "lazy_auditory", "lazy_analysis"


STRATEGIES = {}        # (dict name, strategy name) -> function node: filled by run() from the tree under analysis
DOMAIN = []            # [(node, argument RF)] of every acos(..) met while evaluating


class DesignEval(Evaluator):
    def __init__(self, env):
        Evaluator.__init__(self, env)
        self.callee_env = {}

    def ev(self, e):
        # Stream arm: an element-wise zero guard over X - (el if el else 1 for el in X), xmap(lambda el: el or 1, X) -
        # has, sample by sample, the value of X wherever X is not zero (the shape of the guard itself: C13.zguard)
        g = _guard_source(e)
        if g is not None:
            return self.ev(g)
        return Evaluator.ev(self, e)

    def call(self, e):
        name = unparse(e.func)
        if name == "thub" and len(e.args) == 2:
            return self.ev(e.args[0])
        if name == "acos" and len(e.args) == 1 and not e.keywords:
            a = self.ev(e.args[0])
            DOMAIN.append((e, a))
            return opaque("acos", a)
        if name in ("cos", "sin") and len(e.args) == 1 and not e.keywords:
            a = self.ev(e.args[0])
            sy = a.simplified()
            if len(sy.n) == 1 and sy.d == {(): 1}:
                (m, c), = sy.n.items()
                if c == 1 and len(m) == 1 and m[0][1] == 1 and OPAQUE_ARGS.get(m[0][0], ("",))[0] == "acos":
                    inner = OPAQUE_ARGS[m[0][0]][1][0]
                    # cos(acos(X)) = X ; sin(acos(X)) = sqrt(1 - X^2)   (for X in [-1, 1]: rule C13.domain)
                    return inner if name == "cos" else opaque("sqrt", 1 - inner * inner)
            return opaque(name, a)
        if isinstance(e.func, ast.Attribute) and isinstance(e.func.value, ast.Name) \
                and (e.func.value.id, e.func.attr) in STRATEGIES and not e.keywords \
                and not any(isinstance(a_, ast.Starred) for a_ in e.args):
            # one design written in terms of another: the callee's single path with the arguments bound
            callee = STRATEGIES[(e.func.value.id, e.func.attr)]
            pars = [a_.arg for a_ in callee.args.args]
            if len(pars) != len(e.args) or callee.args.vararg or callee.args.kwarg:
                raise Inconclusive("call %s" % unparse(e))
            key = (e.func.value.id, e.func.attr)
            if key in _ACTIVE:
                raise Inconclusive("recursive design %s.%s" % key)
            _ACTIVE.add(key)
            try:
                paths = design_paths(callee, bind=dict(zip(pars, [self.ev(a_) for a_ in e.args])))
            finally:
                _ACTIVE.discard(key)
            if len(paths) != 1:
                raise Inconclusive("%d paths in the design %s.%s called here" % ((len(paths),) + key))
            val, cenv, _, _ = paths[0]
            for k_, v_ in cenv.items():
                if k_ not in pars:
                    self.callee_env.setdefault(k_, v_)
            return val
        return Evaluator.call(self, e)


_ACTIVE = set()


def _acos_domain(arg):
    """True: |arg| <= 1 proved; False: |arg| > 1 for some admissible inputs proved; None: neither.
    arg = c * k with c one cos(..) symbol and k a ratio of polynomials, with positive coefficients, in one symbol R > 0"""
    cs = [s_ for s_ in arg.symbols() if OPAQUE_ARGS.get(s_, ("",))[0] == "cos"]
    if len(cs) != 1:
        return None
    k = (arg / RF.sym(cs[0])).simplified()
    if cs[0] in k.symbols() or len(k.symbols()) != 1:
        return None
    (r,) = k.symbols()
    if OPAQUE_ARGS.get(r, ("",))[0] != "exp":
        return None

    def uni(rf_):
        """(numerator, denominator) as {exponent: Fraction} in r, negative powers cleared"""
        sr = rf_.simplified()
        out = []
        for poly in (sr.n, sr.d):
            d_ = {}
            for m, c in poly.items():
                if any(s_ != r for s_, _ in m):
                    return None
                d_[dict(m).get(r, 0)] = d_.get(dict(m).get(r, 0), 0) + c
            out.append(d_)
        lo = min([e_ for d_ in out for e_ in d_] + [0])
        return [{e_ - lo: c for e_, c in d_.items() if c != 0} for d_ in out]

    def positive(poly):
        return bool(poly) and all(c > 0 for c in poly.values())

    def square(rf_):
        """numerator a perfect square (degree <= 2 in r, not identically zero), denominator positive for r > 0"""
        u = uni(rf_)
        if u is None or not u[0]:
            return False
        co, dn = u
        if not positive(dn):
            if not (dn and all(c < 0 for c in dn.values())):
                return False
            co = {e_: -v_ for e_, v_ in co.items()}
        lo = min(co)
        if lo % 2:
            return False
        co = {e_ - lo: v_ for e_, v_ in co.items()}      # r^lo (lo even) is itself a square
        if not set(co) <= {0, 1, 2}:
            return False
        a_, b_, c_ = co.get(2, 0), co.get(1, 0), co.get(0, 0)
        if a_ == 0 and b_ == 0:
            return c_ > 0
        return a_ > 0 and c_ > 0 and b_ * b_ == 4 * a_ * c_
    uk = uni(k)
    if uk is None or not (positive(uk[0]) and positive(uk[1])):
        return None
    if square(1 - k):
        return True
    if square(k - 1):
        return False
    return None


def _guard_source(e):
    """X of an element-wise map over X whose element is (a choice between) the sample itself and a constant"""
    if isinstance(e, (ast.GeneratorExp, ast.ListComp)) and len(e.generators) == 1 and not e.generators[0].ifs \
            and isinstance(e.generators[0].target, ast.Name):
        var, elt, src = e.generators[0].target.id, e.elt, e.generators[0].iter
    elif isinstance(e, ast.Call) and unparse(e.func) in ("xmap", "map", "it.imap") and len(e.args) == 2 \
            and isinstance(e.args[0], ast.Lambda) and len(e.args[0].args.args) == 1:
        var, elt, src = e.args[0].args.args[0].arg, e.args[0].body, e.args[1]
    else:
        return None
    if isinstance(elt, ast.IfExp):
        arms = [unparse(elt.body), unparse(elt.orelse)]
        if var in arms and isinstance(elt.body if arms[1] == var else elt.orelse, ast.Constant):
            return src
    if isinstance(elt, ast.BoolOp) and isinstance(elt.op, ast.Or) and len(elt.values) == 2 and unparse(elt.values[0]) == var \
            and isinstance(elt.values[1], ast.Constant):
        return src
    return None


def design_paths(fn, iterable=False, bind=None):
    """[(return RF, env)] over the loop-free paths of a design strategy, z = x^-1."""
    x = RF.sym("x")

    def oracle(test, env):
        t = unparse(test)
        if t.startswith("isinstance(") and t.endswith(", Iterable)"):
            return iterable
        return None

    def assign(st, env):
        env = dict(env)
        if isinstance(st, ast.Assign) and len(st.targets) == 1 and isinstance(st.targets[0], ast.Name):
            de = DesignEval(env)
            env[st.targets[0].id] = de.ev(st.value)
            for k_, v_ in de.callee_env.items():
                env.setdefault(k_, v_)
            return env
        raise Inconclusive("statement %s" % unparse(st))
    out = []
    from ..equiv import desugar_conditionals
    env0 = {"z": x ** -1}
    env0.update(bind or {})
    for kind, st, env, trail in enumerate_paths(desugar_conditionals(docstring_free(fn.body)), env0, oracle, assign):
        if kind == "return":
            de = DesignEval(env)
            val = de.ev(st.value)
            if de.callee_env:
                # the locals of the design this one is written in terms of (gain, denominator ...): they describe the
                # result when the call is what is returned, and fill the gaps otherwise
                pure = isinstance(st.value, ast.Call) and isinstance(st.value.func, ast.Attribute) and isinstance(
                    st.value.func.value, ast.Name) and (st.value.func.value.id, st.value.func.attr) in STRATEGIES
                env = dict(env, **de.callee_env) if pure else dict(de.callee_env, **env)
            out.append((val, env, st, trail))
    return out


def first_order(rf):
    """(n0, n1, d0, d1) of a first-order rational function in x (after clearing denominators)."""
    n = RF(rf.n)
    d = RF(rf.d)
    # strip a common power of x (Laurent): multiply by x^k to make both polynomial
    cn, cd = n.coeff_poly("x"), d.coeff_poly("x")
    lo = min(list(cn) + list(cd))
    if lo < 0:
        cn = {k - lo: v for k, v in cn.items()}
        cd = {k - lo: v for k, v in cd.items()}
    if max(list(cn) + [0]) > 1 or max(list(cd) + [0]) > 1:
        raise Inconclusive("not first order")
    z = RF.const(0)
    return cn.get(0, z), cn.get(1, z), cd.get(0, z), cd.get(1, z)


def _loop_temps_written_out(fn):
    """copy of ``fn`` in which a local bound once, inside a ``for`` body, to a call-only expression and read in later
    statements of that body is written out where it is read (``gain = abs(f.freq_response(freq)) ; out.append(f / gain)``
    reads ``out.append(f / abs(f.freq_response(freq)))``); line numbers are kept"""
    import copy
    from ..core import set_parents
    new = copy.deepcopy(fn)
    stores = {}
    for n in ast.walk(new):
        if isinstance(n, ast.Name) and isinstance(n.ctx, (ast.Store, ast.Del)):
            stores[n.id] = stores.get(n.id, 0) + 1
    for loop in [n for n in ast.walk(new) if isinstance(n, ast.For)]:
        i = 0
        while i < len(loop.body):
            st = loop.body[i]
            if isinstance(st, ast.Assign) and len(st.targets) == 1 and isinstance(st.targets[0], ast.Name) \
                    and stores.get(st.targets[0].id) == 1 and i + 1 < len(loop.body):
                v = st.targets[0].id
                uses_after = sum(1 for s_ in loop.body[i + 1:] for n in ast.walk(s_) if isinstance(n, ast.Name) and n.id == v)
                uses_all = sum(1 for n in ast.walk(new) if isinstance(n, ast.Name) and n.id == v and isinstance(n.ctx, ast.Load))
                operands = {n.id for n in ast.walk(st.value) if isinstance(n, ast.Name)}
                rebound = any(isinstance(n, ast.Name) and n.id in operands and isinstance(n.ctx, ast.Store)
                              for s_ in loop.body[i + 1:] for n in ast.walk(s_))
                if uses_after == uses_all == 1 and not rebound:
                    class _S(ast.NodeTransformer):
                        def visit_Name(self, n):
                            if n.id == v and isinstance(n.ctx, ast.Load):
                                return ast.copy_location(copy.deepcopy(st.value), n)
                            return n
                    for k in range(i + 1, len(loop.body)):
                        loop.body[k] = _S().visit(loop.body[k])
                    del loop.body[i]
                    continue
            i += 1
    ast.fix_missing_locations(new)
    set_parents(new)
    new._parent = getattr(fn, "_parent", None)
    return new


def design_hub_budgets(chk, repo):
    """R4.1 / R4.2 over the design strategies that take possibly Stream-valued parameters (shared with C02: a Stream
    used twice is also read twice per output sample)"""
    # ------------------------------------------------------------ hub budgets
    chk.rule("R4.1", "every thub(x, n) is used at most n times on every path (more: IndexError 'no more copies' as soon "
                     "as the parameter is a Stream); fewer is a note")
    chk.rule("R4.2", "a possibly-Stream value that is not a hub (a parameter, or a value computed from one) is used at "
                     "most once on every path")
    nh = 0
    nthub = 0
    groups = [(LF, "lowpass", ["cutoff"]), (LF, "highpass", ["cutoff"]), (LF, "resonator", ["freq", "bandwidth"]),
              (LAu, "gammatone", ["freq", "bandwidth"]), (LA, "envelope", ["sig", "cutoff"])]
    for mname, dname, params in groups:
        m = repo.mod(mname)
        for st in repo.strategies_of(mname, dname):
            if st.kind != "def":
                continue
            fn = st.node
            if dname == "gammatone" and "klapuri" not in st.names:
                continue
            W = "%s:%s[%s]" % (m.relpath, dname, st.names[0])
            nthub += len([n for n in ast.walk(fn) if e4.is_thub_call(n)])
            pn = [a.arg for a in fn.args.args if a.arg in params]
            seen = set()
            for recs in e4.analyse_hubs(fn, maybe_stream_params=pn):
                for r in recs:
                    key = (r.name, getattr(r.node, "lineno", 0), r.kind, r.uses.key())
                    if key in seen:
                        continue
                    seen.add(key)
                    if r.budget is None:
                        raise AnalysisError("%s: budget of %s not interpretable" % (W, short(r.node)))
                    nh += 1
                    diff = r.budget - r.uses
                    nn = e4.nonneg(diff)
                    rule = "R4.1" if r.kind == "hub" else "R4.2"
                    label = "%s %s: %s use(s) of budget %s" % (r.kind, r.name, r.uses.key(), r.budget.key())
                    if nn:
                        chk.ok(rule, W, label + " [%s]" % short(r.node, 60), node=r.node)
                        if not diff.is_zero() and r.kind == "hub":
                            chk.note(rule, W, "%s under-used: tee buffer leak (MemoryLeakWarning) only" % label)
                    else:
                        chk.bad(rule, W, label + " [%s]" % short(r.node, 60),
                                ("the hub hands out only %s copies: IndexError as soon as the parameter is a Stream"
                                 % r.budget.key()) if r.kind == "hub" else
                                "a Stream can be iterated once: the second use sees an exhausted/advanced iterator",
                                node=r.node)
            for ih in e4.inline_hubs(fn):
                b = e4.budget_of(ih.args[1])
                nh += 1
                chk.decide(b is not None and e4.nonneg(b - 1), "R4.1", W, "inline hub %s used once" % short(ih),
                           why="budget below the single use", node=ih)
    chk.floor("R4.1", nthub, 24, "thub call sites in design strategies")
    chk.floor("R4.1", nh, 60, "budget obligations")



def run(chk, repo):
    fmod = repo.mod(LF)
    WF = lambda q: "%s:%s" % (fmod.relpath, q)
    x = RF.sym("x")
    STRATEGIES.clear()
    del DOMAIN[:]
    for dn_ in ("lowpass", "highpass", "resonator"):
        for st_ in repo.strategies_of(LF, dn_):
            if st_.kind == "def":
                for nm_ in st_.names:
                    STRATEGIES[(dn_, nm_)] = st_.node

    design_hub_budgets(chk, repo)

    # -------------------------------------------------------------- DC / Nyquist
    chk.rule("C13.gain", "lowpass strategies: H(z=1) == 1; highpass strategies: H(z=-1) == 1, identically in the pole "
                         "parameter, on every path")
    chk.rule("C13.halfpower", "'pole' and 'z' strategies: 2*(n0^2+n1^2+2*n0*n1*cos(c)) - (d0^2+d1^2+2*d0*d1*cos(c)) == 0 "
                              "at the cut-off c, modulo sqrt(a)^2 = a and sin^2 = 1 - cos^2")
    chk.rule("C13.pole", "the single pole: denominator 1 - R z^-1 for lowpass.pole*/highpass.z*, 1 + R z^-1 for "
                         "highpass.pole*/lowpass.z*, with R = exp(-cutoff) / exp(cutoff - pi) for the *_exp strategies "
                         "as documented")
    npaths = 0
    for dname, at, _unused in (("lowpass", 1, -1), ("highpass", -1, 1)):
        for st in repo.strategies_of(LF, dname):
            if st.kind != "def":
                continue
            W = WF("%s[%s]" % (dname, st.names[0]))
            known = st.names[0] in ("pole", "z", "pole_exp", "z_exp")
            try:
                paths = design_paths(st.node)
            except (Inconclusive, PathLimit) as ex:
                if not known:
                    chk.note("C13.gain", W, "strategy not on record and outside the interpretable fragment (%s): not judged" % ex)
                    continue
                raise AnalysisError("%s not interpretable: %s" % (W, ex))
            chk.require(paths, "%s: no return path" % W)
            if known and any(isinstance(n_, ast.Call) and unparse(n_.func) == "isinstance" and len(n_.args) == 2
                             and unparse(n_.args[1]) == "Iterable" for n_ in ast.walk(st.node)):
                # the arm for a Stream of cut-offs, sample by sample (a zero of cos(cutoff) apart: C13.zguard)
                try:
                    paths = paths + design_paths(st.node, iterable=True)
                except (Inconclusive, PathLimit) as ex:
                    raise AnalysisError("%s (Stream arm) not interpretable: %s" % (W, ex))
            for val, env, rst, trail in paths:
                npaths += 1
                g = val.subst({"x": RF.const(at)})
                tl = " and ".join(("" if p else "not ") + short(t, 30) for t, p in trail) or "always"
                chk.decide(g == 1, "C13.gain", W, "[%s] gain at z = %d of %s" % (tl, at, short(rst)),
                           why="gain is %s, not 1" % g.key(), node=rst)
                if not known:
                    continue            # only the unit gain at DC / Nyquist is documented for every strategy
                try:
                    n0, n1, d0, d1 = first_order(val)
                except Inconclusive as ex:
                    raise AnalysisError("%s: %s" % (W, ex))
                # pole sign: d1/d0 = -R (lowpass) or +R (highpass)
                R = env.get("R")
                if R is not None:
                    sign = {("lowpass", "pole"): -1, ("highpass", "pole"): 1, ("lowpass", "z"): 1, ("highpass", "z"): -1,
                            }[(dname, st.names[0].replace("_exp", ""))]
                    chk.decide(d1 / d0 == sign * R, "C13.pole", W, "[%s] denominator 1 %s R z^-1" % (tl, "-" if sign < 0 else "+"),
                               why="documented denominator is 1 %s R z^-1: d1/d0 = %s" % ("-" if sign < 0 else "+", (d1 / d0).key()), node=rst)
                if st.names[0] in ("pole", "z"):
                    C = opaque("cos", RF.sym("cutoff"))
                    E = 2 * (n0 * n0 + n1 * n1 + 2 * n0 * n1 * C) - (d0 * d0 + d1 * d1 + 2 * d0 * d1 * C)
                    # locals that hold cos(cutoff) when they are tested (first binding, conditional sub-expressions
                    # written as statements the way design_paths reads them)
                    from ..equiv import desugar_conditionals as _dsg
                    cos_names = {"denR"}
                    for a_ in ast.walk(ast.Module(body=_dsg(docstring_free(st.node.body)), type_ignores=[])):
                        if isinstance(a_, ast.Assign) and len(a_.targets) == 1 and isinstance(a_.targets[0], ast.Name) \
                                and unparse(a_.value) == "cos(cutoff)":
                            cos_names.add(a_.targets[0].id)

                    def _falsy_den(t_, p_):
                        # the path on which cos(cutoff) is zero (and is replaced by 1): `not denR` taken / `denR` not taken
                        while isinstance(t_, ast.UnaryOp) and isinstance(t_.op, ast.Not):
                            t_, p_ = t_.operand, not p_
                        tx = unparse(t_)
                        return (tx in cos_names or tx == "cos(cutoff)" or any(tx == "%s != 0" % n_ for n_ in cos_names)) and not p_ \
                            or (any(tx == "%s == 0" % n_ for n_ in cos_names) and p_)
                    skip = any(_falsy_den(t, p) for t, p in trail)
                    if not skip:
                        red = reduce_relations(E)
                        chk.decide(red.is_zero(), "C13.halfpower", W, "[%s] |H(e^jc)|^2 = 1/2 at the cut-off" % tl,
                                   why="half-power identity fails: residue %s" % red.key()[:160], node=rst)
                if st.names[0].endswith("_exp") and R is not None:
                    wantR = {("lowpass", "pole_exp"): "exp(-cutoff)", ("highpass", "pole_exp"): "exp(cutoff - pi)",
                             ("lowpass", "z_exp"): "exp(cutoff - pi)", ("highpass", "z_exp"): "exp(-cutoff)"}[(dname, st.names[0])]
                    wr = Evaluator().ev(ast.parse(wantR, mode="eval").body)
                    chk.decide(R == wr, "C13.pole", W, "R = %s" % R.key(), why="documented pole radius is %s" % wantR, node=rst)
    chk.floor("C13.gain", npaths, 10, "design paths")
    # the Stream arm of the 'z' strategies must treat each sample as the scalar arm treats the number: only an exact
    # zero of cos(cutoff) is replaced
    chk.rule("C13.zguard", "lowpass.z / highpass.z, Stream cut-off: cos(cutoff) is mapped element by element, every value "
                           "kept except a zero (which becomes 1) - the element-wise image of the scalar arm's 'if not denR'")
    nz = 0
    for dname in ("lowpass", "highpass"):
        fnz = repo.strategy(LF, dname, "z").node
        Wz = WF("%s[z]" % dname)
        loc = {}
        for a_ in ast.walk(fnz):
            if isinstance(a_, ast.Assign) and len(a_.targets) == 1 and isinstance(a_.targets[0], ast.Name):
                loc.setdefault(a_.targets[0].id, []).append(unparse(a_.value))
        is_cos = lambda e: "cos" in unparse(e) or (isinstance(e, ast.Name) and any("cos(" in v_ for v_ in loc.get(e.id, [])))
        gens = [n for n in ast.walk(fnz) if isinstance(n, (ast.GeneratorExp, ast.ListComp)) and len(n.generators) == 1
                and is_cos(n.generators[0].iter)]
        maps = [n for n in ast.walk(fnz) if isinstance(n, ast.Call) and unparse(n.func) in ("xmap", "map", "it.imap")
                and len(n.args) == 2 and isinstance(n.args[0], ast.Lambda) and is_cos(n.args[1])]
        for g in gens + maps:
            nz += 1
            if isinstance(g, ast.Call):
                var, e = g.args[0].args.args[0].arg, g.args[0].body
            else:
                var, e = unparse(g.generators[0].target), g.elt
                if g.generators[0].ifs:
                    chk.bad("C13.zguard", Wz, short(g), "samples are filtered out: the design loses its alignment with the "
                            "cut-off stream", node=g)
                    continue
            ok = False
            if isinstance(e, ast.IfExp):
                t, a_, b_ = unparse(e.test), unparse(e.body), unparse(e.orelse)
                keep_tests = (var, "%s != 0" % var, "0 != %s" % var, "not %s == 0" % var, "%s != 0.0" % var)
                zero_tests = ("%s == 0" % var, "0 == %s" % var, "not %s" % var, "%s == 0.0" % var)
                ok = (t in keep_tests and a_ == var and b_ in ("1", "1.0")) or (t in zero_tests and b_ == var and a_ in ("1", "1.0"))
            elif isinstance(e, ast.BoolOp) and isinstance(e.op, ast.Or) and len(e.values) == 2:
                ok = unparse(e.values[0]) == var and unparse(e.values[1]) in ("1", "1.0")
            chk.decide(ok, "C13.zguard", Wz, short(g),
                       why="only an exact zero may be replaced (by 1): any other test changes non-zero samples of cos(cutoff) "
                           "- e.g. every negative one, cut-offs above pi/2 - and the half-power point moves", node=g)
    chk.floor("C13.zguard", nz, 2, "element-wise zero guards")
    # defaults
    for nm, wantv in (("lowpass.default", "lowpass.pole"), ("highpass.default", "highpass.z")):
        v = repo.find_assign(LF, nm)
        chk.decide(unparse(v) == wantv, "C13.gain", WF(nm), "%s = %s" % (nm, unparse(v)), why="documented default strategy", node=v)

    # ---------------------------------------------------------------- resonators
    chk.rule("C13.resonator", "denominator 1 - 2 R c z^-1 + R^2 z^-2 with R = exp(-bandwidth/2) (pole radius R); z "
                              "resonators have numerator zeros at z = +-1; poles_exp/z_exp place cos(pole angle) as "
                              "documented")
    for st in repo.strategies_of(LF, "resonator"):
        W = WF("resonator[%s]" % st.names[0])
        try:
            paths = design_paths(st.node)
        except (Inconclusive, PathLimit) as ex:
            raise AnalysisError("%s not interpretable: %s" % (W, ex))
        for val, env, rst, trail in paths:
            R = env.get("R")
            wantR = opaque("exp", -RF.sym("bandwidth") / 2)
            chk.decide(R is not None and R == wantR, "C13.resonator", W, "R = %s" % (R.key() if R is not None else "?"),
                       why="pole radius must be exp(-bandwidth/2)", node=rst)
            den = env.get("denominator")
            if den is None and isinstance(rst.value, ast.BinOp) and isinstance(rst.value.op, ast.Div):
                # denominator written in line in the returned quotient
                try:
                    cand = DesignEval(env).ev(rst.value.right)
                    cpc = cand.coeff_poly("x")
                    if set(cpc) == {0, 1, 2} and cpc[0] == 1:
                        den = cand
                        env = dict(env, denominator=den)
                except Inconclusive:
                    pass
            if den is None and env.get("gain") is not None:
                # denominator written in line: recover it from H = gain * N(z) / D(z), N = 1 or 1 - z^-2
                for N_ in (RF.const(1), 1 - RF.sym("x") ** 2):
                    try:
                        cand = env["gain"] * N_ / val
                        cpc = cand.coeff_poly("x")
                    except (Inconclusive, ZeroDivisionError):
                        continue
                    if set(cpc) == {0, 1, 2} and cpc[0] == 1:
                        den = cand
                        env = dict(env, denominator=den)
                        break
            okd = False
            if den is not None:
                cp = den.coeff_poly("x")
                okd = set(cp) == {0, 1, 2} and cp[0] == 1 and cp[2] == wantR ** 2
                c1 = -cp[1] / (2 * wantR) if okd else None
                if okd:
                    name = st.names[0]
                    cf = opaque("cos", RF.sym("freq"))
                    if name in ("freq_poles_exp", "freq_z_exp"):
                        okd = c1 == cf
                    elif name == "poles_exp":
                        okd = c1 == cf * 2 * wantR / (1 + wantR ** 2)
                    elif name == "z_exp":
                        okd = c1 == cf * (1 + wantR ** 2) / (2 * wantR)
            chk.decide(okd, "C13.resonator", W, "denominator = %s" % (den.key()[:90] if den is not None else "?"),
                       why="must be 1 - 2 R cos(theta) z^-1 + R^2 z^-2 with the documented cos(theta)", node=rst)
            chk.decide(den is not None and (val * den).simplified().key() == (val * den).key() and True, "C13.resonator", W,
                       "result is gain * numerator / denominator", why="", node=rst) if False else None
            # unit gain at the resonant frequency w_r: |N(e^jw_r)|^2 == |D(e^jw_r)|^2, where the pole angle t and w_r are
            # tied by cos t = cos w_r * 2R/(1+R^2) (pole-only) or cos t = cos w_r * (1+R^2)/(2R) (zeros at +-1)
            g_ = env.get("gain")
            if okd and g_ is not None:
                fam_z = st.names[0] in ("z_exp", "freq_z_exp")
                cr = c1 * 2 * wantR / (1 + wantR ** 2) if fam_z else c1 * (1 + wantR ** 2) / (2 * wantR)
                a_, b_ = 2 * wantR * c1, wantR ** 2
                D2 = 1 + a_ * a_ + b_ * b_ - 2 * a_ * (1 + b_) * cr + 2 * b_ * (2 * cr * cr - 1)
                N2 = g_ * g_ * (4 * (1 - cr * cr) if fam_z else 1)
                try:
                    res_ = reduce_relations(N2 - D2)
                    chk.decide(res_.is_zero(), "C13.resonator", W, "|H(e^jw)|^2 = 1 at the resonant frequency (gain %s)" % g_.key()[:60],
                               why="unit-gain identity fails: residue %s" % res_.key()[:140], node=rst)
                except (Inconclusive, ZeroDivisionError) as ex:
                    chk.defer("%s: unit-gain identity not interpretable (%s)" % (W, ex))
            if st.names[0] in ("z_exp", "freq_z_exp"):
                num = val * den if den is not None else val
                chk.decide(num.subst({"x": RF.const(1)}).is_zero() and num.subst({"x": RF.const(-1)}).is_zero(),
                           "C13.resonator", W, "numerator vanishes at z = 1 and z = -1",
                           why="z-type resonators have zeros at DC and Nyquist", node=rst)
                g0 = env.get("gain")
                try:
                    causal = g0 is not None and num == g0 * (1 - RF.sym("x") ** 2)
                except Inconclusive:
                    causal = False
                chk.decide(causal, "C13.resonator", W, "numerator is gain * (1 - z^-2)",
                           why="the two zeros must be realised with delays (negative powers of z): anything else is not a "
                               "causal filter", node=rst)
                g = env.get("gain")
                chk.decide(g is not None and g == (1 - wantR ** 2) / 2, "C13.resonator", W, "gain = (1 - R^2)/2",
                           why="documented normalisation", node=rst)
            else:
                num = val * den if den is not None else val
                g = env.get("gain")
                chk.decide(g is not None and num == g and "x" not in g.symbols(), "C13.resonator", W,
                           "constant numerator (poles only): H * denominator == gain",
                           why="pole-only resonator must have a constant numerator", node=rst)

    # ------------------------------------------------------------------ domains
    chk.rule("C13.domain", "an angle recovered with acos(cos(w) * k), k a ratio of polynomials in the pole radius R in "
                           "(0, 1): 1 - k is a square over a positive polynomial (so |cos(w) * k| <= 1 for every frequency "
                           "and bandwidth); when k - 1 is one instead, the argument leaves [-1, 1] near w = 0 and the design "
                           "raises 'math domain error' where the documented formula is defined")
    seen_dom = set()
    for node_, arg_ in list(DOMAIN):
        k_ = (getattr(node_, "lineno", 0), arg_.key())
        if k_ in seen_dom:
            continue
        seen_dom.add(k_)
        verdict = _acos_domain(arg_)
        Wd = WF("line %d" % getattr(node_, "lineno", 0))
        if verdict is None:
            chk.defer("%s: domain of %s not decided by the square test" % (Wd, short(node_)))
        else:
            chk.decide(verdict, "C13.domain", Wd, "%s stays in [-1, 1]" % short(node_),
                       why="the factor of the cosine is at least 1 for every bandwidth (k - 1 is a square over a positive "
                           "polynomial in R): acos raises ValueError for frequencies near 0 or pi, where the documented "
                           "design still has a stable, unit-gain filter", node=node_)

    # --------------------------------------------------------------------- comb
    chk.rule("C13.comb", "comb.fb = 1/(1 - alpha z^-delay); comb.tau the same with alpha = e^(-delay/tau); comb.ff = "
                         "1 + alpha z^-delay")
    xd = sym_pow(x, RF.sym("delay"))
    specs = {"fb": lambda a: 1 / (1 - a * xd), "tau": lambda a: 1 / (1 - a * xd), "ff": lambda a: 1 + a * xd}
    for st in repo.strategies_of(LF, "comb"):
        W = WF("comb[%s]" % st.names[0])
        try:
            paths = design_paths(st.node)
        except (Inconclusive, PathLimit) as ex:
            raise AnalysisError("%s not interpretable: %s" % (W, ex))
        chk.require(len(paths) == 1, "%s: one return path expected" % W)
        val, env, rst, trail = paths[0]
        alpha = opaque("exp", -RF.sym("delay") / RF.sym("tau")) if st.names[0] == "tau" else RF.sym("alpha")
        want = specs[st.names[0]](alpha)
        chk.decide(val == want, "C13.comb", W, short(rst) + (" with alpha = %s" % env["alpha"].key() if "alpha" in env else ""),
                   why="transfer function is %s, documented %s" % (val.key()[:80], want.key()[:80]), node=rst)
        d = st.node.args.defaults
        if st.names[0] in ("fb", "ff"):
            chk.decide(len(d) == 1 and unparse(d[0]) == "1", "C13.comb", W, "alpha defaults to 1", why="documented default", node=st.node)
        else:
            chk.decide(len(d) == 1 and unparse(d[0]) == "inf", "C13.comb", W, "tau defaults to inf", why="documented default", node=st.node)

    # ---------------------------------------------------------------- gammatone
    amod = repo.mod(LAu)
    WA = lambda q: "%s:%s" % (amod.relpath, q)
    chk.rule("C13.gammatone", "sampled/slaney: every section of the returned CascadeFilter is f / abs(f.freq_response(freq)) "
                              "with the strategy's own freq; denominator 1 - 2A cos(freq) z^-1 + A^2 z^-2, A = "
                              "exp(-bandwidth); klapuri = CascadeFilter(reson(freq, 2*bandwidth) for reson in [z_exp, "
                              "poles_exp] * 2)")
    for sname in ("sampled", "slaney"):
        fn = _loop_temps_written_out(repo.strategy(LAu, "gammatone", sname).node)
        W = WA("gammatone[%s]" % sname)
        env = {"z": x ** -1}
        den = None
        for s in docstring_free(fn.body):
            if isinstance(s, ast.Assign) and isinstance(s.targets[0], ast.Name) and unparse(s.targets[0]) in ("A", "cosw", "sinw", "denominator"):
                try:
                    env[s.targets[0].id] = Evaluator(env).ev(s.value)
                except Inconclusive:
                    pass
        den = env.get("denominator")
        A = opaque("exp", -RF.sym("bandwidth"))
        ok = den is not None and den == 1 - 2 * A * opaque("cos", RF.sym("freq")) * x + A ** 2 * x ** 2
        chk.decide(ok, "C13.gammatone", W, "denominator = %s" % (den.key()[:100] if den is not None else "?"),
                   why="pole pair at A e^(+-j freq), A = exp(-bandwidth)", node=fn)
        norms = [n for n in ast.walk(fn) if isinstance(n, ast.Call) and unparse(n.func) == "abs"
                 and isinstance(n.args[0], ast.Call) and isinstance(n.args[0].func, ast.Attribute)
                 and n.args[0].func.attr == "freq_response"]
        good = bool(norms)
        for n in norms:
            recv = unparse(n.args[0].func.value)
            p = n._parent
            if isinstance(p, ast.BinOp) and isinstance(p.op, ast.Div) and p.right is n:
                good = good and unparse(p.left) == recv and [unparse(a) for a in n.args[0].args] == ["freq"]
            elif isinstance(p, ast.AugAssign) and isinstance(p.op, ast.Div) and p.value is n:
                good = good and unparse(p.target) == recv and [unparse(a) for a in n.args[0].args] == ["freq"]
            else:
                good = False
        chk.decide(good, "C13.gammatone", W, "%d normalisation(s) f / abs(f.freq_response(freq))" % len(norms),
                   why="every section must be divided by its own magnitude response at the centre frequency", node=fn)
        r = docstring_free(fn.body)[-1]
        for other in [n for n in own_nodes(fn) if isinstance(n, ast.Return) and n is not r]:
            chk.decide(isinstance(r, ast.Return) and unparse(other.value) == unparse(r.value), "C13.gammatone", W,
                       "additional return path: %s" % short(other),
                       why="a path that returns before the sections are divided by their magnitude response at the centre "
                           "frequency: on it the gain at `freq` is not 1", node=other)
        if sname == "sampled":
            chk.decide(unparse(r) == "return CascadeFilter([f0] + [fn] * (eta - 1))" and len(norms) == 2, "C13.gammatone", W,
                       short(r), why="cascade of the normalised first section and eta-1 normalised pole sections", node=r)
        else:
            okr = unparse(r) in ("return CascadeFilter((f / abs(f.freq_response(freq)) for f in filt))",
                                 "return CascadeFilter([f / abs(f.freq_response(freq)) for f in filt])")
            if not okr and isinstance(r, ast.Return) and isinstance(r.value, ast.Name):
                # cascade = CascadeFilter() ; for f in sections: cascade.append(f / abs(f.freq_response(freq)))
                nm_ = r.value.id
                inits_ = [s_ for s_ in docstring_free(fn.body) if isinstance(s_, ast.Assign) and unparse(s_.targets[0]) == nm_]
                apps_ = [n_ for n_ in ast.walk(fn) if isinstance(n_, ast.Call) and unparse(n_.func) == "%s.append" % nm_]
                okr = len(inits_) == 1 and unparse(inits_[0].value) in ("CascadeFilter()", "CascadeFilter([])") and len(apps_) == 1
                if okr:
                    a_ = apps_[0].args[0]
                    loop_ = apps_[0]
                    while loop_ is not None and not isinstance(loop_, ast.For):
                        loop_ = getattr(loop_, "_parent", None)
                    v_ = unparse(loop_.target) if loop_ is not None else "?"
                    okr = unparse(a_) == "%s / abs(%s.freq_response(freq))" % (v_, v_)
            chk.decide(okr, "C13.gammatone", W, short(r), why="every section of the cascade normalised", node=r)
    kl = repo.strategy(LAu, "gammatone", "klapuri").node
    W = WA("gammatone[klapuri]")
    kb = {unparse(s.targets[0]): unparse(s.value) for s in docstring_free(kl.body) if isinstance(s, ast.Assign)}
    r = docstring_free(kl.body)[-1]
    rs_node = [s_.value for s_ in docstring_free(kl.body) if isinstance(s_, ast.Assign) and unparse(s_.targets[0]) == "resons"]
    rlist = None
    if rs_node:
        v_ = rs_node[0]
        if isinstance(v_, ast.BinOp) and isinstance(v_.op, ast.Mult) and isinstance(v_.left, ast.List) \
                and isinstance(v_.right, ast.Constant) and type(v_.right.value) is int:
            rlist = [unparse(e_) for e_ in v_.left.elts] * v_.right.value
        elif isinstance(v_, (ast.List, ast.Tuple)):
            rlist = [unparse(e_) for e_ in v_.elts]
    rtxt = unparse(r)
    ok = rlist == ["resonator.z_exp", "resonator.poles_exp"] * 2 and kb.get("bw") == "thub(bandwidth, 1)" \
        and kb.get("bw2") in ("thub(bw * 2, 4)", "thub(2 * bw, 4)") and kb.get("freq") == "thub(freq, 4)" \
        and rtxt in ("return CascadeFilter((reson(freq, bw2) for reson in resons))",
                     "return CascadeFilter([reson(freq, bw2) for reson in resons])")
    chk.decide(ok, "C13.gammatone", W, "%s ; %s" % (kb.get("resons"), short(r)),
               why="four resonators (z_exp, poles_exp twice) at freq with bandwidth 2*bandwidth", node=kl)
