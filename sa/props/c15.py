"""C15  MultiKeyDict / StrategyDict stay coherent under any update history."""
import ast

from ..core import (AnalysisError, FuncTypes, unparse, short, canon, canon_call, base_name, own_nodes,
                    docstring_free)

EXPLANATION = (
    "Static analysis of MultiKeyDict and StrategyDict (lazy_core.py). Who-may-write: the three stores (_keys_dict, "
    "_inv_dict and the base dict reached through super().__setitem__/__delitem__) are written only inside "
    "MultiKeyDict.__init__, __setitem__ and __delitem__, anywhere in the package. Pairing: on the single path of "
    "__setitem__ the key->tuple map is written for every key of the final tuple, the value->tuple map and the base "
    "dict with that same tuple and value, after the overwritten keys were removed through MultiKeyDict.__delitem__; the "
    "final tuple is (existing keys of an equal value) + (new keys), de-duplicated keeping the last occurrence. "
    "__delitem__ removes the key from all three stores (KeyError from the first lookup propagates) and re-inserts the "
    "shortened tuple into all three only when it is non-empty. Lookups go through _keys_dict, iteration over _inv_dict "
    "(values). StrategyDict stores, sets the attribute for, and checks 'default' with the same key tuple; deletion "
    "drops the attribute only when it still equals the strategy and the default only when the strategy loses its last "
    "name; calling the dict calls self.default. Not decided: agreement with the map model over whole histories "
    "(an inductive argument over these per-operation facts, not carried out).")

UNDECIDED = ["model equivalence over operation histories (only the per-operation pairing is decided)"]

LC = "lazy_core"
STORES = ("_keys_dict", "_inv_dict")


def _store_writes(fn):
    out = []
    for n in own_nodes(fn):
        if isinstance(n, (ast.Assign, ast.AugAssign, ast.Delete)):
            tgts = n.targets if isinstance(n, (ast.Assign, ast.Delete)) else [n.target]
            for t in tgts:
                for x in ast.walk(t):
                    if isinstance(x, ast.Attribute) and x.attr in STORES and isinstance(x.ctx, (ast.Store, ast.Del)):
                        out.append((x.attr, n))
                    if isinstance(x, ast.Subscript) and isinstance(x.value, ast.Attribute) and x.value.attr in STORES \
                            and isinstance(x.ctx, (ast.Store, ast.Del)):
                        out.append((x.value.attr, n))
        elif isinstance(n, ast.Call) and isinstance(n.func, ast.Attribute):
            f = n.func
            if f.attr in ("pop", "update", "clear", "setdefault", "popitem") and isinstance(f.value, ast.Attribute) \
                    and f.value.attr in STORES:
                out.append((f.value.attr, n))
            if f.attr in ("__setitem__", "__delitem__", "update", "pop", "clear", "setdefault", "popitem") \
                    and isinstance(f.value, ast.Call) and unparse(f.value.func) == "super" \
                    and "MultiKeyDict" in unparse(f.value):
                out.append(("base", n))
            if unparse(f) in ("dict.__setitem__", "dict.__delitem__", "dict.update", "dict.pop", "dict.clear"):
                out.append(("base", n))
    return out


def run(chk, repo):
    mod = repo.mod(LC)
    W = lambda q: "%s:%s" % (mod.relpath, q)
    mk = repo.find(LC, "MultiKeyDict")

    chk.rule("C15.writers", "_keys_dict, _inv_dict and the base dict (super(MultiKeyDict, self).__setitem__/__delitem__, "
                            "dict.__setitem__ ...) are written only in MultiKeyDict.__init__/__setitem__/__delitem__")
    allowed = {"__init__", "__setitem__", "__delitem__"}
    nw = 0
    for m in repo.modules.values():
        for fn in ast.walk(m.tree):
            if not isinstance(fn, FuncTypes):
                continue
            ws = _store_writes(fn)
            if not ws:
                continue
            owner = getattr(fn, "_parent", None)
            in_mk = m.name == LC and isinstance(owner, ast.ClassDef) and owner.name == "MultiKeyDict"
            nw += 1
            chk.decide(in_mk and fn.name in allowed, "C15.writers", "%s:%s.%s" % (m.relpath, getattr(owner, "name", "?"), fn.name),
                       "writes %s" % sorted({w for w, _ in ws}),
                       why="a store written outside the three maintaining methods breaks the mutual consistency of the maps",
                       node=ws[0][1])
    chk.floor("C15.writers", nw, 3, "functions writing the stores")
    # dict mutators that bypass __setitem__ must not be relied upon inside the classes
    for cname in ("MultiKeyDict", "StrategyDict"):
        cls = repo.find(LC, cname)
        bad = [n for n in ast.walk(cls) if isinstance(n, ast.Call) and isinstance(n.func, ast.Attribute)
               and unparse(n.func.value) == "self" and n.func.attr in ("update", "pop", "popitem", "clear", "setdefault")]
        chk.decide(not bad, "C15.writers", W(cname), "no self.update/pop/clear/setdefault (they bypass __setitem__)",
                   why="C-level dict mutators do not maintain the key maps: %s" % [short(b) for b in bad[:2]], node=cls)

    chk.rule("C15.setitem", "MultiKeyDict.__setitem__ (single path): tuple-ise key; prepend the keys already holding an "
                            "equal value; de-duplicate keeping the last occurrence; remove overwritten keys through "
                            "MultiKeyDict.__delitem__; then write _keys_dict[k] = key for every k, _inv_dict[value] = "
                            "key, base[key] = value")
    si = repo.find(LC, "MultiKeyDict.__setitem__")
    sb = docstring_free(si.body)
    txt = [unparse(s) for s in sb]
    par = [a.arg for a in si.args.args]
    chk.require(par == ["self", "key", "value"], "MultiKeyDict.__setitem__ signature changed")
    want = [
        ("tuple-ise", "if not isinstance(key, tuple):\n    key = (key,)"),
        ("merge", "if value in self._inv_dict:\n    key = self._inv_dict[value] + key"),
        ("dedupe-init", "key_list = []"),
        ("dedupe-loop", "for k in reversed(key):\n    if k not in key_list:\n        key_list.append(k)"),
        ("dedupe-final", "key = tuple(reversed(key_list))"),
        ("remove", "for k in key:\n    if k in self._keys_dict:\n        MultiKeyDict.__delitem__(self, k)"),
        ("keys-map", "for k in key:\n    self._keys_dict[k] = key"),
        ("inv-map", "self._inv_dict[value] = key"),
        ("base", "super(MultiKeyDict, self).__setitem__(key, value)"),
    ]
    why = {
        "tuple-ise": "single keys must become 1-tuples",
        "merge": "keys already holding an equal value come first, the newly assigned ones last",
        "dedupe-init": "de-duplication list", "dedupe-loop": "the last occurrence of a repeated key wins",
        "dedupe-final": "order restored after de-duplication",
        "remove": "keys that are being overwritten must first leave their old value (through the base-class "
                  "__delitem__, so that subclasses' bookkeeping is not triggered)",
        "keys-map": "every key of the tuple must map to the tuple",
        "inv-map": "the value must map to the tuple", "base": "the tuple must map to the value",
    }
    pos = {}
    for name, t in want:
        alt = t.replace("super(MultiKeyDict, self)", "super()")
        idx = [i for i, x in enumerate(txt) if x == t or x == alt]
        pos[name] = idx[0] if len(idx) == 1 else None
        chk.decide(len(idx) == 1, "C15.setitem", W("MultiKeyDict.__setitem__"), "%s: %s" % (name, t.replace("\n", " ")),
                   why=why[name] + (" (statement not found)" if not idx else " (found %d times)" % len(idx)), node=si)
    order = [pos[n] for n, _ in want]
    chk.decide(None not in order and order == sorted(order) and len(sb) == len(want), "C15.setitem",
               W("MultiKeyDict.__setitem__"), "the %d steps occur once, in this order, and nothing else" % len(want),
               why="merge, de-duplication, removal and the three writes must happen in this order (found order %s, %d "
                   "statements)" % (order, len(sb)), node=si)

    chk.rule("C15.delitem", "MultiKeyDict.__delitem__: lookups first (KeyError propagates); deletes _keys_dict[key], "
                            "_inv_dict[value], base[key_tuple]; iff the shortened tuple is non-empty re-inserts it into "
                            "all three stores")
    di = repo.find(LC, "MultiKeyDict.__delitem__")
    db = docstring_free(di.body)
    dt = [unparse(s) for s in db]
    want_d = ["key_tuple = self._keys_dict[key]", "value = self[key]", "new_key = tuple((k for k in key_tuple if k != key))",
              "del self._keys_dict[key]", "del self._inv_dict[value]", "super(MultiKeyDict, self).__delitem__(key_tuple)"]
    for i, t in enumerate(want_d):
        alt = t.replace("super(MultiKeyDict, self)", "super()")
        chk.decide(i < len(dt) and dt[i] in (t, alt), "C15.delitem", W("MultiKeyDict.__delitem__"), t,
                   why="step %d of the deletion is '%s'" % (i + 1, dt[i] if i < len(dt) else "<missing>"), node=di)
    tail = db[len(want_d):]
    ok = len(tail) == 1 and isinstance(tail[0], ast.If) and unparse(tail[0].test) in ("len(new_key) > 0", "new_key", "len(new_key) >= 1")
    if ok:
        tb = [unparse(s) for s in tail[0].body]
        ok = tb in (["for k in new_key:\n    self._keys_dict[k] = new_key", "self._inv_dict[value] = new_key",
                     "super(MultiKeyDict, self).__setitem__(new_key, value)"],
                    ["for k in new_key:\n    self._keys_dict[k] = new_key", "self._inv_dict[value] = new_key",
                     "super().__setitem__(new_key, value)"]) and not tail[0].orelse
    chk.decide(ok, "C15.delitem", W("MultiKeyDict.__delitem__"), "re-insertion of the shortened tuple under "
               + (unparse(tail[0].test) if tail and isinstance(tail[0], ast.If) else "?"),
               why="remaining keys must keep their value: all three stores rewritten with the shortened tuple, only when "
                   "it is non-empty", node=di)
    tries = [n for n in ast.walk(di) if isinstance(n, ast.Try)]
    chk.decide(not tries, "C15.delitem", W("MultiKeyDict.__delitem__"), "no try/except: deleting a missing key raises KeyError",
               why="KeyError must reach the caller", node=di)

    chk.rule("C15.lookup", "__init__ creates both maps before filling through self[key] = value; __getitem__ resolves a "
                           "key through _keys_dict (tuples go straight to the base dict); __iter__ iterates the values; "
                           "key2keys / value2keys read the maps")
    ini = repo.find(LC, "MultiKeyDict.__init__")
    it = [unparse(s) for s in docstring_free(ini.body)]
    ok = it[:3] == ["self._keys_dict = {}", "self._inv_dict = {}", "super(MultiKeyDict, self).__init__()"] \
        and it[3] == "for key, value in iteritems(dict(*args, **kwargs)):\n    self[key] = value"
    chk.decide(ok, "C15.lookup", W("MultiKeyDict.__init__"), " ; ".join(it)[:150],
               why="constructor must start empty and insert every pair through __setitem__", node=ini)
    gi = repo.find(LC, "MultiKeyDict.__getitem__")
    gt = [unparse(s) for s in docstring_free(gi.body)]
    ok = gt == ["if isinstance(key, tuple):\n    return super(MultiKeyDict, self).__getitem__(key)",
                "return super(MultiKeyDict, self).__getitem__(self._keys_dict[key])"]
    chk.decide(ok, "C15.lookup", W("MultiKeyDict.__getitem__"), gt[-1], why="d[k] is the value stored under k's tuple", node=gi)
    for q, wantr in (("__iter__", "return iter(self._inv_dict)"), ("key2keys", "return self._keys_dict[key]"),
                     ("value2keys", "return self._inv_dict.get(value, tuple())")):
        fn = repo.find(LC, "MultiKeyDict." + q)
        r = docstring_free(fn.body)[-1]
        chk.decide(unparse(r) == wantr, "C15.lookup", W("MultiKeyDict." + q), short(r), why="expected '%s'" % wantr, node=r)

    chk.rule("C15.strategy", "StrategyDict: __setitem__ deletes each key first (KeyError ignored), stores under the key "
                             "tuple, sets every key as attribute, default = first strategy stored; __delitem__ drops the "
                             "attribute only if it still is the strategy and the default only when the strategy loses its "
                             "last name; __call__ calls self.default; iteration over the strategies")
    ss = repo.find(LC, "StrategyDict.__setitem__")
    st = [unparse(s) for s in docstring_free(ss.body)]
    want_s = ["keys = key if isinstance(key, tuple) else (key,)",
              "for k in keys:\n    try:\n        del self[k]\n    except KeyError:\n        pass",
              "super(StrategyDict, self).__setitem__(keys, value)",
              "for k in keys:\n    setattr(self, k, value)",
              "if 'default' not in vars(self):\n    self.default = value"]
    for i, t in enumerate(want_s):
        alt = t.replace("super(StrategyDict, self)", "super()")
        chk.decide(i < len(st) and st[i] in (t, alt), "C15.strategy", W("StrategyDict.__setitem__"), t.replace("\n", " "),
                   why="step %d is '%s'" % (i + 1, (st[i] if i < len(st) else "<missing>").replace("\n", " ")), node=ss)
    chk.decide(len(st) == len(want_s), "C15.strategy", W("StrategyDict.__setitem__"), "%d steps" % len(st),
               why="store, attributes and default must use the same key tuple, nothing else", node=ss)
    sd = repo.find(LC, "StrategyDict.__delitem__")
    dt2 = [unparse(s) for s in docstring_free(sd.body)]
    want_d2 = ["keys = self.key2keys(key)", "value = self[keys]", "super(StrategyDict, self).__delitem__(key)",
               "if hasattr(self, key) and getattr(self, key) == value:\n    super(StrategyDict, self).__delattr__(key)",
               "if len(keys) == 1 and value == self.default:\n    super(StrategyDict, self).__delattr__('default')"]
    for i, t in enumerate(want_d2):
        alt = t.replace("super(StrategyDict, self)", "super()")
        chk.decide(i < len(dt2) and dt2[i] in (t, alt), "C15.strategy", W("StrategyDict.__delitem__"), t.replace("\n", " "),
                   why="step %d is '%s'" % (i + 1, (dt2[i] if i < len(dt2) else "<missing>").replace("\n", " ")), node=sd)
    for q, wantr in (("__call__", "return self.default(*args, **kwargs)"), ("__iter__", "return itervalues(self)")):
        fn = repo.find(LC, "StrategyDict." + q)
        r = docstring_free(fn.body)[-1]
        chk.decide(unparse(r) == wantr, "C15.strategy", W("StrategyDict." + q), short(r), why="expected '%s'" % wantr, node=r)
    dec = repo.find(LC, "StrategyDict.strategy.decorator")
    dtx = unparse(dec)
    ok = "self[names] = func" in dtx and dtx.rstrip().endswith("return self") and "func.__name__ = str(names[0])" in dtx
    chk.decide(ok, "C15.strategy", W("StrategyDict.strategy"), "decorator stores func under all names and returns the dict",
               why="registration must go through __setitem__ with the whole name tuple", node=dec)
    da = repo.find(LC, "StrategyDict.__delattr__")
    dtx = [unparse(s) for s in docstring_free(da.body)]
    ok = dtx == ["try:\n    if self[attr] == getattr(self, attr):\n        del self[attr]\n    else:\n        setattr(self, attr, self[attr])\nexcept KeyError:\n    super(StrategyDict, self).__delattr__(attr)"]
    chk.decide(ok, "C15.strategy", W("StrategyDict.__delattr__"), "del attribute of a strategy deletes the item too",
               why="attribute and item must disappear together (or the attribute be restored)", node=da)
