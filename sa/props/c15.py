"""C15  MultiKeyDict / StrategyDict stay coherent under any update history."""
import ast

from ..core import (AnalysisError, FuncTypes, unparse, short, canon, canon_call, base_name, own_nodes,
                    docstring_free)

EXPLANATION = (
    "Static analysis of MultiKeyDict and StrategyDict (lazy_core.py). Who-may-write: the three stores (_keys_dict, "
    "_inv_dict and the base dict reached through super().__setitem__/__delitem__) are written only inside "
    "MultiKeyDict.__init__, __setitem__ and __delitem__, anywhere in the package. Pairing: on the single path of "
    "__setitem__ the key->tuple map is written for every key of the final tuple, the value->tuple map and the base "
    "dict with that same tuple and value, after the overwritten keys were removed through MultiKeyDict.__delitem__; the "
    "final tuple is (existing keys of an equal value) + (new keys), de-duplicated keeping the last occurrence. "
    "__delitem__ removes the key from all three stores (KeyError from the first lookup propagates) and re-inserts the "
    "shortened tuple into all three only when it is non-empty. Lookups go through _keys_dict, iteration over _inv_dict "
    "(values). StrategyDict stores, sets the attribute for, and checks 'default' with the same key tuple; deletion "
    "drops the attribute only when it still equals the strategy and the default only when the strategy loses its last "
    "name; calling the dict calls self.default. Not decided: agreement with the map model over whole histories "
    "(an inductive argument over these per-operation facts, not carried out).")

UNDECIDED = ["model equivalence over operation histories (only the per-operation pairing is decided)"]

LC = "lazy_core"
STORES = ("_keys_dict", "_inv_dict")


def _store_writes(fn):
    out = []
    for n in own_nodes(fn):
        if isinstance(n, (ast.Assign, ast.AugAssign, ast.Delete)):
            tgts = n.targets if isinstance(n, (ast.Assign, ast.Delete)) else [n.target]
            for t in tgts:
                for x in ast.walk(t):
                    if isinstance(x, ast.Attribute) and x.attr in STORES and isinstance(x.ctx, (ast.Store, ast.Del)):
                        out.append((x.attr, n))
                    if isinstance(x, ast.Subscript) and isinstance(x.value, ast.Attribute) and x.value.attr in STORES \
                            and isinstance(x.ctx, (ast.Store, ast.Del)):
                        out.append((x.value.attr, n))
        elif isinstance(n, ast.Call) and isinstance(n.func, ast.Attribute):
            f = n.func
            if f.attr in ("pop", "update", "clear", "setdefault", "popitem") and isinstance(f.value, ast.Attribute) \
                    and f.value.attr in STORES:
                out.append((f.value.attr, n))
            if f.attr in ("__setitem__", "__delitem__", "update", "pop", "clear", "setdefault", "popitem") \
                    and isinstance(f.value, ast.Call) and unparse(f.value.func) == "super" \
                    and "MultiKeyDict" in unparse(f.value):
                out.append(("base", n))
            if unparse(f) in ("dict.__setitem__", "dict.__delitem__", "dict.update", "dict.pop", "dict.clear"):
                out.append(("base", n))
    return out


# --------------------------------------------------------------------------- StrategyDict: effects per scenario
def _is_super(call, meth, classes=("StrategyDict",)):
    """super(C, self).meth(..) / super().meth(..): the arguments; Base.meth(self, ..) for the bases named; else None"""
    if not (isinstance(call, ast.Call) and isinstance(call.func, ast.Attribute) and call.func.attr == meth) or call.keywords:
        return None
    v = call.func.value
    if isinstance(v, ast.Call) and isinstance(v.func, ast.Name) and v.func.id == "super" and not v.keywords:
        if not v.args or (len(v.args) == 2 and unparse(v.args[0]) in classes and unparse(v.args[1]) == "self"):
            return list(call.args)
    if isinstance(v, ast.Name) and v.id in ("MultiKeyDict", "dict", "object") and call.args and unparse(call.args[0]) == "self":
        return list(call.args[1:])
    return None


class _Roles(ast.NodeTransformer):
    """expressions (and the locals bound once to them) that stand for a documented quantity are replaced by a role
    name, innermost first"""
    def __init__(self, matchers):
        self.matchers = matchers        # [(role, predicate(node) -> bool)]
        self.names = {}                 # local -> role
        self.sites = []                 # (role, lineno) of every evaluation of a role expression

    def role_of(self, node):
        for role, pred in self.matchers:
            if pred(node):
                return role
        return None

    def generic_visit(self, node):
        node = ast.NodeTransformer.generic_visit(self, node)
        if isinstance(node, ast.expr) and not isinstance(getattr(node, "ctx", None), (ast.Store, ast.Del)):
            r = self.role_of(node)
            if r is not None:
                self.sites.append((r, getattr(node, "lineno", 0)))
                return ast.copy_location(ast.Name(id=r, ctx=ast.Load()), node)
        return node

    def visit_Name(self, node):
        if node.id in self.names:
            return ast.copy_location(ast.Name(id=self.names[node.id], ctx=node.ctx), node)
        return node


def _single_assigned(fn):
    cnt = {}
    for n in ast.walk(fn):
        if isinstance(n, ast.Name) and isinstance(n.ctx, (ast.Store, ast.Del)):
            cnt[n.id] = cnt.get(n.id, 0) + 1
    return {k for k, v in cnt.items() if v == 1}


def _with_roles(fn, matchers):
    """copy of the body with role expressions and the single-assignment locals holding them renamed; (body, roles)"""
    body = [ast.parse(unparse(s)).body[0] for s in docstring_free(fn.body)]
    once = _single_assigned(fn)
    tr = _Roles(matchers)
    new = body
    for _ in range(5):
        tr.sites = []
        new = [tr.visit(ast.parse(unparse(s)).body[0]) for s in body]
        grew = False
        for s in ast.walk(ast.Module(body=new, type_ignores=[])):
            if isinstance(s, ast.Assign) and len(s.targets) == 1 and isinstance(s.targets[0], ast.Name) \
                    and isinstance(s.value, ast.Name) and s.value.id.endswith("__") and s.targets[0].id in once \
                    and s.targets[0].id not in tr.names and not s.targets[0].id.endswith("__"):
                tr.names[s.targets[0].id] = s.value.id
                grew = True
        if not grew:
            break
    for s in new:
        ast.fix_missing_locations(s)
    return new, tr


def _role_copy(s):
    """``K__ = K__``: the statement that bound a local to the role"""
    return isinstance(s, ast.Assign) and len(s.targets) == 1 and isinstance(s.targets[0], ast.Name) \
        and isinstance(s.value, ast.Name) and s.value.id == s.targets[0].id and s.value.id.endswith("__")


def _drop_role_copies(stmts):
    class T(ast.NodeTransformer):
        def visit_Assign(self, node):
            return None if _role_copy(node) else node
    out = []
    for s in stmts:
        if _role_copy(s):
            continue
        s = T().visit(ast.parse(unparse(s)).body[0])
        ast.fix_missing_locations(s)
        out.append(s)
    return out


def _eq_truths(truths, a, b, val):
    truths["%s == %s" % (a, b)] = val
    truths["%s == %s" % (b, a)] = val
    truths["%s != %s" % (a, b)] = not val
    truths["%s != %s" % (b, a)] = not val


def _mentions_role(node, role):
    return any(isinstance(n, ast.Name) and n.id == role for n in ast.walk(node))


def _local_def(s):
    """``name = <expression without calls other than len / isinstance / vars / hasattr>``: bookkeeping, no effect"""
    if not (isinstance(s, ast.Assign) and all(isinstance(t, ast.Name) for t in s.targets)):
        return False
    for n in ast.walk(s.value):
        if isinstance(n, ast.Call) and not (isinstance(n.func, ast.Name) and n.func.id in (
                "len", "isinstance", "vars", "hasattr", "tuple", "bool")):
            return False
    return True


def _strategy_delitem(chk, repo, W):
    from .. import dtable
    rule = "C15.strategy"
    where = W("StrategyDict.__delitem__")
    fn = repo.find(LC, "StrategyDict.__delitem__")
    par = [a.arg for a in fn.args.args]
    chk.require(len(par) == 2 and par[0] == "self", "StrategyDict.__delitem__ signature changed")
    key = par[1]

    def is_K(n):
        if isinstance(n, ast.Call) and unparse(n.func) == "self.key2keys" and [unparse(a) for a in n.args] == [key] \
                and not n.keywords:
            return True
        return isinstance(n, ast.Subscript) and unparse(n.value) == "self._keys_dict" and unparse(n.slice) == key

    def is_V(n):
        if isinstance(n, ast.Subscript) and unparse(n.value) == "self" and unparse(n.slice) in (key, "K__"):
            return True
        if isinstance(n, ast.Call):
            a = _is_super(n, "__getitem__")
            if a is None and unparse(n.func) == "self.__getitem__" and not n.keywords:
                a = list(n.args)
            return a is not None and len(a) == 1 and unparse(a[0]) in (key, "K__")
        return False
    body, tr = _with_roles(fn, [("K__", is_K), ("V__", is_V)])
    # top-level position of the deletion and of every evaluation of the two lookups
    def is_delete(s):
        if isinstance(s, ast.Expr):
            a = _is_super(s.value, "__delitem__")
            return a is not None and [unparse(x) for x in a] == [key]
        return False
    dels = [i for i, s in enumerate(body) if is_delete(s)]
    nested = [s for top in body for s in ast.walk(top) if s is not top and isinstance(s, ast.stmt) and is_delete(s)]
    chk.decide(len(dels) == 1 and not nested, rule, where, "the item is deleted through the base class, once, on every path",
               why="super().__delitem__(key) must run unconditionally (found %d at top level, %d nested)" % (len(dels), len(nested)),
               node=fn)
    if len(dels) != 1 or nested:
        return
    d = dels[0]
    # the original body decides where the lookups are evaluated
    orig = docstring_free(fn.body)
    late = []
    for i, s in enumerate(orig):
        for n in ast.walk(s):
            if isinstance(n, ast.expr) and (is_K(n) or (isinstance(n, ast.Subscript) and unparse(n.value) == "self"
                                                      and not isinstance(n.ctx, (ast.Store, ast.Del)))
                                            or (isinstance(n, ast.Call) and unparse(n.func) in ("self.__getitem__",))):
                if i >= d:
                    late.append(short(n))
    chk.decide(not late, rule, where, "names and strategy are looked up before the item is deleted",
               why="after the deletion the key is gone: %s would raise KeyError" % late[:2], node=orig[d])
    n_k = sum(1 for r, _ in tr.sites if r == "K__")
    n_v = sum(1 for r, _ in tr.sites if r == "V__")
    if not n_v:
        chk.defer("%s: no lookup of the strategy being deleted was recognised" % where)
        return
    after = body[d + 1:]
    before = body[:d]
    for s in before:
        if not _local_def(s):
            chk.defer("%s: statement before the deletion is not a plain lookup: %s" % (where, short(s)))
            return
    a_has = "hasattr(self, %s)" % key
    a_get = "getattr(self, %s)" % key
    table = []
    for has in (True, False):
        for same in ((True, False) if has else (None,)):
            for nk in (1, 2):
                for isdef in (True, False):
                    table.append((has, same, nk, isdef))
    for has, same, nk, isdef in table:
        truths = {a_has: has}
        raising = set()
        if has:
            _eq_truths(truths, a_get, "V__", same)
        else:
            for t in ("%s == V__" % a_get, "V__ == %s" % a_get, "%s != V__" % a_get, "V__ != %s" % a_get):
                raising.add(t)
        _eq_truths(truths, "V__", "self.default", isdef)
        F = dtable.Facts(truths=truths, lens={"K__": nk}, raising=raising)
        label = "attribute %s, %s name(s) left, strategy %s the default" % (
            "absent" if not has else ("still the strategy" if same else "overwritten by hand"), nk,
            "is" if isdef else "is not")
        try:
            wk = dtable.walk(_drop_role_copies(before + after), F, where)
        except AnalysisError as ex:
            chk.defer(str(ex))
            return
        if wk.end == "raise":
            chk.decide(False, rule, where, label, why="the comparison with the attribute is evaluated although the "
                       "attribute does not exist (AttributeError): %s" % short(wk.raised_in_guard), node=fn)
            continue
        n_attr = n_def = 0
        unknown = None
        for s in wk.ran:
            if _local_def(s):
                continue
            a = _is_super(s.value, "__delattr__") if isinstance(s, ast.Expr) else None
            if a is not None and len(a) == 1:
                t = unparse(a[0])
                if t == key:
                    n_attr += 1
                    continue
                if t == "'default'":
                    n_def += 1
                    continue
            unknown = s
            break
        if unknown is not None:
            chk.defer("%s: effect not recognised: %s" % (where, short(unknown)))
            return
        want_attr = 1 if (has and same) else 0
        want_def = 1 if (nk == 1 and isdef) else 0
        chk.decide(n_attr == want_attr, rule, where, label + ": attribute %s" % ("dropped" if want_attr else "kept"),
                   why="the attribute goes only when it still is the strategy (super().__delattr__(%s) runs %d time(s))"
                       % (key, n_attr), node=fn)
        chk.decide(n_def == want_def, rule, where, label + ": default %s" % ("dropped" if want_def else "kept"),
                   why="the default goes only when the default strategy loses its last name (super().__delattr__('default') "
                       "runs %d time(s))" % n_def, node=fn)


def _strategy_delattr(chk, repo, W):
    from .. import dtable
    rule = "C15.strategy"
    where = W("StrategyDict.__delattr__")
    fn = repo.find(LC, "StrategyDict.__delattr__")
    par = [a.arg for a in fn.args.args]
    chk.require(len(par) == 2 and par[0] == "self", "StrategyDict.__delattr__ signature changed")
    attr = par[1]

    def is_V(n):
        if isinstance(n, ast.Subscript) and unparse(n.value) == "self" and unparse(n.slice) == attr \
                and not isinstance(n.ctx, (ast.Store, ast.Del)):
            return True
        return isinstance(n, ast.Call) and unparse(n.func) == "self.__getitem__" and [unparse(a) for a in n.args] == [attr]
    orig = docstring_free(fn.body)
    tries = [s for s in orig if isinstance(s, ast.Try)]
    if len(orig) != 1 or len(tries) != 1 or tries[0].finalbody:
        # the lookup outside a try: KeyError would escape for plain attributes
        outside = [short(n) for s in orig if not isinstance(s, ast.Try) for n in ast.walk(s) if isinstance(n, ast.expr) and is_V(n)]
        if outside:
            chk.decide(False, rule, where, "the strategy lookup is guarded by try / except KeyError",
                       why="%s outside the try: deleting a plain attribute would raise KeyError" % outside[0], node=fn)
        else:
            chk.defer("%s: body is not a single try statement" % where)
        return
    body, tr = _with_roles(fn, [("V__", is_V)])
    t = body[0]
    caught = []
    for h in t.handlers:
        names = [] if h.type is None else ([unparse(e) for e in h.type.elts] if isinstance(h.type, ast.Tuple) else [unparse(h.type)])
        caught.append((names, h))
    key_handlers = [h for names, h in caught if not names or set(names) & {"KeyError", "LookupError", "Exception"}]
    chk.decide(len(key_handlers) >= 1, rule, where, "KeyError of the strategy lookup is handled",
               why="deleting an attribute that is no strategy must fall back to the plain deletion", node=fn)
    if not key_handlers:
        return
    h = key_handlers[0]
    hb = [s for s in h.body if not isinstance(s, ast.Pass)]
    ok = len(hb) == 1 and isinstance(hb[0], ast.Expr) and (_is_super(hb[0].value, "__delattr__") or [None]) \
        and [unparse(a) for a in (_is_super(hb[0].value, "__delattr__") or [])] == [attr]
    chk.decide(ok, rule, where, "no such strategy: plain attribute deletion",
               why="the handler must delete the attribute through the base class: %s" % "; ".join(short(s) for s in hb), node=h)
    a_get = "getattr(self, %s)" % attr
    first_eval = None
    for s in t.body:
        if _mentions_role(s, "V__"):
            first_eval = s
            break
        if not _local_def(s):
            break
    chk.decide(first_eval is not None, rule, where, "the strategy lookup is the first thing the try block does",
               why="KeyError must be raised before anything is changed", node=fn)
    for same in (True, False):
        truths = {}
        _eq_truths(truths, "V__", a_get, same)
        F = dtable.Facts(truths=truths)
        label = "attribute %s the strategy" % ("still is" if same else "is no longer")
        try:
            wk = dtable.walk(_drop_role_copies(list(t.body) + list(t.orelse)), F, where)
        except AnalysisError as ex:
            chk.defer(str(ex))
            return
        n_del = n_set = 0
        for s in wk.ran:
            if _local_def(s):
                continue
            if isinstance(s, ast.Delete) and [unparse(x) for x in s.targets] == ["self[%s]" % attr]:
                n_del += 1
                continue
            if isinstance(s, ast.Expr) and isinstance(s.value, ast.Call):
                c = s.value
                if unparse(c.func) == "self.__delitem__" and [unparse(a) for a in c.args] == [attr]:
                    n_del += 1
                    continue
                if unparse(c.func) == "setattr" and [unparse(a) for a in c.args] == ["self", attr, "V__"] and not c.keywords:
                    n_set += 1
                    continue
                a = _is_super(c, "__setattr__")
                if a is not None and [unparse(x) for x in a] == [attr, "V__"]:
                    n_set += 1
                    continue
            if isinstance(s, ast.Assign) and [unparse(x) for x in s.targets] == ["self.__dict__[%s]" % attr] \
                    and unparse(s.value) == "V__":
                n_set += 1
                continue
            chk.defer("%s: effect not recognised: %s" % (where, short(s)))
            return
        chk.decide((n_del, n_set) == ((1, 0) if same else (0, 1)), rule, where,
                   label + (": item and attribute deleted together" if same else ": the attribute is put back"),
                   why="del of a strategy attribute removes the strategy, an overwritten attribute is restored from the item "
                       "(deletions %d, restorations %d)" % (n_del, n_set), node=fn)


def _strategy_setitem(chk, repo, W):
    from .. import dtable
    rule = "C15.strategy"
    where = W("StrategyDict.__setitem__")
    fn = repo.find(LC, "StrategyDict.__setitem__")
    par = [a.arg for a in fn.args.args]
    chk.require(len(par) == 3 and par[0] == "self", "StrategyDict.__setitem__ signature changed")
    key, value = par[1:]
    body = docstring_free(fn.body)
    a_def = ["'default' in vars(self)", "'default' in self.__dict__", "hasattr(self, 'default')"]
    # deleting the old entries may remove the default: its presence is tested afterwards
    purge_at = [i for i, s in enumerate(body) if any(isinstance(n, ast.Delete) and any(
        isinstance(t, ast.Subscript) and unparse(t.value) == "self" for t in n.targets) for n in ast.walk(s))]
    early = []
    for i, s in enumerate(body):
        for n in ast.walk(s):
            if isinstance(n, ast.expr) and unparse(n) in a_def + [t.replace(" in ", " not in ") for t in a_def]:
                if purge_at and i <= max(purge_at):
                    early.append(short(n))
    chk.decide(not early, rule, where, "the presence of a default is tested after the old entries were deleted",
               why="deleting a name may take the default with it: %s is evaluated too early" % early[:1], node=fn)
    for is_tuple in (True, False):
        for has_default in (True, False):
            truths = {}
            for t in a_def:
                truths[t] = has_default
                truths[t.replace(" in ", " not in ")] = not has_default
            F = dtable.Facts(kinds={key: {"tuple"} if is_tuple else {"str"}}, truths=truths)
            label = "%s key, default %s" % ("tuple" if is_tuple else "single", "present" if has_default else "absent")
            try:
                wk = dtable.walk(body, F, where)
            except AnalysisError as ex:
                chk.defer(str(ex))
                return
            # the names tuple: locals whose value is the key (tuple) / (key,) (single)
            N = {key} if is_tuple else set()
            lit = "(%s,)" % key
            events = []
            ok_shape = True
            for s in wk.ran:
                txt = None
                if isinstance(s, ast.Assign) and len(s.targets) == 1 and isinstance(s.targets[0], ast.Name):
                    v = unparse(s.value)
                    nm = s.targets[0].id
                    if v in N or (not is_tuple and v in (lit, "tuple([%s])" % key, "tuple((%s,))" % key)) \
                            or (is_tuple and v in ("tuple(%s)" % key,)):
                        N.add(nm)
                        continue
                    if _local_def(s) and nm not in N and nm not in (key, value):
                        continue
                    if nm == key and not is_tuple and v == lit:
                        N.add(key)
                        continue
                is_n = lambda e: unparse(e) in N or (not is_tuple and unparse(e) == lit)
                if isinstance(s, ast.For) and isinstance(s.target, ast.Name) and is_n(s.iter) and not s.orelse:
                    k = s.target.id
                    b = [x for x in s.body if not isinstance(x, ast.Pass)]
                    if len(b) == 1 and isinstance(b[0], ast.Try) and not b[0].orelse and not b[0].finalbody \
                            and [unparse(x) for x in b[0].body] == ["del self[%s]" % k] and len(b[0].handlers) == 1 \
                            and b[0].handlers[0].type is not None and unparse(b[0].handlers[0].type) == "KeyError" \
                            and all(isinstance(x, ast.Pass) for x in b[0].handlers[0].body):
                        events.append("purge")
                        continue
                    if len(b) == 1 and isinstance(b[0], ast.Expr) and isinstance(b[0].value, ast.Call) \
                            and unparse(b[0].value.func) == "setattr" and not b[0].value.keywords \
                            and [unparse(a) for a in b[0].value.args] == ["self", k, value]:
                        events.append("attrs")
                        continue
                if isinstance(s, ast.Expr):
                    a = _is_super(s.value, "__setitem__")
                    if a is not None and len(a) == 2 and unparse(a[1]) == value:
                        events.append("store" if is_n(a[0]) else "store-other:" + unparse(a[0]))
                        continue
                if isinstance(s, ast.Assign) and [unparse(x) for x in s.targets] == ["self.default"] and unparse(s.value) == value:
                    events.append("default")
                    continue
                if isinstance(s, ast.Expr) and isinstance(s.value, ast.Call) and unparse(s.value.func) == "setattr" \
                        and [unparse(a) for a in s.value.args] == ["self", "'default'", value]:
                    events.append("default")
                    continue
                events.append("?" + short(s))
                ok_shape = False
            unknown = [e for e in events if e.startswith("?")]
            known_partial = [e for e in events if not e.startswith("?")]
            want = ["purge", "store", "attrs"] + ([] if has_default else ["default"])
            if unknown and sorted(known_partial) == sorted(want):
                chk.defer("%s: statement not recognised: %s" % (where, unknown[0][1:]))
                return
            pos = {e: i for i, e in enumerate(events)}
            ok = sorted(events) == sorted(want) and pos["purge"] == 0
            chk.decide(ok, rule, where, label + ": " + " ; ".join(want),
                       why="every name is first deleted (KeyError ignored), then the strategy is stored under the whole name "
                           "tuple, every name becomes an attribute and the default is set only when there is none; found: %s"
                           % " ; ".join(events), node=fn)


def run(chk, repo):
    mod = repo.mod(LC)
    W = lambda q: "%s:%s" % (mod.relpath, q)
    mk = repo.find(LC, "MultiKeyDict")

    chk.rule("C15.writers", "_keys_dict, _inv_dict and the base dict (super(MultiKeyDict, self).__setitem__/__delitem__, "
                            "dict.__setitem__ ...) are written only in MultiKeyDict.__init__/__setitem__/__delitem__")
    allowed = {"__init__", "__setitem__", "__delitem__"}
    nw = 0
    for m in repo.modules.values():
        for fn in ast.walk(m.tree):
            if not isinstance(fn, FuncTypes):
                continue
            ws = _store_writes(fn)
            if not ws:
                continue
            owner = getattr(fn, "_parent", None)
            in_mk = m.name == LC and isinstance(owner, ast.ClassDef) and owner.name == "MultiKeyDict"
            nw += 1
            chk.decide(in_mk and fn.name in allowed, "C15.writers", "%s:%s.%s" % (m.relpath, getattr(owner, "name", "?"), fn.name),
                       "writes %s" % sorted({w for w, _ in ws}),
                       why="a store written outside the three maintaining methods breaks the mutual consistency of the maps",
                       node=ws[0][1])
    chk.floor("C15.writers", nw, 3, "functions writing the stores")
    # dict mutators that bypass __setitem__ must not be relied upon inside the classes
    for cname in ("MultiKeyDict", "StrategyDict"):
        cls = repo.find(LC, cname)
        bad = [n for n in ast.walk(cls) if isinstance(n, ast.Call) and isinstance(n.func, ast.Attribute)
               and unparse(n.func.value) == "self" and n.func.attr in ("update", "pop", "popitem", "clear", "setdefault")]
        chk.decide(not bad, "C15.writers", W(cname), "no self.update/pop/clear/setdefault (they bypass __setitem__)",
                   why="C-level dict mutators do not maintain the key maps: %s" % [short(b) for b in bad[:2]], node=cls)

    chk.rule("C15.setitem", "MultiKeyDict.__setitem__ (single path): tuple-ise key; prepend the keys already holding an "
                            "equal value; de-duplicate keeping the last occurrence; remove overwritten keys through "
                            "MultiKeyDict.__delitem__; then write _keys_dict[k] = key for every k, _inv_dict[value] = "
                            "key, base[key] = value")
    si = repo.find(LC, "MultiKeyDict.__setitem__")
    sb = docstring_free(si.body)
    txt = [unparse(s) for s in sb]
    par = [a.arg for a in si.args.args]
    chk.require(par == ["self", "key", "value"], "MultiKeyDict.__setitem__ signature changed")
    want = [
        ("tuple-ise", "if not isinstance(key, tuple):\n    key = (key,)"),
        ("merge", "if value in self._inv_dict:\n    key = self._inv_dict[value] + key"),
        ("dedupe-init", "key_list = []"),
        ("dedupe-loop", "for k in reversed(key):\n    if k not in key_list:\n        key_list.append(k)"),
        ("dedupe-final", "key = tuple(reversed(key_list))"),
        ("remove", "for k in key:\n    if k in self._keys_dict:\n        MultiKeyDict.__delitem__(self, k)"),
        ("keys-map", "for k in key:\n    self._keys_dict[k] = key"),
        ("inv-map", "self._inv_dict[value] = key"),
        ("base", "super(MultiKeyDict, self).__setitem__(key, value)"),
    ]
    why = {
        "tuple-ise": "single keys must become 1-tuples",
        "merge": "keys already holding an equal value come first, the newly assigned ones last",
        "dedupe-init": "de-duplication list", "dedupe-loop": "the last occurrence of a repeated key wins",
        "dedupe-final": "order restored after de-duplication",
        "remove": "keys that are being overwritten must first leave their old value (through the base-class "
                  "__delitem__, so that subclasses' bookkeeping is not triggered)",
        "keys-map": "every key of the tuple must map to the tuple",
        "inv-map": "the value must map to the tuple", "base": "the tuple must map to the value",
    }
    pos = {}
    for name, t in want:
        alt = t.replace("super(MultiKeyDict, self)", "super()")
        idx = [i for i, x in enumerate(txt) if x == t or x == alt]
        pos[name] = idx[0] if len(idx) == 1 else None
        chk.decide(len(idx) == 1, "C15.setitem", W("MultiKeyDict.__setitem__"), "%s: %s" % (name, t.replace("\n", " ")),
                   why=why[name] + (" (statement not found)" if not idx else " (found %d times)" % len(idx)), node=si)
    order = [pos[n] for n, _ in want]
    chk.decide(None not in order and order == sorted(order) and len(sb) == len(want), "C15.setitem",
               W("MultiKeyDict.__setitem__"), "the %d steps occur once, in this order, and nothing else" % len(want),
               why="merge, de-duplication, removal and the three writes must happen in this order (found order %s, %d "
                   "statements)" % (order, len(sb)), node=si)

    chk.rule("C15.delitem", "MultiKeyDict.__delitem__: lookups first (KeyError propagates); deletes _keys_dict[key], "
                            "_inv_dict[value], base[key_tuple]; iff the shortened tuple is non-empty re-inserts it into "
                            "all three stores")
    di = repo.find(LC, "MultiKeyDict.__delitem__")
    db = docstring_free(di.body)
    dt = [unparse(s) for s in db]
    want_d = ["key_tuple = self._keys_dict[key]", "value = self[key]", "new_key = tuple((k for k in key_tuple if k != key))",
              "del self._keys_dict[key]", "del self._inv_dict[value]", "super(MultiKeyDict, self).__delitem__(key_tuple)"]
    for i, t in enumerate(want_d):
        alt = t.replace("super(MultiKeyDict, self)", "super()")
        chk.decide(i < len(dt) and dt[i] in (t, alt), "C15.delitem", W("MultiKeyDict.__delitem__"), t,
                   why="step %d of the deletion is '%s'" % (i + 1, dt[i] if i < len(dt) else "<missing>"), node=di)
    tail = db[len(want_d):]
    ok = len(tail) == 1 and isinstance(tail[0], ast.If) and unparse(tail[0].test) in ("len(new_key) > 0", "new_key", "len(new_key) >= 1")
    if ok:
        tb = [unparse(s) for s in tail[0].body]
        ok = tb in (["for k in new_key:\n    self._keys_dict[k] = new_key", "self._inv_dict[value] = new_key",
                     "super(MultiKeyDict, self).__setitem__(new_key, value)"],
                    ["for k in new_key:\n    self._keys_dict[k] = new_key", "self._inv_dict[value] = new_key",
                     "super().__setitem__(new_key, value)"]) and not tail[0].orelse
    chk.decide(ok, "C15.delitem", W("MultiKeyDict.__delitem__"), "re-insertion of the shortened tuple under "
               + (unparse(tail[0].test) if tail and isinstance(tail[0], ast.If) else "?"),
               why="remaining keys must keep their value: all three stores rewritten with the shortened tuple, only when "
                   "it is non-empty", node=di)
    tries = [n for n in ast.walk(di) if isinstance(n, ast.Try)]
    chk.decide(not tries, "C15.delitem", W("MultiKeyDict.__delitem__"), "no try/except: deleting a missing key raises KeyError",
               why="KeyError must reach the caller", node=di)

    chk.rule("C15.lookup", "__init__ creates both maps before filling through self[key] = value; __getitem__ resolves a "
                           "key through _keys_dict (tuples go straight to the base dict); __iter__ iterates the values; "
                           "key2keys / value2keys read the maps")
    ini = repo.find(LC, "MultiKeyDict.__init__")
    it = [unparse(s) for s in docstring_free(ini.body)]
    ok = it[:3] == ["self._keys_dict = {}", "self._inv_dict = {}", "super(MultiKeyDict, self).__init__()"] \
        and it[3] == "for key, value in iteritems(dict(*args, **kwargs)):\n    self[key] = value"
    chk.decide(ok, "C15.lookup", W("MultiKeyDict.__init__"), " ; ".join(it)[:150],
               why="constructor must start empty and insert every pair through __setitem__", node=ini)
    gi = repo.find(LC, "MultiKeyDict.__getitem__")
    gt = [unparse(s) for s in docstring_free(gi.body)]
    ok = gt == ["if isinstance(key, tuple):\n    return super(MultiKeyDict, self).__getitem__(key)",
                "return super(MultiKeyDict, self).__getitem__(self._keys_dict[key])"]
    chk.decide(ok, "C15.lookup", W("MultiKeyDict.__getitem__"), gt[-1], why="d[k] is the value stored under k's tuple", node=gi)
    for q, wantr in (("__iter__", "return iter(self._inv_dict)"), ("key2keys", "return self._keys_dict[key]"),
                     ("value2keys", "return self._inv_dict.get(value, tuple())")):
        fn = repo.find(LC, "MultiKeyDict." + q)
        r = docstring_free(fn.body)[-1]
        chk.decide(unparse(r) == wantr, "C15.lookup", W("MultiKeyDict." + q), short(r), why="expected '%s'" % wantr, node=r)

    chk.rule("C15.strategy", "StrategyDict: __setitem__ deletes each key first (KeyError ignored), stores under the key "
                             "tuple, sets every key as attribute, default = first strategy stored; __delitem__ drops the "
                             "attribute only if it still is the strategy and the default only when the strategy loses its "
                             "last name; __call__ calls self.default; iteration over the strategies")
    _strategy_setitem(chk, repo, W)
    _strategy_delitem(chk, repo, W)
    for q, wantr in (("__call__", "return self.default(*args, **kwargs)"), ("__iter__", "return itervalues(self)")):
        fn = repo.find(LC, "StrategyDict." + q)
        r = docstring_free(fn.body)[-1]
        chk.decide(unparse(r) == wantr, "C15.strategy", W("StrategyDict." + q), short(r), why="expected '%s'" % wantr, node=r)
    dec = repo.find(LC, "StrategyDict.strategy.decorator")
    dtx = unparse(dec)
    ok = "self[names] = func" in dtx and dtx.rstrip().endswith("return self") and "func.__name__ = str(names[0])" in dtx
    chk.decide(ok, "C15.strategy", W("StrategyDict.strategy"), "decorator stores func under all names and returns the dict",
               why="registration must go through __setitem__ with the whole name tuple", node=dec)
    _strategy_delattr(chk, repo, W)
