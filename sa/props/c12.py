"""C12  Frequency response is the transfer function and matches the time domain."""
import ast

from ..core import (AnalysisError, FuncTypes, unparse, short, canon, canon_call, base_name, own_nodes,
                    docstring_free)
from ..ratfun import RF, Evaluator, Inconclusive, opaque
from .c05 import _reduce_shape, _ret

EXPLANATION = (
    "Static analysis of LinearFilter.freq_response, the cascade/parallel responses (lazy_filters.py) and dft "
    "(lazy_analysis.py). The evaluation point is exp(-1j*freq) in normal form and both polynomials are evaluated at that "
    "same point, the result is num/den, the 'den == 0 -> nan' guard precedes the division; dft's kernel is "
    "x_n * exp(-1j*n*f) summed over enumerate(blk) for every requested frequency, divided by len(blk) only when "
    "normalize is set; freq_response and dft use one sign convention (a conjugate keeps every magnitude test green but "
    "breaks the link with filtering: the unnormalised DFT of a FIR impulse response must equal freq_response); the "
    "three freq_response methods broadcast their freq parameter (elementwise('freq', 1) on (self, freq)); cascade = "
    "product, parallel = sum of the parts' responses at the same frequency. Not decided: numeric agreement with "
    "time-domain filtering within rounding bounds.")

UNDECIDED = ["numeric agreement between freq_response, dft and actual filtering"]

LF, LA = "lazy_filters", "lazy_analysis"


def _exp_arg(node, mod):
    """argument RF of a complex exponential call, or None"""
    if isinstance(node, ast.Call) and len(node.args) == 1 and canon(mod, node.func) in (
            "cmath.exp", "lazy_math:cexp", "lazy_math:exp", "cexp", "complex_exp"):
        return Evaluator().ev(node.args[0])
    return None


class _NoBin(Exception):
    pass


class _SubN(ast.NodeTransformer):
    def __init__(self, env):
        self.env = env

    def visit_Name(self, n):
        if isinstance(n.ctx, ast.Load) and n.id in self.env:
            return ast.parse(unparse(self.env[n.id]), mode="eval").body
        return n


def _dft_bin(df, normalize):
    """(frequency variable, expression of one bin, result is a list) for dft(blk, freqs, normalize) - guards on the
    flag evaluated (decision table), locals resolved, comprehensions over the frequencies composed, a loop that appends
    to a fresh list read as the list of what it appends"""
    from ..dtable import Facts, walk
    F = Facts(truths={"normalize": normalize, "bool(normalize)": normalize, "not normalize": not normalize})
    env, seqs, lists, alias = {}, {}, set(), {"freqs"}

    def sub(e, extra=None):
        m = dict(env)
        m.update(extra or {})
        return _SubN(m).visit(ast.parse(unparse(e), mode="eval").body)

    def source(e):
        """'freqs' for the frequencies themselves (or iter(freqs) / an alias), a sequence name, or None"""
        if isinstance(e, ast.Name) and e.id in alias:
            return "freqs"
        if isinstance(e, ast.Call) and unparse(e.func) in ("iter", "list", "tuple") and len(e.args) == 1:
            return source(e.args[0])
        if isinstance(e, ast.Name) and e.id in seqs:
            return e.id
        return None

    def comp(c):
        if not (isinstance(c, (ast.GeneratorExp, ast.ListComp)) and len(c.generators) == 1 and not c.generators[0].ifs
                and isinstance(c.generators[0].target, ast.Name)):
            return None
        src = source(c.generators[0].iter)
        v = c.generators[0].target.id
        if src == "freqs":
            return (v, sub(c.elt, {v: ast.Name(id=v, ctx=ast.Load())}), isinstance(c, ast.ListComp))
        if src is not None:
            fv, inner, _l = seqs[src]
            return (fv, sub(c.elt, {v: inner}), isinstance(c, ast.ListComp))
        return None

    def flags(name, value):
        t = F.truths.get(unparse(value))
        if t is not None:
            F.truths[name] = t
            F.truths["not " + name] = not t

    def run(stmts, loopvar=None):
        w = walk(stmts, F, "dft", strict=True)
        for st in w.ran:
            if isinstance(st, ast.Assign) and len(st.targets) == 1 and isinstance(st.targets[0], ast.Name):
                nm, v = st.targets[0].id, st.value
                flags(nm, v)
                if source(v) == "freqs" and not isinstance(v, (ast.GeneratorExp, ast.ListComp)):
                    alias.add(nm)
                    continue
                c = comp(v)
                if c is not None:
                    seqs[nm] = c
                    continue
                if (isinstance(v, ast.List) and not v.elts) or (isinstance(v, ast.Call) and unparse(v.func) == "list" and not v.args):
                    lists.add(nm)
                    continue
                env[nm] = sub(v)
                continue
            if isinstance(st, ast.AugAssign) and isinstance(st.target, ast.Name) and st.target.id in env:
                env[st.target.id] = ast.BinOp(left=env[st.target.id], op=st.op, right=sub(st.value))
                continue
            if isinstance(st, ast.For) and isinstance(st.target, ast.Name) and source(st.iter) == "freqs" and not st.orelse \
                    and loopvar is None:
                env.pop(st.target.id, None)
                r = run(st.body, st.target.id)
                if r is not None:
                    return r
                continue
            if isinstance(st, ast.Expr) and isinstance(st.value, ast.Call) and isinstance(st.value.func, ast.Attribute) \
                    and st.value.func.attr == "append" and isinstance(st.value.func.value, ast.Name) \
                    and st.value.func.value.id in lists and len(st.value.args) == 1 and loopvar is not None:
                L = st.value.func.value.id
                if L in seqs:
                    raise _NoBin("two appends to %s" % L)
                seqs[L] = (loopvar, sub(st.value.args[0]), True)
                continue
            if isinstance(st, ast.Return) and loopvar is None:
                v = st.value
                if isinstance(v, ast.Name) and v.id in seqs:
                    return seqs[v.id]
                if isinstance(v, ast.Call) and unparse(v.func) == "list" and len(v.args) == 1 \
                        and isinstance(v.args[0], ast.Name) and v.args[0].id in seqs:
                    fv, e, _l = seqs[v.args[0].id]
                    return (fv, e, True)
                c = comp(v) if v is not None else None
                if c is not None:
                    return c
                raise _NoBin("returns %s" % short(st))
            if isinstance(st, (ast.Pass,)) or (isinstance(st, ast.Expr) and isinstance(st.value, ast.Constant)):
                continue
            raise _NoBin("statement %s" % short(st))
        return None
    try:
        r = run(docstring_free(df.body))
    except AnalysisError as ex:
        raise _NoBin(str(ex))
    if r is None:
        raise _NoBin("no return reached")
    return r


def run(chk, repo):
    fmod, amod = repo.mod(LF), repo.mod(LA)
    WF = lambda q: "%s:%s" % (fmod.relpath, q)
    WA = lambda q: "%s:%s" % (amod.relpath, q)
    J = RF.sym("1j")

    chk.rule("C12.response", "freq_response: z_ = exp(-1j*freq); num = numpoly(z_), den = denpoly(z_); nan when den == 0 "
                             "(non-Stream), tested before the division; returns num / den")
    fr = repo.find(LF, "LinearFilter.freq_response")
    body = docstring_free(fr.body)
    asg = {unparse(s.targets[0]): s for s in body if isinstance(s, ast.Assign)}
    zs = [s for s in asg.values() if _safe(lambda: _exp_arg(s.value, fmod)) is not None]
    chk.require(len(zs) == 1, "freq_response: complex exponential assignment not found")
    zname = unparse(zs[0].targets[0])
    arg = _exp_arg(zs[0].value, fmod)
    chk.decide(arg == -J * RF.sym("freq"), "C12.response", WF("LinearFilter.freq_response"), short(zs[0]),
               why="the polynomial variable z^-1 must be evaluated at exp(-j*freq); argument is %s" % arg.key(), node=zs[0])
    pn = [s for s in asg.values() if unparse(s.value) == "self.numpoly(%s)" % zname]
    pd = [s for s in asg.values() if unparse(s.value) == "self.denpoly(%s)" % zname]
    chk.decide(len(pn) == 1 and len(pd) == 1, "C12.response", WF("LinearFilter.freq_response"),
               "numerator and denominator polynomials evaluated at the same point %s" % zname,
               why="both polynomials must be evaluated at exp(-j*freq)", node=fr)
    last = body[-1]
    ok = False
    if pn and pd and isinstance(last, ast.Return):
        try:
            ok = Evaluator().ev(last.value) == RF.sym(unparse(pn[0].targets[0])) / RF.sym(unparse(pd[0].targets[0]))
        except Inconclusive:
            ok = False
    chk.decide(ok, "C12.response", WF("LinearFilter.freq_response"), short(last), why="response is numerator over "
               "denominator", node=last)
    guards = [s for s in body if isinstance(s, ast.If)]
    ok = False
    if len(guards) == 1 and pd:
        dn = unparse(pd[0].targets[0])
        g = guards[0]
        inner = g.body[0] if unparse(g.test) == "not isinstance(%s, Stream)" % dn else g
        ok = isinstance(inner, ast.If) and unparse(inner.test) in ("%s == 0" % dn, "0 == %s" % dn) \
            and unparse(inner.body[0]) == "return nan" and body.index(g) < body.index(last) \
            and body.index(g) > body.index(pd[0])
    chk.decide(ok, "C12.response", WF("LinearFilter.freq_response"), short(guards[0]) if guards else "nan guard missing",
               why="a vanishing denominator must give nan, decided before dividing", node=fr)
    nv = canon(fmod, ast.parse("nan", mode="eval").body)
    chk.decide(nv == "lazy_math:nan", "C12.response", WF("LinearFilter.freq_response"), "nan resolves to %s" % nv,
               why="nan must be the float nan of lazy_math", node=fr)

    chk.rule("C12.broadcast", "freq_response methods are decorated elementwise('freq', 1) with signature (self, freq)")
    for cname in ("LinearFilter", "CascadeFilter", "ParallelFilter"):
        m = repo.find(LF, cname + ".freq_response")
        par = [a.arg for a in m.args.args]
        decos = [unparse(d) for d in m.decorator_list]
        chk.decide(par == ["self", "freq"] and decos == ["elementwise('freq', 1)"], "C12.broadcast",
                   WF(cname + ".freq_response"), "@%s on (%s)" % (decos, ", ".join(par)),
                   why="containers of frequencies must be mapped over the freq parameter (position 1)", node=m)
    chk.rule("C12.lists", "CascadeFilter.freq_response = reduce(mul) and ParallelFilter.freq_response = reduce(add) of "
                          "filt.freq_response(freq) over self.callables")
    for cname, opname, word in (("CascadeFilter", "operator.mul", "product"), ("ParallelFilter", "operator.add", "sum")):
        m = repo.find(LF, cname + ".freq_response")
        red = _reduce_shape(fmod, m)
        ok = red is not None and red["op"] == opname and red["inner_attr"] == "freq_response" \
            and red["over"] == "self.callables" and red["outer_attr"] is None and red["inner_args"] == ["freq"]
        chk.decide(ok, "C12.lists", WF(cname + ".freq_response"), short(_ret(m)),
                   why="response must be the %s of the parts' responses at the same frequency" % word, node=m)

    # what the lists' responses are reduced over is read from the list every time (a FilterList is mutable)
    from .c05 import filter_list_memos
    chk.rule("C12.lists-live", "nothing computed from the members of a filter list (callables, a summed filter) is kept on "
                               "the object between calls: after append / item assignment / del the response is that of the "
                               "current members")
    _before = len(chk.obls)
    filter_list_memos(chk, repo.mod(LF), lambda q: "%s:%s" % (repo.mod(LF).relpath, q), "C12.lists-live")
    if len(chk.obls) == _before:
        chk.ok("C12.lists-live", "%s:FilterList" % repo.mod(LF).relpath, "no value is kept on a filter list", node=repo.find(LF, "FilterList"))
    chk.rule("C12.dft", "dft: for f in freqs: sum(xn * exp(-1j*n*f) for n, xn in enumerate(blk)); divided by len(blk) "
                        "only under normalize; same sign of the exponent as freq_response")
    df = repo.find(LA, "dft")
    par = [a.arg for a in df.args.args]
    chk.require(par == ["blk", "freqs", "normalize"], "dft signature changed: %s" % par)
    # each bin depends on its own frequency only: a statement loop over the frequencies carries no value from one
    # frequency to the next (the list the bins are collected in apart)
    for lp_ in [n for n in ast.walk(df) if isinstance(n, ast.For) and any(isinstance(x, ast.Name) and x.id == "freqs" for x in ast.walk(n.iter))]:
        assigned_anywhere = {t_.id for n_ in ast.walk(lp_) for t_ in ast.walk(n_) if isinstance(t_, ast.Name) and isinstance(t_.ctx, ast.Store)
                             and n_ is not lp_.target}
        assigned_anywhere -= {t_.id for t_ in ast.walk(lp_.target) if isinstance(t_, ast.Name)}
        carried = set()
        done = {t_.id for t_ in ast.walk(lp_.target) if isinstance(t_, ast.Name)}

        def scan(stmts, done_):
            for st_ in stmts:
                if isinstance(st_, (ast.For, ast.While)):
                    # names read anywhere in the nested loop (its own targets apart) before this iteration set them
                    own = {t_.id for t_ in ast.walk(getattr(st_, "target", ast.Pass())) if isinstance(t_, ast.Name)}
                    for x in ast.walk(st_):
                        if isinstance(x, ast.Name) and isinstance(x.ctx, ast.Load) and x.id in assigned_anywhere \
                                and x.id not in done_ and x.id not in own:
                            carried.add(x.id)
                        if isinstance(x, ast.AugAssign) and isinstance(x.target, ast.Name) and x.target.id not in done_:
                            carried.add(x.target.id)
                    done_ |= {t_.id for n_ in ast.walk(st_) for t_ in ast.walk(n_) if isinstance(t_, ast.Name) and isinstance(t_.ctx, ast.Store)}
                    continue
                reads = [x for x in ast.walk(st_) if isinstance(x, ast.Name) and isinstance(x.ctx, ast.Load)]
                if isinstance(st_, ast.AugAssign) and isinstance(st_.target, ast.Name):
                    reads.append(st_.target)
                for x in reads:
                    if x.id in assigned_anywhere and x.id not in done_:
                        carried.add(x.id)
                for x in ast.walk(st_):
                    if isinstance(x, ast.Name) and isinstance(x.ctx, ast.Store):
                        done_.add(x.id)
        scan(lp_.body, set(done))
        chk.decide(not carried, "C12.dft", WA("dft"), "loop over the frequencies carries no state between bins",
                   why="%s keep(s) the value of the previous frequency: every bin after the first depends on the bins before it"
                       % sorted(carried), node=lp_)
    # a one-shot iterator (enumerate / zip / map / iter / a generator expression) bound to a local once and iterated
    # inside the loop over the frequencies is used up by the first frequency: every later bin sums nothing
    ONE_SHOT = ("enumerate", "iter", "zip", "xzip", "map", "xmap", "filter", "xfilter", "reversed", "it.chain", "chain")
    shots = {}
    for a_ in ast.walk(df):
        if isinstance(a_, ast.Assign) and len(a_.targets) == 1 and isinstance(a_.targets[0], ast.Name) and (
                isinstance(a_.value, ast.GeneratorExp) or (isinstance(a_.value, ast.Call) and unparse(a_.value.func) in ONE_SHOT)):
            shots[a_.targets[0].id] = a_

    def _iterated_inside_repeated(root, depth, hits):
        for ch in ast.iter_child_nodes(root):
            if isinstance(ch, (ast.GeneratorExp, ast.ListComp, ast.SetComp, ast.DictComp)):
                for k_, g_ in enumerate(ch.generators):
                    inner_depth = depth + k_ + (0 if k_ == 0 else 0)
                    if isinstance(g_.iter, ast.Name) and g_.iter.id in shots and (depth > 0 or k_ > 0):
                        hits.append(g_.iter)
                    _iterated_inside_repeated(g_.iter, depth + k_, hits)
                for part in ([ch.elt] if hasattr(ch, "elt") else [ch.key, ch.value]):
                    _iterated_inside_repeated(ast.Expr(value=part), depth + len(ch.generators), hits)
            elif isinstance(ch, ast.For):
                if isinstance(ch.iter, ast.Name) and ch.iter.id in shots and depth > 0:
                    hits.append(ch.iter)
                _iterated_inside_repeated(ast.Module(body=ch.body, type_ignores=[]), depth + 1, hits)
            else:
                _iterated_inside_repeated(ch, depth, hits)
    hits_ = []
    _iterated_inside_repeated(df, 0, hits_)
    for h_ in hits_:
        # (bound inside the repeated part itself - a fresh iterator per frequency - is fine)
        a_ = shots[h_.id]
        p_, inside_loop = getattr(a_, "_parent", None), False
        while p_ is not None and p_ is not df:
            if isinstance(p_, (ast.For, ast.While)):
                inside_loop = True
            p_ = getattr(p_, "_parent", None)
        chk.decide(inside_loop, "C12.dft", WA("dft"), "%s = %s iterated once per frequency" % (h_.id, short(a_.value)),
                   why="%s is a one-shot iterator built once: the first frequency uses it up and every other bin is an "
                       "empty sum" % h_.id, node=a_)
    # what one bin is, as an expression of its frequency, with and without normalisation - whether the bins are built
    # by comprehensions or by a loop that appends them
    bins = {}
    for norm in (True, False):
        try:
            bins[norm] = _dft_bin(df, norm)
        except _NoBin as ex:
            raise AnalysisError("dft: bins not interpretable (normalize=%s): %s" % (norm, ex))
    sign_dft = None
    for norm in (True, False):
        f, e, lst = bins[norm]
        den = None
        if isinstance(e, ast.BinOp) and isinstance(e.op, ast.Div):
            e, den = e.left, e.right
        ok = isinstance(e, ast.Call) and unparse(e.func) == "sum" and len(e.args) == 1 and isinstance(e.args[0], ast.GeneratorExp) \
            and len(e.args[0].generators) == 1 and not e.args[0].generators[0].ifs
        if ok:
            ig = e.args[0]
            ok = unparse(ig.generators[0].iter) == "enumerate(blk)" and isinstance(ig.generators[0].target, ast.Tuple) \
                and len(ig.generators[0].target.elts) == 2
            if ok:
                n, xn = [unparse(t) for t in ig.generators[0].target.elts]
                t = ig.elt
                ok = isinstance(t, ast.BinOp) and isinstance(t.op, ast.Mult)
                if ok:
                    a_, b_ = (t.left, t.right) if isinstance(t.right, ast.Call) else (t.right, t.left)
                    earg = _safe(lambda: _exp_arg(b_, amod))
                    ok = unparse(a_) == xn and earg is not None
                    if ok:
                        sign_dft = earg / (J * RF.sym(n) * RF.sym(f))
                        ok = earg == -J * RF.sym(n) * RF.sym(f)
        chk.decide(ok, "C12.dft", WA("dft"), "normalize=%s: bin(%s) = %s" % (norm, f, short(e, 110)),
                   why="dft kernel must be x_n * exp(-j*n*f) summed over the block, for every requested frequency", node=df)
        if norm:
            chk.decide(den is not None and unparse(den) == "len(blk)", "C12.dft", WA("dft"),
                       "bins divided by %s" % (unparse(den) if den is not None else "nothing"),
                       why="the normalised form divides every bin by the block length len(blk) (so the DC bin is the block "
                           "mean), not by anything else", node=df)
        else:
            chk.decide(den is None, "C12.dft", WA("dft"), "unnormalised bins are the sums themselves"
                       + ("" if den is None else " (divided by %s)" % unparse(den)),
                       why="unnormalised form returns the sums themselves", node=df)
        chk.decide(lst, "C12.dft", WA("dft"), "normalize=%s: the result is a list" % norm,
                   why="documented return type (a generator would be consumed by the first reader)", node=df)
    sign_fr = arg / (J * RF.sym("freq"))
    same = sign_dft is not None and sign_dft == sign_fr
    chk.decide(same, "C12.dft", WA("dft"), "exponent sign: dft %s, freq_response %s"
               % (sign_dft.key() if sign_dft is not None else "?", sign_fr.key()),
               why="one convention exp(-jwk) in both: otherwise the DFT of an impulse response is the conjugate of "
                   "freq_response", node=df)
    d = df.args.defaults
    chk.decide(len(d) == 1 and unparse(d[0]) == "True", "C12.dft", WA("dft"), "normalize defaults to True",
               why="documented default", node=df)


def _safe(f):
    try:
        return f()
    except Inconclusive:
        return None
