"""C04  A constant-coefficient filter computes its difference equation."""
import ast

from ..core import (AnalysisError, FuncTypes, unparse, short, canon, canon_call, base_name, own_nodes,
                    docstring_free)
from ..ratfun import RF, Evaluator, Inconclusive
from .. import kernel as K

EXPLANATION = (
    "Static analysis of LinearFilter.__call__ (audiolazy/lazy_filters.py). The method builds Python source and "
    "exec's it; the checker folds the string-building slice of the method (constant folding over abstract "
    "coefficient tokens: 1, -1, generic value with several str() shapes, Stream; no repository code is called) to "
    "reconstruct the generated generator for a family of schemas (every coefficient class at every delay up to 2 "
    "against partner polynomials, sparse high delays, pasted-value shapes P/Q, -P/Q, -P, floats), parses each "
    "generated function and proves in rational normal form, with symbolic samples, one inductive step: "
    "a0*y[n] = sum b_k x[n-k] - sum a_k y[n-k], the state shift m_k<-m_(k-1), d_k<-d_(k-1) after the yield, "
    "m_k = k-th memory item, d_k = zero initially, exactly one yield per input, all state variables defined, the "
    "all-zero filter yields the zero value. Besides: the causality guard (ValueError) is the first statement and "
    "covers both polynomials; memory normalisation (None -> lm zeros, callable asked for lm, first lm items in "
    "order); lm = len(denominator) - 1; the kernel is called with (iter(seq), memory, zero, iterators...) in the "
    "order of its parameters. Bounded over schemas (orders <= 2 exhaustively in the thorough tier, plus gaps), "
    "unbounded over sample values and lengths. Not decided: memories shorter than the order, exact coefficient "
    "types (values are pasted as text)."
    " Also: The coefficient classes of the folded kernels are completed by every literal the builder compares a coefficient with (a special case on another value gets its own kernels); every free name of a generated loop must be defined; C04.normalise / C04.memory / C04.memory-pad are decision tables over the kinds of constructor and memory arguments. ")

UNDECIDED = ["filters of order > 2 beyond the sampled sparse shapes (same code path: loops over the term dicts)",
             "short memories (padding side)", "exact numeric types of pasted coefficients"]

LF = "lazy_filters"


def kernel_obligations(chk, repo, schemas, rules_prefix=("C04", "E3x"), where_suffix=""):
    """Run the kernel analysis over schemas; aggregate per rule.  Returns counts."""
    mod = repo.mod(LF)
    fn = repo.find(LF, "LinearFilter.__call__")
    W = "%s:LinearFilter.__call__<generated kernel>" % mod.relpath
    agg = {}        # (rule, text) -> [ok_count, first_failure]
    n = 0
    for num, den in schemas:
        sch = K.Schema(num, den)
        try:
            folded = K.fold_kernel(fn, sch)
        except Inconclusive as ex:
            raise AnalysisError("cannot fold the kernel builder of LinearFilter.__call__ for %s: %s" % (sch.label(), ex))
        rep = K.analyse_kernel(folded, sch)
        n += 1
        for rule, ok, text, why in rep.items:
            if rule == "C04.equation":
                text = "a0*y[n] = sum b_k*x[n-k] - sum a_k*y[n-k] (one symbolic step of the generated loop)"
            elif text.startswith("m1..m") or text.startswith("d1..d"):
                text = text.split(" ", 1)[1] if False else \
                    ("m_k unpacked from memory in ascending order (m_k = k-th memory item)" if text.startswith("m1")
                     else "d_k start as the zero value")
            a = agg.setdefault((rule, text), [0, None, 0])
            if ok:
                a[0] += 1
            else:
                a[2] += 1
                if a[1] is None:
                    a[1] = "%s -- first failing schema: %s (%d schema(s) fail)" % (why, sch.label(), 0)
    return W, agg, n


def emit(chk, W, agg, only=None, exclude=None):
    for (rule, text), (okc, fail, nfail) in sorted(agg.items()):
        if only and not any(rule.startswith(p) for p in only):
            continue
        if exclude and any(rule.startswith(p) for p in exclude):
            continue
        if fail is not None:
            chk.bad(rule, W, text, fail.replace("(0 schema(s) fail)", "(%d of %d schemas fail)" % (nfail, nfail + okc)))
        else:
            chk.ok_many(rule, W, text, okc, detail="holds for %d generated kernels" % okc)


def run(chk, repo):
    mod = repo.mod(LF)
    W = lambda q: "%s:%s" % (mod.relpath, q)
    call = repo.find(LF, "LinearFilter.__call__")
    body = docstring_free(call.body)
    par = [a.arg for a in call.args.args]
    chk.require(par[:4] == ["self", "seq", "memory", "zero"], "LinearFilter.__call__ signature changed: %s" % par)

    chk.rule("C04.equation", "for every schema the generated loop body satisfies, in rational normal form over "
                             "symbolic samples, a0*m0 = sum_k b_k*d_k - sum_(k>=1) a_k*m_k with the pasted values "
                             "meaning what str() of a number means (operator precedence)")
    chk.rule("C04.shift", "after the yield the state is m_k <- m_(k-1) (m_1 <- the output) and d_k <- d_(k-1) for "
                          "all k (simulated sequentially, so an ascending shift is caught); nothing is shifted "
                          "before the yield")
    chk.rule("C04.memory-order", "m1..m(la-1) are unpacked from memory in ascending order; d_k start as zero")
    chk.rule("C04.one-per-input", "the generated function is one for-loop over its first argument with exactly one "
                                  "unconditional yield per iteration")
    chk.rule("C04.zero-filter", "without terms the kernel yields the zero value once per input")
    chk.rule("C04.names", "every m_k / d_k read is defined by the prologue or the loop")

    # every call builds and runs its own kernel: a kernel kept from an earlier call may only be reused under a key
    # that contains the generated text itself
    chk.rule("C04.fresh-kernel", "LinearFilter.__call__ keeps no state between calls: a module-level container it reads "
                                 "or writes (a cache of compiled kernels) must be keyed by the generated source text")
    containers = set()
    for st_ in mod.tree.body:
        if isinstance(st_, ast.Assign) and len(st_.targets) == 1 and isinstance(st_.targets[0], ast.Name) and (
                isinstance(st_.value, (ast.Dict, ast.List, ast.Set)) or
                (isinstance(st_.value, ast.Call) and unparse(st_.value.func) in ("dict", "OrderedDict", "list", "set", "defaultdict",
                                                                                 "collections.OrderedDict", "collections.defaultdict",
                                                                                 "WeakValueDictionary", "weakref.WeakValueDictionary"))):
            containers.add(st_.targets[0].id)
    local_names = {n_.id for n_ in ast.walk(call) if isinstance(n_, ast.Name) and isinstance(n_.ctx, ast.Store)} | set(par)
    shared = sorted({n_.id for n_ in ast.walk(call) if isinstance(n_, ast.Name) and n_.id in containers and n_.id not in local_names})
    text_names = {"'\\n'.join(gen_func)"}
    for a_ in ast.walk(call):
        if isinstance(a_, ast.Assign) and isinstance(a_.targets[0], ast.Name) and "join(gen_func)" in unparse(a_.value):
            text_names.add(a_.targets[0].id)
    for nm_ in shared:
        keys_ = []
        for n_ in ast.walk(call):
            if isinstance(n_, ast.Subscript) and unparse(n_.value) == nm_:
                keys_.append(n_.slice)
            elif isinstance(n_, ast.Call) and isinstance(n_.func, ast.Attribute) and unparse(n_.func.value) == nm_ and n_.args:
                keys_.append(n_.args[0])

        def resolve_(e_, depth=0):
            t_ = unparse(e_)
            if isinstance(e_, ast.Name) and depth < 3:
                ds_ = [a_.value for a_ in ast.walk(call) if isinstance(a_, ast.Assign) and unparse(a_.targets[0]) == e_.id]
                if len(ds_) == 1:
                    return t_ + " = " + resolve_(ds_[0], depth + 1)
            return t_
        ok_keys = bool(keys_) and all(any(tn in resolve_(k_) for tn in text_names) for k_ in keys_)
        chk.decide(ok_keys, "C04.fresh-kernel", W("LinearFilter.__call__"),
                   "shared container %s keyed by %s" % (nm_, "; ".join(sorted({resolve_(k_)[:60] for k_ in keys_})) or "?"),
                   why="a kernel compiled for an earlier call is reused under a key that does not determine the generated "
                       "text (the text also depends on the zero value and on how coefficients print): a later call can "
                       "run the wrong kernel", node=call)
    if not shared:
        chk.ok("C04.fresh-kernel", W("LinearFilter.__call__"), "no module-level container is used: every call compiles its own kernel", node=call)
    schemas = K.quick_schemas(K.size_thresholds(call))
    from .. import peval as _pe
    _pe.COMPARED.clear()
    Wk, agg, n = kernel_obligations(chk, repo, schemas)
    # the literals the builder compares a coefficient with partition the coefficient values: besides 0, 1, -1 and
    # "anything else" every further literal is a class of its own and gets its own kernels
    extra_lits = sorted(v for v in _pe.COMPARED if v not in (0, 1, -1))
    chk.facts["coefficient_literals_compared"] = sorted(_pe.COMPARED, key=float)
    if extra_lits:
        extra = []
        for c in extra_lits[:6]:
            cc = ("const", c)
            extra += [({0: cc}, {0: "one"}), ({0: "generic", 1: cc}, {0: "one", 1: "generic"}), ({0: "generic"}, {0: "one", 1: cc}),
                      ({0: "generic", 1: "generic"}, {0: cc, 1: "generic"}), ({0: cc, 2: cc}, {0: cc, 2: cc})]
        _, agg2, n2 = kernel_obligations(chk, repo, extra)
        for k_, v_ in agg2.items():
            a_ = agg.setdefault(k_, [0, None, 0])
            a_[0] += v_[0]
            a_[2] += v_[2]
            if a_[1] is None:
                a_[1] = v_[1]
        n += n2
    emit(chk, Wk, agg, exclude=("C06", "E3"))
    chk.facts["kernel_schemas"] = n
    chk.floor("C04.kernel", n, 700, "schemas folded and analysed")

    # ------------------------------------------------------- constructor
    chk.rule("C04.normalise", "LinearFilter.__init__ (decision table): a filter argument is cast (divided by the "
                              "denominator when one is given), anything else becomes Poly(numerator) / Poly(denominator "
                              "or 1); then numerator and denominator are both multiplied by x ** -p, p the lowest "
                              "denominator power, exactly when p != 0 - so the denominator starts at delay 0")
    from ..dtable import Facts, walk
    ini = repo.find(LF, "LinearFilter.__init__")
    ib = docstring_free(ini.body)
    ipar = [a.arg for a in ini.args.args]
    chk.require(len(ipar) == 3, "LinearFilter.__init__ signature changed")
    n_, d_ = ipar[1], ipar[2]
    try:
        for nk in ("LinearFilter", "coefficients"):
            for dgiven in (False, True):
                for pw in (0, 2, -1):
                    F = Facts(kinds=dict([(n_, {"LinearFilter"} if nk == "LinearFilter" else {"list"})] +
                                         ([(d_, {"list"})] if dgiven else [])),
                              none=[] if dgiven else [d_], types={"LinearFilter"})

                    def rb(name, value, F_, pw=pw):
                        F_.forget(name)
                        if name == n_ and nk == "LinearFilter":
                            F_.kinds[n_] = {"LinearFilter"}
                        if name == "power" or (isinstance(value, ast.Call) and unparse(value.func) == "min"
                                               and "denpoly" in unparse(value)):
                            F_.values[name] = pw
                    w = walk(ib, F, "LinearFilter.__init__", rebind=rb)
                    t = w.texts()
                    if nk == "LinearFilter":
                        cast = "%s = operator.truediv(%s, %s)" % (n_, n_, d_) in t or "%s = %s / %s" % (n_, n_, d_) in t
                        ok = cast == dgiven and "self.numpoly = %s.numpoly" % n_ in t and "self.denpoly = %s.denpoly" % n_ in t
                        if ok and cast:
                            ok = t.index("%s = operator.truediv(%s, %s)" % (n_, n_, d_) if "%s = operator.truediv(%s, %s)" % (n_, n_, d_) in t
                                         else "%s = %s / %s" % (n_, n_, d_)) < t.index("self.numpoly = %s.numpoly" % n_)
                    else:
                        ok = "self.numpoly = Poly(%s)" % n_ in t and \
                            ("self.denpoly = Poly(%s)" % d_ if dgiven else "self.denpoly = Poly({0: 1})") in t
                    scaled = [x for x in t if x.startswith("self.numpoly *= ") or x.startswith("self.denpoly *= ")]
                    if pw == 0:
                        ok2 = not scaled
                    else:
                        ok2 = sorted(scaled) == ["self.denpoly *= poly_delta", "self.numpoly *= poly_delta"]
                        pd = [st for st in w.ran if isinstance(st, ast.Assign) and unparse(st.targets[0]) == "poly_delta"]
                        expo = None
                        if ok2 and len(pd) == 1:
                            v_ = pd[0].value
                            if isinstance(v_, ast.BinOp) and isinstance(v_.op, ast.Pow) and unparse(v_.left) in ("Poly([0, 1])", "Poly({1: 1})"):
                                expo = v_.right                      # x ** e
                            elif isinstance(v_, ast.Call) and unparse(v_.func) == "Poly" and len(v_.args) == 1 \
                                    and isinstance(v_.args[0], ast.Dict) and len(v_.args[0].keys) == 1 \
                                    and unparse(v_.args[0].values[0]) == "1":
                                expo = v_.args[0].keys[0]            # the monomial x ** e written as {e: 1}
                        ok2 = ok2 and expo is not None
                        if ok2:
                            try:
                                ok2 = Evaluator().ev(expo) == -RF.sym("power")
                            except Inconclusive:
                                ok2 = False
                    ends_ok = w.end == "fall" or (w.end == "return" and w.last is not None and w.last.value is None)
                    chk.decide(ok and ok2 and ends_ok, "C04.normalise", W("LinearFilter.__init__"),
                               "%s%s, lowest denominator power %d: %s" % (nk, " with denominator" if dgiven else "", pw,
                                                                         "; ".join(x for x in t if not x.startswith("power"))[:150]),
                               why="documented constructor: cast or Poly(..) of both parts, then both parts times "
                                   "x ** -power exactly when power != 0", node=ini)
        pdef = [st for st in ib if isinstance(st, ast.Assign) and unparse(st.targets[0]) == "power"]
        chk.decide(len(pdef) == 1 and unparse(pdef[0].value) in ("min((key for key, value in self.denpoly.terms()))",
                                                                  "min((k for k, v in self.denpoly.terms()))",
                                                                  "min(self.denpoly._data)", "min(self.denpoly.keys())"),
                   "C04.normalise", W("LinearFilter.__init__"), short(pdef[0]) if pdef else "power not computed",
                   why="the shift is by the lowest power of the denominator", node=ini)
    except AnalysisError as ex:
        chk.defer(str(ex))

    # ------------------------------------------------------- causality guard
    chk.rule("C04.causal-first", "the first statement of __call__ raises ValueError when any key of numpoly.terms() "
                                 "or denpoly.terms() is negative")
    st = body[0]
    good = isinstance(st, ast.If) and len(st.body) == 1 and isinstance(st.body[0], ast.Raise) \
        and "ValueError" in unparse(st.body[0]) and not st.orelse
    detail = ""
    if good:
        t = st.test
        good = isinstance(t, ast.Call) and unparse(t.func) == "any" and isinstance(t.args[0], ast.GeneratorExp)
        if good:
            ge = t.args[0]
            tgt = ge.generators[0].target
            key = tgt.elts[0].id if isinstance(tgt, ast.Tuple) else unparse(tgt)
            src = unparse(ge.generators[0].iter)
            good = unparse(ge.elt) in ("%s < 0" % key, "0 > %s" % key) and "self.numpoly.terms()" in src \
                and "self.denpoly.terms()" in src and not ge.generators[0].ifs
            detail = "any(%s for ... in %s)" % (unparse(ge.elt), src)
    chk.decide(good, "C04.causal-first", W("LinearFilter.__call__"), "first statement: " + short(st),
               why="a filter with a negative delay must refuse to run before anything else happens (ValueError), "
                   "testing the keys of both polynomials", detail=detail, node=st)

    # ---------------------------------------------------------------- lengths
    chk.rule("C04.lengths", "la = len(self.denominator), lb = len(self.numerator), lm = la - 1")
    env = {}
    found = {}
    for s in body:
        if isinstance(s, ast.Assign):
            t = s.targets[0]
            if isinstance(t, ast.Tuple) and [unparse(e) for e in t.elts] == ["la", "lb"] and isinstance(s.value, ast.Tuple):
                found["la"], found["lb"] = [unparse(e) for e in s.value.elts]
            elif unparse(t) in ("la", "lb", "lm"):
                found[unparse(t)] = unparse(s.value)
    # what the sizes are, not how they are spelled: the builder folded for schemas of several shapes
    sem = []
    for n_, d_ in (({0: "generic"}, {0: "one"}), ({0: "one", 3: "generic"}, {0: "generic", 1: "generic"}),
                   ({}, {0: "one", 4: "generic"}), ({2: "stream"}, {0: "minus_one", 1: "stream", 2: "generic"}),
                   ({0: "generic", 1: "generic", 2: "generic"}, {0: "generic"})):
        sch_ = K.Schema(n_, d_)
        try:
            fk_ = K.fold_kernel(call, sch_)
        except Inconclusive:
            sem = None
            break
        want_la, want_lb = max(sch_.den) + 1, (max(sch_.num) + 1 if sch_.num else 0)
        sem.append((sch_.label(), fk_.get("la"), fk_.get("lb"), fk_.get("lm"), want_la, want_lb))
    if sem and all(isinstance(x[3], int) and all(v is None or isinstance(v, int) for v in x[1:3]) for x in sem):
        # (la / lb may have been written out where they are used: what is still a local has to be right)
        bad_ = [x for x in sem if x[3] != x[4] - 1 or (x[1] is not None and x[1] != x[4]) or (x[2] is not None and x[2] != x[5])]
        chk.decide(not bad_, "C04.lengths", W("LinearFilter.__call__"),
                   "la, lb, lm for %d coefficient layouts: %s" % (len(sem), "; ".join("%s,%s,%s" % (x[1], x[2], x[3]) for x in sem)),
                   why="state sizes must be the dense denominator / numerator lengths and lm = la - 1; for %s the builder "
                       "computes la, lb, lm = %s" % (bad_[0][0], bad_[0][1:4]) if bad_ else "", node=call)
    else:
        chk.decide(found.get("la") == "len(self.denominator)" and found.get("lb") == "len(self.numerator)",
                   "C04.lengths", W("LinearFilter.__call__"), "la, lb = %s, %s" % (found.get("la"), found.get("lb")),
                   why="state sizes must come from the denominator / numerator lengths", node=call)
        try:
            ok = Evaluator().ev(ast.parse(found.get("lm", "0"), mode="eval").body) == RF.sym("la") - 1
        except Inconclusive:
            ok = False
        chk.decide(ok, "C04.lengths", W("LinearFilter.__call__"), "lm = %s" % found.get("lm"),
                   why="memory size must be the denominator order la - 1", node=call)

    # ----------------------------------------------------------------- memory
    chk.rule("C04.memory", "memory None -> lm copies of zero; a non-iterable memory is called with lm; otherwise the "
                           "first lm items are kept in order (takewhile index < lm over enumerate, or islice)")
    # which preparation for which kind of memory argument (decision table; the arm-by-arm rules below read the contents)
    from ..dtable import Facts, walk
    prefix = []
    for st in body:
        if isinstance(st, ast.Assign) and unparse(st.targets[0]) == "data_sum":
            break
        prefix.append(st)
    try:
        for mk in ("None", "callable", "iterable"):
            F = Facts(kinds={} if mk == "None" else {"memory": {"function"} if mk == "callable" else {"list", "Iterable"}},
                      none=["memory"] if mk == "None" else [],
                      truths={"isinstance(self.denpoly[0], Stream)": False, "self.denpoly[0] == 0": False,
                              "callable(memory)": mk == "callable"}, values={"lm": 2, "actual_len": 2}, types={"Iterable", "Stream"})

            def rbk(name, value, F_, mk=mk):
                keep_k = F_.kinds.get("memory")
                F_.forget(name)
                if name == "memory" and isinstance(value, ast.Call) and unparse(value.func) == "memory":
                    F_.kinds["memory"] = {"list", "Iterable"}        # what the callable returned
                elif name == "memory":
                    F_.kinds["memory"] = {"list", "Iterable"}
                elif name in ("lm",):
                    F_.values["lm"] = 2
            w = walk(prefix, F, "LinearFilter.__call__ memory", rebind=rbk, strict=False)
            t = w.texts()
            called = [x for x in t if x.startswith("memory = memory(")]
            zeros_ = [x for x in t if x in ("memory = [zero for unused in xrange(lm)]", "memory = [zero for unused in range(lm)]",
                                            "memory = [zero for _ in xrange(lm)]", "memory = [zero for _ in range(lm)]",
                                            "memory = [zero] * lm", "memory = lm * [zero]")]
            trunc = [x for x in t if x not in zeros_ and x not in called and "lm" in x
                     and any(k_ in x for k_ in ("takewhile", "islice", "enumerate", "[:lm]"))]
            if mk == "None":
                ok = len(zeros_) == 1 and not called and not trunc
            elif mk == "callable":
                ok = called == ["memory = memory(lm)"] and not zeros_ and trunc and t.index(called[0]) < min(t.index(x) for x in trunc)
            else:
                ok = not called and not zeros_ and bool(trunc)
            chk.decide(ok and w.end == "fall", "C04.memory", W("LinearFilter.__call__"),
                       "memory=<%s>: %s" % (mk, "; ".join(x for x in t if "memory" in x)[:140]),
                       why="None -> lm zeros; a callable is asked for lm items first; an iterable is truncated to its "
                           "first lm items", node=call)
    except AnalysisError as ex:
        chk.defer(str(ex))
    mem_if = [s for s in body if isinstance(s, ast.If) and unparse(s.test) == "memory is None"]
    chk.require(len(mem_if) == 1, "LinearFilter.__call__: 'if memory is None' block not found")
    mi = mem_if[0]
    a = mi.body[0]
    good = False
    if isinstance(a, ast.Assign) and unparse(a.targets[0]) == "memory":
        v = a.value
        if isinstance(v, ast.ListComp) and unparse(v.elt) == "zero" and len(v.generators) == 1 \
                and canon_call(mod, v.generators[0].iter) == "range" \
                and [unparse(x) for x in v.generators[0].iter.args] == ["lm"]:
            good = True
        elif unparse(v) in ("[zero] * lm", "lm * [zero]"):
            good = True
    chk.decide(good, "C04.memory", W("LinearFilter.__call__"), "no memory: " + short(a),
               why="initial y[-k] must be lm copies of the zero value", node=a)
    calls = [n for n in ast.walk(mi) if isinstance(n, ast.Assign) and unparse(n.targets[0]) == "memory"
             and isinstance(n.value, ast.Call) and unparse(n.value.func) == "memory"]
    good = len(calls) == 1 and [unparse(x) for x in calls[0].value.args] == ["lm"] and not calls[0].value.keywords
    guard_ok = False
    if calls:
        p = calls[0]._parent
        guard_ok = isinstance(p, ast.If) and unparse(p.test) == "not isinstance(memory, Iterable)"
    chk.decide(good and guard_ok, "C04.memory", W("LinearFilter.__call__"),
               "callable memory: " + (short(calls[0]) if calls else "<not found>"),
               why="a callable memory must be asked for exactly the needed size lm (only when not iterable)", node=mi)
    tws = [n for n in ast.walk(mi) if isinstance(n, ast.Call) and canon_call(mod, n) in ("itertools.takewhile",
                                                                                          "itertools.islice")]
    loop_form = None
    if not tws:
        # src = memory ; memory = [] ; for idx, data in enumerate(src): if not idx < lm: break ; memory.append(data)
        for lp_ in [n for n in ast.walk(mi) if isinstance(n, ast.For)]:
            if isinstance(lp_.iter, ast.Call) and unparse(lp_.iter.func) == "enumerate" and isinstance(lp_.target, ast.Tuple) \
                    and len(lp_.target.elts) == 2 and len(lp_.body) == 2 and isinstance(lp_.body[0], ast.If) \
                    and len(lp_.body[0].body) == 1 and isinstance(lp_.body[0].body[0], ast.Break) and not lp_.body[0].orelse:
                loop_form = lp_
    chk.require(len(tws) == 1 or loop_form is not None,
                "LinearFilter.__call__: memory truncation idiom (takewhile/islice/enumerate loop with break) not found")
    if loop_form is not None:
        iv, dv = [unparse(x) for x in loop_form.target.elts]
        t_ = unparse(loop_form.body[0].test)
        good = t_ in ("not %s < lm" % iv, "%s >= lm" % iv, "lm <= %s" % iv, "not lm > %s" % iv)
        chk.decide(good, "C04.memory", W("LinearFilter.__call__"), "truncation: stop at " + t_,
                   why="keep exactly the items with index < lm, in order", node=loop_form)
        good = unparse(loop_form.body[1]) == "memory.append(%s)" % dv
        srcname = unparse(loop_form.iter.args[0])
        pre = [n for n in ast.walk(mi) if isinstance(n, ast.Assign) and n.lineno <= loop_form.lineno]
        fresh_ = False
        src_ok = False
        # the items may also be collected in a list of their own that becomes the memory afterwards
        app_ = loop_form.body[1]
        if not good and isinstance(app_, ast.Expr) and isinstance(app_.value, ast.Call) and isinstance(app_.value.func, ast.Attribute) \
                and app_.value.func.attr == "append" and isinstance(app_.value.func.value, ast.Name) \
                and [unparse(a_) for a_ in app_.value.args] == [dv] and srcname == "memory":
            lname = app_.value.func.value.id
            inits_ = [a_ for a_ in pre if len(a_.targets) == 1 and unparse(a_.targets[0]) == lname and unparse(a_.value) == "[]"]
            arm_ = mi.orelse
            after_ = [st_ for st_ in arm_ if isinstance(st_, ast.Assign) and unparse(st_.targets[0]) == "memory"
                      and unparse(st_.value) == lname and st_.lineno > loop_form.lineno]
            if len(inits_) == 1 and len(after_) == 1:
                good, fresh_, src_ok = True, True, True
        for a_ in pre:
            if len(a_.targets) == 1 and isinstance(a_.targets[0], ast.Tuple) and isinstance(a_.value, ast.Tuple):
                for t2, v2 in zip(a_.targets[0].elts, a_.value.elts):
                    if unparse(t2) == "memory" and unparse(v2) == "[]":
                        fresh_ = True
                    if unparse(t2) == srcname and unparse(v2) == "memory":
                        src_ok = True
            elif len(a_.targets) == 1:
                if unparse(a_.targets[0]) == "memory" and unparse(a_.value) == "[]":
                    fresh_ = True
                if unparse(a_.targets[0]) == srcname and unparse(a_.value) == "memory":
                    src_ok = True
        chk.decide(good and fresh_ and src_ok, "C04.memory", W("LinearFilter.__call__"),
                   "items kept in order: " + short(loop_form.body[1]),
                   why="memory list must be the given items, in their order, collected into a new list", node=mi)
    tw = tws[0] if tws else None
    if tw is None:
        pass
    elif canon_call(mod, tw) == "itertools.islice":
        good = [unparse(x) for x in tw.args] == ["memory", "lm"]
        chk.decide(good, "C04.memory", W("LinearFilter.__call__"), "truncation: " + short(tw),
                   why="keep exactly the first lm items", node=tw)
    else:
        lam, src = tw.args
        good = isinstance(lam, ast.Lambda) and len(lam.args.args) == 1 and unparse(src) == "enumerate(memory)"
        if good:
            pv = lam.args.args[0].arg
            good = unparse(lam.body) in ("%s[0] < lm" % pv, "lm > %s[0]" % pv)
        chk.decide(good, "C04.memory", W("LinearFilter.__call__"), "truncation: " + short(tw),
                   why="keep exactly the items with index < lm, in order", node=tw)
        twname = None
        p = tw._parent
        if isinstance(p, ast.Assign):
            twname = unparse(p.targets[0])
        comps = [n for n in ast.walk(mi) if isinstance(n, ast.Assign) and unparse(n.targets[0]) == "memory"
                 and isinstance(n.value, ast.ListComp) and n in mi.orelse]
        good = False
        if comps and (twname or any(c_.value.generators[0].iter is tw for c_ in comps)):
            c = comps[-1].value
            g = c.generators[0]
            good = (unparse(g.iter) == twname or g.iter is tw) and isinstance(g.target, ast.Tuple) and len(g.target.elts) == 2 \
                and unparse(c.elt) == unparse(g.target.elts[1]) and not g.ifs
        if not comps and twname:
            # L = [] ; for idx, data in tw: L.append(data)   - the same items, in the same order, in a list of their own
            for lp_ in [n for n in mi.orelse if isinstance(n, ast.For) and unparse(n.iter) == twname and not n.orelse]:
                if isinstance(lp_.target, ast.Tuple) and len(lp_.target.elts) == 2 and len(lp_.body) == 1 \
                        and isinstance(lp_.body[0], ast.Expr) and isinstance(lp_.body[0].value, ast.Call) \
                        and isinstance(lp_.body[0].value.func, ast.Attribute) and lp_.body[0].value.func.attr == "append" \
                        and isinstance(lp_.body[0].value.func.value, ast.Name) \
                        and [unparse(a_) for a_ in lp_.body[0].value.args] == [unparse(lp_.target.elts[1])]:
                    ln_ = lp_.body[0].value.func.value.id
                    ini_ = [a_ for a_ in mi.orelse[:mi.orelse.index(lp_)] if isinstance(a_, ast.Assign)
                            and unparse(a_.targets[0]) == ln_ and unparse(a_.value) == "[]"]
                    if len(ini_) == 1:
                        comps = [lp_]
                        good = True
        chk.decide(good, "C04.memory", W("LinearFilter.__call__"),
                   "items kept in order: " + (short(comps[-1]) if comps else "<not found>"),
                   why="memory list must be the data component of the enumerated pairs, in their order", node=mi)

    # a short memory is completed with zeros in front of the given items
    chk.rule("C04.memory-pad", "a memory with fewer than lm items is preceded by lm - len(memory) copies of the zero "
                               "value, as list(zero_pad(items, n, zero=zero)) (left padding, see C08.zero_pad) or "
                               "[zero] * n + items, exactly when it is short (the guard is evaluated for a short and a "
                               "complete memory; names are resolved through their defining assignments)")
    pad_sites = []
    for n_ in [x for st_ in mi.orelse for x in ast.walk(st_)]:
        if isinstance(n_, ast.Call) and canon_call(mod, n_) in ("lazy_misc:zero_pad", "zero_pad") and len(n_.args) == 2 \
                and [(k.arg, unparse(k.value)) for k in n_.keywords] == [("zero", "zero")]:
            pad_sites.append((n_, n_.args[0], n_.args[1]))
        elif isinstance(n_, ast.BinOp) and isinstance(n_.op, ast.Add) and isinstance(n_.left, ast.BinOp) and isinstance(n_.left.op, ast.Mult) \
                and "[zero]" in (unparse(n_.left.left), unparse(n_.left.right)):
            cnt_ = n_.left.right if unparse(n_.left.left) == "[zero]" else n_.left.left
            pad_sites.append((n_, n_.right, cnt_))
    if len(pad_sites) != 1:
        chk.note("C04.memory-pad", W("LinearFilter.__call__"), "%d padding construct(s) recognised in the given-memory arm: the "
                 "completion of a short memory is not decided" % len(pad_sites))
    else:
        site, padded, count = pad_sites[0]
        defs_ = {}
        for a_ in [x for st_ in mi.orelse for x in ast.walk(st_)]:
            if isinstance(a_, ast.Assign) and len(a_.targets) == 1 and isinstance(a_.targets[0], ast.Name) \
                    and a_.lineno <= site.lineno and a_.value is not site and site not in list(ast.walk(a_.value)):
                defs_.setdefault(a_.targets[0].id, []).append(a_.value)
        pname = unparse(padded)
        Lsym, lm_sym = RF.sym("len_items"), RF.sym("lm")

        def resolve(e_, depth=0):
            """RF value in terms of lm and the number of items kept"""
            def hk(ev, name, node):
                if name == "len" and len(node.args) == 1 and unparse(node.args[0]) == pname:
                    return Lsym
                return None
            env_ = {}
            for nm_ in {x.id for x in ast.walk(e_) if isinstance(x, ast.Name)}:
                if nm_ == "lm":
                    env_[nm_] = lm_sym
                elif nm_ in defs_ and len(defs_[nm_]) == 1 and depth < 4:
                    env_[nm_] = resolve(defs_[nm_][0], depth + 1)
            return Evaluator(env_, call_hook=hk).ev(e_)
        try:
            cnt_rf = resolve(count)
            okc = cnt_rf == lm_sym - Lsym
        except Inconclusive:
            okc = None
        if okc is None:
            chk.note("C04.memory-pad", W("LinearFilter.__call__"), "padding count %s not interpretable: not decided" % unparse(count))
        else:
            chk.decide(okc, "C04.memory-pad", W("LinearFilter.__call__"), "padding count %s = %s" % (unparse(count), cnt_rf.key()),
                       why="missing items are the zero value: exactly lm - len(items) zeros in front", node=site)
        # the guard under which the padding runs
        g_ = site
        while g_ is not None and not (isinstance(g_, (ast.If, ast.IfExp)) and any(site is x for fld_ in ("body",) for x in (
                ast.walk(g_.body) if isinstance(g_, ast.IfExp) else [y for s_ in g_.body for y in ast.walk(s_)]))) \
                and not (isinstance(g_, (ast.If, ast.IfExp)) and any(site is x for x in (
                    ast.walk(g_.orelse) if isinstance(g_, ast.IfExp) else [y for s_ in g_.orelse for y in ast.walk(s_)]))):
            g_ = getattr(g_, "_parent", None)
            if g_ is mi:
                g_ = None
        if g_ is None:
            chk.note("C04.memory-pad", W("LinearFilter.__call__"), "padding is not under a recognisable guard: when it runs is not decided")
        else:
            in_body = any(site is x for x in (ast.walk(g_.body) if isinstance(g_, ast.IfExp) else [y for s_ in g_.body for y in ast.walk(s_)]))
            verdicts = []
            for have, lmv in ((1, 3), (0, 2), (3, 3), (2, 2)):
                try:
                    diff_ok = None
                    t_ = g_.test
                    # evaluate the test with every name resolved to a number
                    def numeric(e_):
                        return resolve(e_).subst({"lm": RF.const(lmv), "len_items": RF.const(have)})
                    def truth_(t2):
                        if isinstance(t2, ast.UnaryOp) and isinstance(t2.op, ast.Not):
                            r2 = truth_(t2.operand)
                            return None if r2 is None else (not r2)
                        if isinstance(t2, ast.BoolOp):
                            vals_ = [truth_(v2) for v2 in t2.values]
                            if any(v2 is None for v2 in vals_):
                                return None
                            return all(vals_) if isinstance(t2.op, ast.And) else any(vals_)
                        if isinstance(t2, ast.Compare) and len(t2.ops) == 1:
                            lv, rv = numeric(t2.left), numeric(t2.comparators[0])
                            dv = (lv - rv).as_int()
                            return {ast.Lt: dv < 0, ast.LtE: dv <= 0, ast.Gt: dv > 0, ast.GtE: dv >= 0, ast.Eq: dv == 0,
                                    ast.NotEq: dv != 0}.get(type(t2.ops[0]))
                        if isinstance(t2, ast.Name):
                            return numeric(t2).as_int() != 0
                        return None
                    diff_ok = truth_(t_)
                    verdicts.append((have, lmv, diff_ok))
                except Inconclusive:
                    verdicts.append((have, lmv, None))
            if any(v_[2] is None for v_ in verdicts):
                chk.note("C04.memory-pad", W("LinearFilter.__call__"), "guard %s of the padding not interpretable: not decided" % unparse(g_.test))
            else:
                okg = all((v_[2] == in_body) == (v_[0] < v_[1]) for v_ in verdicts)
                chk.decide(okg, "C04.memory-pad", W("LinearFilter.__call__"), "padding runs exactly when the memory is short: %s" % unparse(g_.test),
                           why="with %s" % ", ".join("%d of %d items -> %s" % (h_, l_, "padded" if (r_ == in_body) else "kept") for h_, l_, r_ in verdicts),
                           node=g_)

    # ownership of the memory list
    chk.rule("C04.memory-own", "the memory handed to the (lazily started) kernel is a list created inside __call__ on "
                               "every path: the rebuild 'memory = [...]' in the given-memory arm is unconditional")
    rebuilds = [n for n in ast.walk(mi) if isinstance(n, ast.Assign) and unparse(n.targets[0]) == "memory"
                and isinstance(n.value, (ast.ListComp, ast.List)) or
                (isinstance(n, ast.Assign) and unparse(n.targets[0]) == "memory" and isinstance(n.value, ast.Call)
                 and unparse(n.value.func) == "list")]
    in_else = [n for n in rebuilds if n in mi.orelse]
    if not in_else:
        # the items are collected into a list made in this arm that ends up as the memory (possibly after padding)
        made_here = {unparse(m_.targets[0]) for m_ in mi.orelse if isinstance(m_, ast.Assign) and len(m_.targets) == 1
                     and (isinstance(m_.value, (ast.List, ast.ListComp)) or (isinstance(m_.value, ast.Call) and unparse(m_.value.func) == "list"))}
        for n in mi.orelse:
            if isinstance(n, ast.Assign) and unparse(n.targets[0]) == "memory" and isinstance(n.value, ast.Name) \
                    and n.value.id in made_here:
                in_else.append(n)
    if not in_else:
        # memory = L, with L bound to a new list (display / comprehension / list(..)) unconditionally in the same arm
        for n in mi.orelse:
            if isinstance(n, ast.Assign) and unparse(n.targets[0]) == "memory" and isinstance(n.value, ast.Name):
                srcs_ = [m_ for m_ in mi.orelse if isinstance(m_, ast.Assign) and unparse(m_.targets[0]) == n.value.id
                         and (isinstance(m_.value, (ast.List, ast.ListComp)) or (isinstance(m_.value, ast.Call) and unparse(m_.value.func) == "list"))
                         and m_.lineno < n.lineno]
                if len(srcs_) == 1:
                    in_else.append(n)
    if not in_else:
        for n in mi.orelse:
            if isinstance(n, ast.Assign) and len(n.targets) == 1 and isinstance(n.targets[0], ast.Tuple) \
                    and isinstance(n.value, ast.Tuple):
                for t2, v2 in zip(n.targets[0].elts, n.value.elts):
                    if unparse(t2) == "memory" and isinstance(v2, (ast.List, ast.ListComp)):
                        in_else.append(n)
    chk.decide(bool(in_else), "C04.memory-own", W("LinearFilter.__call__"),
               "given memory is copied into a fresh list unconditionally: " + (short(in_else[0]) if in_else else
               "no unconditional 'memory = [...]' in the given-memory arm"),
               why="on some path the kernel keeps the caller's own list: the generator reads it only at the first "
                   "next(), so a later mutation by the caller changes y[-k] (the memory must be the one given at the "
                   "call)", node=mi)

    # ------------------------------------------------------------- exec wiring
    chk.rule("C04.exec", "the generated source is '\\n'.join(gen_func), evaluated to its 'gen'; it is called with "
                         "[iter(seq), memory, zero] followed by iter(self.numpoly[idx]) over num_iterables then "
                         "iter(self.denpoly[idx]) over den_iterables, matching the order of arg_names; the result "
                         "is wrapped in a Stream")
    gen_asg = [s for s in body if isinstance(s, ast.Assign) and unparse(s.targets[0]) == "gen"]
    chk.require(len(gen_asg) == 1, "assignment of 'gen' not found")
    v = gen_asg[0].value
    good = isinstance(v, ast.Call) and unparse(v.func) == "_exec_eval" and len(v.args) == 2 \
        and unparse(v.args[0]) == "'\\n'.join(gen_func)" and unparse(v.args[1]) == "'gen'"
    chk.decide(good, "C04.exec", W("LinearFilter.__call__"), short(gen_asg[0]),
               why="the function executed must be the one assembled in gen_func", node=gen_asg[0])
    ee = repo.find(LF, "_exec_eval")
    ee_txt = [unparse(s) for s in docstring_free(ee.body)]
    good = ee_txt == ["ns = {}", "exec(data, ns)", "return eval(expr, ns)"]
    chk.decide(good or ("exec(data" in " ".join(ee_txt) and "eval(expr" in " ".join(ee_txt)), "C04.exec",
               W("_exec_eval"), "; ".join(ee_txt), why="_exec_eval must exec the data and return eval(expr) from it",
               node=ee)
    # what the kernel is called with, folded for schemas with and without coefficient Streams
    call_schemas = [K.Schema({0: "generic", 1: "stream"}, {0: "one", 1: "stream", 2: "generic"}),
                    K.Schema({0: "stream", 2: "stream"}, {0: "generic", 2: "stream"}),
                    K.Schema({0: "generic"}, {0: "one", 1: "generic"}),
                    K.Schema({1: "stream"}, {0: "minus_one"})]
    for sch in call_schemas:
        try:
            fa = K.fold_arguments(call, sch)
        except Inconclusive as ex:
            raise AnalysisError("cannot fold the kernel call of LinearFilter.__call__ for %s: %s" % (sch.label(), ex))
        ni, di = fa["num_iterables"] or [], fa["den_iterables"] or []
        if fa["num_iterables"] is None or fa["den_iterables"] is None \
                or not (isinstance(ni, list) and isinstance(di, list) and all(isinstance(k_, int) for k_ in ni + di)):
            # the builder keeps its bookkeeping in another shape: the expected arguments follow from the coefficients
            ni = [k_ for k_, t_ in sch.num.items() if t_.cls == "stream"]
            di = [k_ for k_, t_ in sch.den.items() if t_.cls == "stream" and k_ != 0]
        want_args = ["iter(seq)", "memory", "zero"] + ["iter(self.numpoly[%r])" % k for k in ni] \
            + ["iter(self.denpoly[%r])" % k for k in di]
        want_names = ["seq", "memory", "zero"] + ["b%d" % k for k in ni] + ["a%d" % k for k in di]
        streams_n = [k for k, t in sch.num.items() if t.cls == "stream"]
        streams_d = [k for k, t in sch.den.items() if t.cls == "stream" and k != 0]
        # a coefficient handed on as the object met while the terms were built is that same coefficient
        alt_args = ["iter(seq)", "memory", "zero"] + ["iter(<stream Bc%d>)" % k for k in ni] + ["iter(<stream Ac%d>)" % k for k in di]
        args_ok = len(fa["args"]) == len(want_args) and all(g_ in (w_, a_) for g_, w_, a_ in zip(fa["args"], want_args, alt_args))
        ok_ = args_ok and (fa["arg_names"] in (None, want_names) if not (ni or di) else fa["arg_names"] == want_names) \
            and sorted(ni) == sorted(streams_n) and sorted(di) == sorted(streams_d) \
            and fa["wrapper"] == "Stream" and fa["callee"] == "gen"
        chk.decide(ok_, "C04.exec", W("LinearFilter.__call__"),
                   "[%s] Stream(gen(%s)) for parameters %s" % (sch.label(), ", ".join(fa["args"]), fa["arg_names"]),
                   why="kernel must receive the input iterator, the memory list and zero, then the iterator of every "
                       "Stream coefficient - numerator first, each from its own polynomial at its own delay - in the "
                       "order of its parameter names b<delay>/a<delay>; expected %s for %s" % (want_args, want_names), node=call)
    # zero-gain guard
    # (as an ``if`` of its own or as the ``elif`` of the time-varying-gain test before it)
    top_ifs = []
    for s_ in body:
        while isinstance(s_, ast.If):
            top_ifs.append(s_)
            s_ = s_.orelse[0] if len(s_.orelse) == 1 else None
    zg = [s for s in top_ifs if unparse(s.test) in ("self.denpoly[0] == 0", "0 == self.denpoly[0]")]
    chk.decide(len(zg) == 1 and isinstance(zg[0].body[0], ast.Raise), "C04.exec", W("LinearFilter.__call__"),
               "a[0] == 0 is rejected: " + (short(zg[0]) if zg else "<not found>"),
               why="a0 must be non-zero before dividing by it", node=call)


def thorough(chk, repo):
    import time
    t0 = time.time()
    schemas = list(K.thorough_schemas(2))
    Wk, agg, n = kernel_obligations(chk, repo, schemas)
    # sparse order-3 shapes
    import itertools
    extra = []
    for combo in itertools.product([None, "one", "generic", "stream"], repeat=4):
        nn = {k: c for k, c in enumerate(combo) if c is not None}
        extra.append((nn, {0: "generic", 3: "minus_one"}))
        dd = {0: "one"}
        dd.update({k + 1: c for k, c in enumerate(combo[:3]) if c is not None})
        extra.append(({0: "one", 3: "generic"}, dd))
    W2, agg2, n2 = kernel_obligations(chk, repo, extra)
    for k, v in agg2.items():
        a = agg.setdefault(k, [0, None, 0])
        a[0] += v[0]
        a[2] += v[2]
        a[1] = a[1] or v[1]
    chk.rule("C04.thorough", "the kernel rules over the exhaustive product of coefficient classes up to order 2 in "
                             "both polynomials, plus order-3 shapes")
    for (rule, text), (okc, fail, nfail) in sorted(agg.items()):
        if rule.startswith("C06") or rule == "E3":
            continue
        if fail is not None:
            chk.bad(rule, Wk, text + " [exhaustive tier]", fail)
        else:
            chk.ok_many(rule, Wk, text + " [exhaustive tier]", okc)
    return {"thorough_kernel_schemas": n + n2, "thorough_wall_s": round(time.time() - t0, 2),
            "exhaustive_note": "coefficient classes {absent,1,-1,generic,Stream} at delays 0..2 of both polynomials "
                               "x a0 in {1,-1,generic}: exhaustive; sample values symbolic"}
