"""C04  A constant-coefficient filter computes its difference equation."""
import ast

from ..core import (AnalysisError, FuncTypes, unparse, short, canon, canon_call, base_name, own_nodes,
                    docstring_free)
from ..ratfun import RF, Evaluator, Inconclusive
from .. import kernel as K

EXPLANATION = (
    "Static analysis of LinearFilter.__call__ (audiolazy/lazy_filters.py). The method builds Python source and "
    "exec's it; the checker folds the string-building slice of the method (constant folding over abstract "
    "coefficient tokens: 1, -1, generic value with several str() shapes, Stream; no repository code is called) to "
    "reconstruct the generated generator for a family of schemas (every coefficient class at every delay up to 2 "
    "against partner polynomials, sparse high delays, pasted-value shapes P/Q, -P/Q, -P, floats), parses each "
    "generated function and proves in rational normal form, with symbolic samples, one inductive step: "
    "a0*y[n] = sum b_k x[n-k] - sum a_k y[n-k], the state shift m_k<-m_(k-1), d_k<-d_(k-1) after the yield, "
    "m_k = k-th memory item, d_k = zero initially, exactly one yield per input, all state variables defined, the "
    "all-zero filter yields the zero value. Besides: the causality guard (ValueError) is the first statement and "
    "covers both polynomials; memory normalisation (None -> lm zeros, callable asked for lm, first lm items in "
    "order); lm = len(denominator) - 1; the kernel is called with (iter(seq), memory, zero, iterators...) in the "
    "order of its parameters. Bounded over schemas (orders <= 2 exhaustively in the thorough tier, plus gaps), "
    "unbounded over sample values and lengths. Not decided: memories shorter than the order, exact coefficient "
    "types (values are pasted as text).")

UNDECIDED = ["filters of order > 2 beyond the sampled sparse shapes (same code path: loops over the term dicts)",
             "short memories (padding side)", "exact numeric types of pasted coefficients"]

LF = "lazy_filters"


def kernel_obligations(chk, repo, schemas, rules_prefix=("C04", "E3x"), where_suffix=""):
    """Run the kernel analysis over schemas; aggregate per rule.  Returns counts."""
    mod = repo.mod(LF)
    fn = repo.find(LF, "LinearFilter.__call__")
    W = "%s:LinearFilter.__call__<generated kernel>" % mod.relpath
    agg = {}        # (rule, text) -> [ok_count, first_failure]
    n = 0
    for num, den in schemas:
        sch = K.Schema(num, den)
        try:
            folded = K.fold_kernel(fn, sch)
        except Inconclusive as ex:
            raise AnalysisError("cannot fold the kernel builder of LinearFilter.__call__ for %s: %s" % (sch.label(), ex))
        rep = K.analyse_kernel(folded, sch)
        n += 1
        for rule, ok, text, why in rep.items:
            if rule == "C04.equation":
                text = "a0*y[n] = sum b_k*x[n-k] - sum a_k*y[n-k] (one symbolic step of the generated loop)"
            elif text.startswith("m1..m") or text.startswith("d1..d"):
                text = text.split(" ", 1)[1] if False else \
                    ("m_k unpacked from memory in ascending order (m_k = k-th memory item)" if text.startswith("m1")
                     else "d_k start as the zero value")
            a = agg.setdefault((rule, text), [0, None, 0])
            if ok:
                a[0] += 1
            else:
                a[2] += 1
                if a[1] is None:
                    a[1] = "%s -- first failing schema: %s (%d schema(s) fail)" % (why, sch.label(), 0)
    return W, agg, n


def emit(chk, W, agg, only=None, exclude=None):
    for (rule, text), (okc, fail, nfail) in sorted(agg.items()):
        if only and not any(rule.startswith(p) for p in only):
            continue
        if exclude and any(rule.startswith(p) for p in exclude):
            continue
        if fail is not None:
            chk.bad(rule, W, text, fail.replace("(0 schema(s) fail)", "(%d of %d schemas fail)" % (nfail, nfail + okc)))
        else:
            chk.ok_many(rule, W, text, okc, detail="holds for %d generated kernels" % okc)


def run(chk, repo):
    mod = repo.mod(LF)
    W = lambda q: "%s:%s" % (mod.relpath, q)
    call = repo.find(LF, "LinearFilter.__call__")
    body = docstring_free(call.body)
    par = [a.arg for a in call.args.args]
    chk.require(par[:4] == ["self", "seq", "memory", "zero"], "LinearFilter.__call__ signature changed: %s" % par)

    chk.rule("C04.equation", "for every schema the generated loop body satisfies, in rational normal form over "
                             "symbolic samples, a0*m0 = sum_k b_k*d_k - sum_(k>=1) a_k*m_k with the pasted values "
                             "meaning what str() of a number means (operator precedence)")
    chk.rule("C04.shift", "after the yield the state is m_k <- m_(k-1) (m_1 <- the output) and d_k <- d_(k-1) for "
                          "all k (simulated sequentially, so an ascending shift is caught); nothing is shifted "
                          "before the yield")
    chk.rule("C04.memory-order", "m1..m(la-1) are unpacked from memory in ascending order; d_k start as zero")
    chk.rule("C04.one-per-input", "the generated function is one for-loop over its first argument with exactly one "
                                  "unconditional yield per iteration")
    chk.rule("C04.zero-filter", "without terms the kernel yields the zero value once per input")
    chk.rule("C04.names", "every m_k / d_k read is defined by the prologue or the loop")

    schemas = K.quick_schemas()
    Wk, agg, n = kernel_obligations(chk, repo, schemas)
    emit(chk, Wk, agg, exclude=("C06", "E3"))
    chk.facts["kernel_schemas"] = n
    chk.floor("C04.kernel", n, 700, "schemas folded and analysed")

    # ------------------------------------------------------- causality guard
    chk.rule("C04.causal-first", "the first statement of __call__ raises ValueError when any key of numpoly.terms() "
                                 "or denpoly.terms() is negative")
    st = body[0]
    good = isinstance(st, ast.If) and len(st.body) == 1 and isinstance(st.body[0], ast.Raise) \
        and "ValueError" in unparse(st.body[0]) and not st.orelse
    detail = ""
    if good:
        t = st.test
        good = isinstance(t, ast.Call) and unparse(t.func) == "any" and isinstance(t.args[0], ast.GeneratorExp)
        if good:
            ge = t.args[0]
            tgt = ge.generators[0].target
            key = tgt.elts[0].id if isinstance(tgt, ast.Tuple) else unparse(tgt)
            src = unparse(ge.generators[0].iter)
            good = unparse(ge.elt) in ("%s < 0" % key, "0 > %s" % key) and "self.numpoly.terms()" in src \
                and "self.denpoly.terms()" in src and not ge.generators[0].ifs
            detail = "any(%s for ... in %s)" % (unparse(ge.elt), src)
    chk.decide(good, "C04.causal-first", W("LinearFilter.__call__"), "first statement: " + short(st),
               why="a filter with a negative delay must refuse to run before anything else happens (ValueError), "
                   "testing the keys of both polynomials", detail=detail, node=st)

    # ---------------------------------------------------------------- lengths
    chk.rule("C04.lengths", "la = len(self.denominator), lb = len(self.numerator), lm = la - 1")
    env = {}
    found = {}
    for s in body:
        if isinstance(s, ast.Assign):
            t = s.targets[0]
            if isinstance(t, ast.Tuple) and [unparse(e) for e in t.elts] == ["la", "lb"] and isinstance(s.value, ast.Tuple):
                found["la"], found["lb"] = [unparse(e) for e in s.value.elts]
            elif unparse(t) in ("la", "lb", "lm"):
                found[unparse(t)] = unparse(s.value)
    chk.decide(found.get("la") == "len(self.denominator)" and found.get("lb") == "len(self.numerator)",
               "C04.lengths", W("LinearFilter.__call__"), "la, lb = %s, %s" % (found.get("la"), found.get("lb")),
               why="state sizes must come from the denominator / numerator lengths", node=call)
    try:
        ok = Evaluator().ev(ast.parse(found.get("lm", "0"), mode="eval").body) == RF.sym("la") - 1
    except Inconclusive:
        ok = False
    chk.decide(ok, "C04.lengths", W("LinearFilter.__call__"), "lm = %s" % found.get("lm"),
               why="memory size must be the denominator order la - 1", node=call)

    # ----------------------------------------------------------------- memory
    chk.rule("C04.memory", "memory None -> lm copies of zero; a non-iterable memory is called with lm; otherwise the "
                           "first lm items are kept in order (takewhile index < lm over enumerate, or islice)")
    mem_if = [s for s in body if isinstance(s, ast.If) and unparse(s.test) == "memory is None"]
    chk.require(len(mem_if) == 1, "LinearFilter.__call__: 'if memory is None' block not found")
    mi = mem_if[0]
    a = mi.body[0]
    good = False
    if isinstance(a, ast.Assign) and unparse(a.targets[0]) == "memory":
        v = a.value
        if isinstance(v, ast.ListComp) and unparse(v.elt) == "zero" and len(v.generators) == 1 \
                and canon_call(mod, v.generators[0].iter) == "range" \
                and [unparse(x) for x in v.generators[0].iter.args] == ["lm"]:
            good = True
        elif unparse(v) in ("[zero] * lm", "lm * [zero]"):
            good = True
    chk.decide(good, "C04.memory", W("LinearFilter.__call__"), "no memory: " + short(a),
               why="initial y[-k] must be lm copies of the zero value", node=a)
    calls = [n for n in ast.walk(mi) if isinstance(n, ast.Assign) and unparse(n.targets[0]) == "memory"
             and isinstance(n.value, ast.Call) and unparse(n.value.func) == "memory"]
    good = len(calls) == 1 and [unparse(x) for x in calls[0].value.args] == ["lm"] and not calls[0].value.keywords
    guard_ok = False
    if calls:
        p = calls[0]._parent
        guard_ok = isinstance(p, ast.If) and unparse(p.test) == "not isinstance(memory, Iterable)"
    chk.decide(good and guard_ok, "C04.memory", W("LinearFilter.__call__"),
               "callable memory: " + (short(calls[0]) if calls else "<not found>"),
               why="a callable memory must be asked for exactly the needed size lm (only when not iterable)", node=mi)
    tws = [n for n in ast.walk(mi) if isinstance(n, ast.Call) and canon_call(mod, n) in ("itertools.takewhile",
                                                                                          "itertools.islice")]
    loop_form = None
    if not tws:
        # src = memory ; memory = [] ; for idx, data in enumerate(src): if not idx < lm: break ; memory.append(data)
        for lp_ in [n for n in ast.walk(mi) if isinstance(n, ast.For)]:
            if isinstance(lp_.iter, ast.Call) and unparse(lp_.iter.func) == "enumerate" and isinstance(lp_.target, ast.Tuple) \
                    and len(lp_.target.elts) == 2 and len(lp_.body) == 2 and isinstance(lp_.body[0], ast.If) \
                    and len(lp_.body[0].body) == 1 and isinstance(lp_.body[0].body[0], ast.Break) and not lp_.body[0].orelse:
                loop_form = lp_
    chk.require(len(tws) == 1 or loop_form is not None,
                "LinearFilter.__call__: memory truncation idiom (takewhile/islice/enumerate loop with break) not found")
    if loop_form is not None:
        iv, dv = [unparse(x) for x in loop_form.target.elts]
        t_ = unparse(loop_form.body[0].test)
        good = t_ in ("not %s < lm" % iv, "%s >= lm" % iv, "lm <= %s" % iv, "not lm > %s" % iv)
        chk.decide(good, "C04.memory", W("LinearFilter.__call__"), "truncation: stop at " + t_,
                   why="keep exactly the items with index < lm, in order", node=loop_form)
        good = unparse(loop_form.body[1]) == "memory.append(%s)" % dv
        srcname = unparse(loop_form.iter.args[0])
        pre = [n for n in ast.walk(mi) if isinstance(n, ast.Assign) and n.lineno <= loop_form.lineno]
        fresh_ = False
        src_ok = False
        for a_ in pre:
            if len(a_.targets) == 1 and isinstance(a_.targets[0], ast.Tuple) and isinstance(a_.value, ast.Tuple):
                for t2, v2 in zip(a_.targets[0].elts, a_.value.elts):
                    if unparse(t2) == "memory" and unparse(v2) == "[]":
                        fresh_ = True
                    if unparse(t2) == srcname and unparse(v2) == "memory":
                        src_ok = True
            elif len(a_.targets) == 1:
                if unparse(a_.targets[0]) == "memory" and unparse(a_.value) == "[]":
                    fresh_ = True
                if unparse(a_.targets[0]) == srcname and unparse(a_.value) == "memory":
                    src_ok = True
        chk.decide(good and fresh_ and src_ok, "C04.memory", W("LinearFilter.__call__"),
                   "items kept in order: " + short(loop_form.body[1]),
                   why="memory list must be the given items, in their order, collected into a new list", node=mi)
    tw = tws[0] if tws else None
    if tw is None:
        pass
    elif canon_call(mod, tw) == "itertools.islice":
        good = [unparse(x) for x in tw.args] == ["memory", "lm"]
        chk.decide(good, "C04.memory", W("LinearFilter.__call__"), "truncation: " + short(tw),
                   why="keep exactly the first lm items", node=tw)
    else:
        lam, src = tw.args
        good = isinstance(lam, ast.Lambda) and len(lam.args.args) == 1 and unparse(src) == "enumerate(memory)"
        if good:
            pv = lam.args.args[0].arg
            good = unparse(lam.body) in ("%s[0] < lm" % pv, "lm > %s[0]" % pv)
        chk.decide(good, "C04.memory", W("LinearFilter.__call__"), "truncation: " + short(tw),
                   why="keep exactly the items with index < lm, in order", node=tw)
        twname = None
        p = tw._parent
        if isinstance(p, ast.Assign):
            twname = unparse(p.targets[0])
        comps = [n for n in ast.walk(mi) if isinstance(n, ast.Assign) and unparse(n.targets[0]) == "memory"
                 and isinstance(n.value, ast.ListComp)]
        good = False
        if comps and twname:
            c = comps[-1].value
            g = c.generators[0]
            good = unparse(g.iter) == twname and isinstance(g.target, ast.Tuple) and len(g.target.elts) == 2 \
                and unparse(c.elt) == unparse(g.target.elts[1]) and not g.ifs
        chk.decide(good, "C04.memory", W("LinearFilter.__call__"),
                   "items kept in order: " + (short(comps[-1]) if comps else "<not found>"),
                   why="memory list must be the data component of the enumerated pairs, in their order", node=mi)

    # ownership of the memory list
    chk.rule("C04.memory-own", "the memory handed to the (lazily started) kernel is a list created inside __call__ on "
                               "every path: the rebuild 'memory = [...]' in the given-memory arm is unconditional")
    rebuilds = [n for n in ast.walk(mi) if isinstance(n, ast.Assign) and unparse(n.targets[0]) == "memory"
                and isinstance(n.value, (ast.ListComp, ast.List)) or
                (isinstance(n, ast.Assign) and unparse(n.targets[0]) == "memory" and isinstance(n.value, ast.Call)
                 and unparse(n.value.func) == "list")]
    in_else = [n for n in rebuilds if n in mi.orelse]
    if not in_else:
        for n in mi.orelse:
            if isinstance(n, ast.Assign) and len(n.targets) == 1 and isinstance(n.targets[0], ast.Tuple) \
                    and isinstance(n.value, ast.Tuple):
                for t2, v2 in zip(n.targets[0].elts, n.value.elts):
                    if unparse(t2) == "memory" and isinstance(v2, (ast.List, ast.ListComp)):
                        in_else.append(n)
    chk.decide(bool(in_else), "C04.memory-own", W("LinearFilter.__call__"),
               "given memory is copied into a fresh list unconditionally: " + (short(in_else[0]) if in_else else
               "no unconditional 'memory = [...]' in the given-memory arm"),
               why="on some path the kernel keeps the caller's own list: the generator reads it only at the first "
                   "next(), so a later mutation by the caller changes y[-k] (the memory must be the one given at the "
                   "call)", node=mi)

    # ------------------------------------------------------------- exec wiring
    chk.rule("C04.exec", "the generated source is '\\n'.join(gen_func), evaluated to its 'gen'; it is called with "
                         "[iter(seq), memory, zero] followed by iter(self.numpoly[idx]) over num_iterables then "
                         "iter(self.denpoly[idx]) over den_iterables, matching the order of arg_names; the result "
                         "is wrapped in a Stream")
    gen_asg = [s for s in body if isinstance(s, ast.Assign) and unparse(s.targets[0]) == "gen"]
    chk.require(len(gen_asg) == 1, "assignment of 'gen' not found")
    v = gen_asg[0].value
    good = isinstance(v, ast.Call) and unparse(v.func) == "_exec_eval" and len(v.args) == 2 \
        and unparse(v.args[0]) == "'\\n'.join(gen_func)" and unparse(v.args[1]) == "'gen'"
    chk.decide(good, "C04.exec", W("LinearFilter.__call__"), short(gen_asg[0]),
               why="the function executed must be the one assembled in gen_func", node=gen_asg[0])
    ee = repo.find(LF, "_exec_eval")
    ee_txt = [unparse(s) for s in docstring_free(ee.body)]
    good = ee_txt == ["ns = {}", "exec(data, ns)", "return eval(expr, ns)"]
    chk.decide(good or ("exec(data" in " ".join(ee_txt) and "eval(expr" in " ".join(ee_txt)), "C04.exec",
               W("_exec_eval"), "; ".join(ee_txt), why="_exec_eval must exec the data and return eval(expr) from it",
               node=ee)
    # what the kernel is called with, folded for schemas with and without coefficient Streams
    call_schemas = [K.Schema({0: "generic", 1: "stream"}, {0: "one", 1: "stream", 2: "generic"}),
                    K.Schema({0: "stream", 2: "stream"}, {0: "generic", 2: "stream"}),
                    K.Schema({0: "generic"}, {0: "one", 1: "generic"}),
                    K.Schema({1: "stream"}, {0: "minus_one"})]
    for sch in call_schemas:
        try:
            fa = K.fold_arguments(call, sch)
        except Inconclusive as ex:
            raise AnalysisError("cannot fold the kernel call of LinearFilter.__call__ for %s: %s" % (sch.label(), ex))
        ni, di = fa["num_iterables"] or [], fa["den_iterables"] or []
        want_args = ["iter(seq)", "memory", "zero"] + ["iter(self.numpoly[%r])" % k for k in ni] \
            + ["iter(self.denpoly[%r])" % k for k in di]
        want_names = ["seq", "memory", "zero"] + ["b%d" % k for k in ni] + ["a%d" % k for k in di]
        streams_n = [k for k, t in sch.num.items() if t.cls == "stream"]
        streams_d = [k for k, t in sch.den.items() if t.cls == "stream" and k != 0]
        ok_ = fa["args"] == want_args and (fa["arg_names"] in (None, want_names) if not (ni or di) else fa["arg_names"] == want_names) \
            and sorted(ni) == sorted(streams_n) and sorted(di) == sorted(streams_d) \
            and fa["wrapper"] == "Stream" and fa["callee"] == "gen"
        chk.decide(ok_, "C04.exec", W("LinearFilter.__call__"),
                   "[%s] Stream(gen(%s)) for parameters %s" % (sch.label(), ", ".join(fa["args"]), fa["arg_names"]),
                   why="kernel must receive the input iterator, the memory list and zero, then the iterator of every "
                       "Stream coefficient - numerator first, each from its own polynomial at its own delay - in the "
                       "order of its parameter names b<delay>/a<delay>; expected %s for %s" % (want_args, want_names), node=call)
    # zero-gain guard
    zg = [s for s in body if isinstance(s, ast.If) and unparse(s.test) in ("self.denpoly[0] == 0", "0 == self.denpoly[0]")]
    chk.decide(len(zg) == 1 and isinstance(zg[0].body[0], ast.Raise), "C04.exec", W("LinearFilter.__call__"),
               "a[0] == 0 is rejected: " + (short(zg[0]) if zg else "<not found>"),
               why="a0 must be non-zero before dividing by it", node=call)


def thorough(chk, repo):
    import time
    t0 = time.time()
    schemas = list(K.thorough_schemas(2))
    Wk, agg, n = kernel_obligations(chk, repo, schemas)
    # sparse order-3 shapes
    import itertools
    extra = []
    for combo in itertools.product([None, "one", "generic", "stream"], repeat=4):
        nn = {k: c for k, c in enumerate(combo) if c is not None}
        extra.append((nn, {0: "generic", 3: "minus_one"}))
        dd = {0: "one"}
        dd.update({k + 1: c for k, c in enumerate(combo[:3]) if c is not None})
        extra.append(({0: "one", 3: "generic"}, dd))
    W2, agg2, n2 = kernel_obligations(chk, repo, extra)
    for k, v in agg2.items():
        a = agg.setdefault(k, [0, None, 0])
        a[0] += v[0]
        a[2] += v[2]
        a[1] = a[1] or v[1]
    chk.rule("C04.thorough", "the kernel rules over the exhaustive product of coefficient classes up to order 2 in "
                             "both polynomials, plus order-3 shapes")
    for (rule, text), (okc, fail, nfail) in sorted(agg.items()):
        if rule.startswith("C06") or rule == "E3":
            continue
        if fail is not None:
            chk.bad(rule, Wk, text + " [exhaustive tier]", fail)
        else:
            chk.ok_many(rule, Wk, text + " [exhaustive tier]", okc)
    return {"thorough_kernel_schemas": n + n2, "thorough_wall_s": round(time.time() - t0, 2),
            "exhaustive_note": "coefficient classes {absent,1,-1,generic,Stream} at delays 0..2 of both polynomials "
                               "x a0 in {1,-1,generic}: exhaustive; sample values symbolic"}
