"""C05  Filter algebra is system algebra."""
import ast

from ..core import (AnalysisError, FuncTypes, unparse, short, canon, canon_call, base_name, own_nodes,
                    docstring_free, dotted)
from ..ratfun import RF, Evaluator, Inconclusive, sym_pow, opaque
from ..pathrf import enumerate_paths, PathLimit
from .. import boolskel

EXPLANATION = (
    "Static analysis of audiolazy/lazy_filters.py (+ lazy_poly.py, lazy_synth.py for the eq/ne rule). Decides: "
    "(C05.ne) for every class defining both, __ne__ is the boolean complement of __eq__ (De Morgan over the "
    "skeleton, or 'not self == other'); (C05.hash) __hash__ reads only state that __eq__ compares and never the "
    "object identity; (C05.ops) by rational normal forms, every return path of ZFilter.__add__/__sub__/__mul__/"
    "__truediv__/__pow__ and of the reflected/unary templates of ZFilterMeta builds exactly A/B+C/D, A/B-C/D, "
    "AC/BD, AD/BC, A^n/B^n, c op A/B, +-A/B in Q(A,B,C,D,c); z is ZFilter({-1: 1}); LinearFilter.__init__ "
    "rescales numerator and denominator by one and the same delay factor; (C05.subst) ZFilter.__call__ on a "
    "filter substitutes g**-k for every term of both polynomials; (C05.lists) CascadeFilter reduces numpoly, "
    "denpoly and freq_response with mul over the same-named attribute and applies its parts in order to the "
    "running data; ParallelFilter sums freq_response, takes numpoly and denpoly as projections of one and the "
    "same reduction, shares its input through thub(args[0], len(self)) and adds the branch outputs; "
    "(C05.linearize) the two weights of a fractional delay sum to one and interpolate the delay exactly. "
    "Does not decide outputs on signals nor the ring laws of Poly (C07)."
    " Also: C05.dispatch (decision tables): which arm of ZFilter + * / **, the reflected operators, __eq__, __call__, ParallelFilter.__call__, callables and the numpoly/denpoly/poles/zeros guards runs for which kind of operand. ")

UNDECIDED = ["(f*g)(x) = f(g(x)) on signals (follows from C04 given these identities, not re-proved here)",
             "field laws on concrete coefficient values (Poly arithmetic is C07)"]

LF = "lazy_filters"


# ------------------------------------------------------------------ helpers
class FilterEval(Evaluator):
    """RF evaluator in which filters are rational functions."""

    def __init__(self, env, mod, cls_names=("ZFilter", "cls")):
        Evaluator.__init__(self, {}, call_hook=None, attr_hook=None)
        self.fenv = env
        self.mod = mod
        self.cls_names = cls_names

    def ev(self, e):
        key = unparse(e)
        if key in self.fenv and isinstance(self.fenv[key], RF):
            return self.fenv[key]
        if isinstance(e, ast.Attribute) and e.attr in ("numpoly", "denpoly"):
            raise Inconclusive("projection %s of a value that is not self/other" % key)
        if isinstance(e, ast.Call):
            r = self.fcall(e)
            if r is not None:
                return r
        return Evaluator.ev(self, e)

    def poly_literal(self, node):
        x = RF.sym("x")
        if isinstance(node, (ast.List, ast.Tuple)):
            tot = RF.const(0)
            for i, el in enumerate(node.elts):
                tot = tot + self.ev(el) * x ** i
            return tot
        if isinstance(node, ast.Dict):
            tot = RF.const(0)
            for k, v in zip(node.keys, node.values):
                tot = tot + self.ev(v) * x ** self.ev(k).as_int()
            return tot
        return self.ev(node)

    def fcall(self, e):
        f = e.func
        name = dotted(f)
        if isinstance(f, ast.Attribute) and f.attr == "copy" and not e.args:
            return self.ev(f.value)
        if name in self.cls_names or (name and base_name(canon(self.mod, f)) == "ZFilter"):
            if len(e.args) == 2:
                return self.poly_literal(e.args[0]) / self.poly_literal(e.args[1])
            if len(e.args) == 1:
                return self.poly_literal(e.args[0])
        if name and canon(self.mod, f) == "operator.truediv" and len(e.args) == 2:
            return self.ev(e.args[0]) / self.ev(e.args[1])
        if name == "op_func" and "op_func" in self.fenv:
            return self.fenv["op_func"](*[self.ev(a) for a in e.args])
        if name == "thub" and len(e.args) == 2:
            return self.ev(e.args[0])
        return None


def _mk_env(mode):
    A, B = RF.sym("A"), RF.sym("B")
    env = {"self.numpoly": A, "self.denpoly": B, "self": A / B}
    if mode == "filter":
        C, D = RF.sym("C"), RF.sym("D")
        env.update({"other.numpoly": C, "other.denpoly": D, "other": C / D})
    else:
        env["other"] = RF.sym("c")
    return env


def _oracle(mode):
    def oracle(test, env):
        t = unparse(test)
        if t.startswith("isinstance(other, "):
            what = t[len("isinstance(other, "):-1]
            if what in ("ZFilter", "LinearFilter", "cls"):
                return mode == "filter"
            if what in ("(int, float)", "(float, int)", "int", "(int, float, complex)"):
                return mode == "scalar"
            return None
        if t in ("self.denpoly == other.denpoly", "other.denpoly == self.denpoly") and mode == "filter":
            B = env["self.denpoly"]
            return [(True, {"other.denpoly": B, "other": env["other.numpoly"] / B}), (False, {})]
        return None
    return oracle


def _assign(mod):
    def assign(st, env):
        env = dict(env)
        if isinstance(st, ast.Assign) and len(st.targets) == 1:
            ev = FilterEval(env, mod)
            env[unparse(st.targets[0])] = ev.ev(st.value)
            return env
        raise Inconclusive("assignment %s" % unparse(st))
    return assign


SPECS = {
    "__add__": lambda s, o: s + o,
    "__sub__": lambda s, o: s - o,
    "__mul__": lambda s, o: s * o,
    "__truediv__": lambda s, o: s / o,
    "__pow__": lambda s, o: sym_pow(s, o),
}
SPEC_TXT = {"__add__": "A/B + other", "__sub__": "A/B - other", "__mul__": "A/B * other",
            "__truediv__": "(A/B) / other", "__pow__": "(A/B) ** n"}


def _check_op(chk, mod, fn, qual, spec, spec_txt, modes, extra_env=None, floor_returns=1):
    W = "%s:%s" % (mod.relpath, qual)
    total = 0
    for mode in modes:
        env = _mk_env(mode)
        if extra_env:
            env.update(extra_env)
        try:
            paths = enumerate_paths(fn.body, env, _oracle(mode), _assign(mod))
        except (PathLimit, Inconclusive) as ex:
            raise AnalysisError("%s: body outside the loop-free fragment (%s)" % (W, ex))
        rets = [p for p in paths if p[0] == "return"]
        for kind, st, penv, trail in rets:
            guard = " and ".join(("" if tk else "not ") + "(" + short(t, 50) + ")" for t, tk in trail) or "always"
            label = "[%s operand; %s] %s" % (mode, guard, short(st))
            try:
                val = FilterEval(penv, mod).ev(st.value)
                want = spec(penv["self"], penv["other"])
            except Inconclusive as ex:
                # the decision tables (C05.dispatch) still run; reported as ANALYSIS-ERROR unless they prove a violation
                chk.defer("%s: cannot interpret '%s' (%s)" % (W, short(st), ex))
                total += 1
                continue
            except ZeroDivisionError:
                raise AnalysisError("%s: division by zero while normalising '%s'" % (W, short(st)))
            total += 1
            chk.decide(val == want, "C05.ops", W, label,
                       why="returns %s, the rational-function identity requires %s = %s"
                           % (val.key(), spec_txt, want.key()),
                       detail="= %s" % want.key(), node=st)
        falls = [p for p in paths if p[0] == "fall"]
        for p in falls:
            chk.bad("C05.ops", W, "[%s operand] a path falls off the end and returns None" % mode,
                    "operator result would be None", node=fn)
    chk.require(total >= floor_returns, "%s: no return path could be interpreted" % W)
    return total


def _dispatch(chk, repo, mod, W):
    """which arm of the filter operators runs for which kind of operand (decision tables, sa/dtable.py)"""
    from ..dtable import Facts, walk
    chk.rule("C05.dispatch", "decision tables: ZFilter + - * / ** and the reflected operators, LinearFilter.__eq__, "
                             "ZFilter.__call__, ParallelFilter.__call__, FilterList.callables and the numpoly / denpoly / "
                             "poles / zeros guards are evaluated for every kind of operand (ZFilter, other LinearFilter, "
                             "number; exponent sign x number of terms; empty list; linear / LTI or not): the statement "
                             "that runs must be the documented one, whatever the order and spelling of the tests")
    n_tab = 0
    ZK = {"ZFilter", "LinearFilter"}

    def last_of(w):
        return unparse(w.last) if w.last is not None else ("<guard raises>" if w.end == "raise" else "<falls through>")

    def sec_ops():
        nonlocal n_tab
        for name in ("__add__", "__mul__", "__truediv__"):
            fn = repo.find(LF, "ZFilter." + name)
            o_ = fn.args.args[1].arg
            body = docstring_free(fn.body)
            for kind in ("ZFilter", "ZFilter-same-den", "LinearFilter", "number"):
                if kind.startswith("ZFilter"):
                    same = kind.endswith("same-den")
                    F = Facts(kinds={o_: ZK}, truths={"self.denpoly == %s.denpoly" % o_: same, "%s.denpoly == self.denpoly" % o_: same,
                                                      "self.denpoly != %s.denpoly" % o_: not same}, types=ZK)
                elif kind == "LinearFilter":
                    F = Facts(kinds={o_: {"LinearFilter"}}, types=ZK)
                else:
                    F = Facts(kinds={o_: {"float"}}, types=ZK)
                w = walk(body, F, "ZFilter." + name)
                n_tab += 1
                last = last_of(w)
                if kind == "LinearFilter":
                    ok = w.end == "raise" and "ValueError" in last
                    exp = "ValueError (different domains)"
                elif kind == "number":
                    ok = w.end == "return" and ("%s.numpoly" % o_) not in last and ("%s.denpoly" % o_) not in last and o_ in last
                    exp = "the number enters as a constant filter / factor"
                else:
                    ok = w.end == "return" and ("%s.numpoly" % o_) in last
                    if name != "__mul__" or True:
                        ok = ok and (("%s.denpoly" % o_) in last or (name == "__add__" and kind.endswith("same-den")))
                    exp = "the rational-function formula on numpoly / denpoly of both operands"
                chk.decide(ok, "C05.dispatch", W("ZFilter." + name), "h %s <%s> -> %s" % (name.strip("_"), kind, last[:80]),
                           why="documented: " + exp, node=fn)

    def sec_pow():
        nonlocal n_tab
        fn = repo.find(LF, "ZFilter.__pow__")
        o_ = fn.args.args[1].arg
        body = docstring_free(fn.body)
        for ov, ok_kind in ((-2, "int"), (0, "int"), (3, "int"), (-1.0, "float"), (2, "Fraction")):
            for la, lb in ((1, 1), (2, 1), (1, 2), (3, 3)):
                F = Facts(kinds={o_: {ok_kind} | ({"Number"} if ok_kind != "Fraction" else set())}, values={o_: ov},
                          lens={"self.numpoly": la, "self.denpoly": lb, "self.numerator": la, "self.denominator": lb,
                                "self.numdict": la, "self.dendict": lb})
                w = walk(body, F, "ZFilter.__pow__")
                n_tab += 1
                last = last_of(w)
                if ov < 0 and (la >= 2 or lb >= 2) and ok_kind != "Fraction":
                    ok = w.end == "return" and last.replace(" ", "") in (
                        "returnZFilter(self.denpoly,self.numpoly)**(-%s)" % o_, "returnZFilter(self.denpoly,self.numpoly)**-%s" % o_)
                    exp = "the reciprocal filter to the positive power"
                elif ok_kind == "Fraction":
                    ok = (w.end == "raise" and "ValueError" in last) or (ov < 0 and False)
                    exp = "ValueError (only int / float exponents)"
                else:
                    ok = w.end == "return" and last == "return ZFilter(self.numpoly ** %s, self.denpoly ** %s)" % (o_, o_)
                    exp = "numerator and denominator raised to the power"
                chk.decide(ok, "C05.dispatch", W("ZFilter.__pow__"),
                           "h ** %r (%d / %d terms) -> %s" % (ov if ok_kind != "Fraction" else "Fraction(%d)" % ov, la, lb, last[:70]),
                           why="documented: " + exp, node=fn)

    def sec_eq():
        nonlocal n_tab
        fn = repo.find(LF, "LinearFilter.__eq__")
        o_ = fn.args.args[1].arg
        for kind in ("LinearFilter", "number"):
            F = Facts(kinds={o_: {"LinearFilter"} if kind == "LinearFilter" else {"float"}}, types=ZK)
            w = walk(docstring_free(fn.body), F, "LinearFilter.__eq__")
            n_tab += 1
            last = last_of(w)
            ok = (last == "return False") if kind == "number" else ("numpoly" in last and "denpoly" in last and w.end == "return")
            chk.decide(ok, "C05.dispatch", W("LinearFilter.__eq__"), "h == <%s> -> %s" % (kind, last[:80]),
                       why="filters compare by both polynomials; anything else is unequal", node=fn)
        rb = repo.find(LF, "ZFilterMeta.__rbinary__")
        du = [f for f in rb.body if isinstance(f, FuncTypes)]
        chk.require(len(du) == 1, "ZFilterMeta.__rbinary__: closure not found")
        o_ = du[0].args.args[1].arg
        for kind in ("ZFilter", "number"):
            F = Facts(kinds={o_: {"cls", "ZFilter"} if kind == "ZFilter" else {"float"}}, types={"cls", "ZFilter"})
            w = walk(docstring_free(du[0].body), F, "ZFilterMeta.__rbinary__")
            n_tab += 1
            last = last_of(w)
            ok = (w.end == "raise" and "ValueError" in last) if kind == "ZFilter" else \
                last == "return op_func(cls([%s]), self)" % o_
            chk.decide(ok, "C05.dispatch", W("ZFilterMeta.__rbinary__"), "<%s> op h -> %s" % (kind, last[:70]),
                       why="c op h is ZFilter([c]) op h, operands in that order", node=du[0])

    def sec_call():
        nonlocal n_tab
        fn = repo.find(LF, "ZFilter.__call__")
        s_ = fn.args.args[1].arg
        for kind in ("ZFilter", "signal"):
            F = Facts(kinds={s_: ZK if kind == "ZFilter" else {"list", "Iterable"}}, types=ZK)
            w = walk(docstring_free(fn.body), F, "ZFilter.__call__")
            n_tab += 1
            last = last_of(w)
            allt = "\n".join(w.texts())
            filters = "super(ZFilter, self).__call__(%s" % s_ in allt or "LinearFilter.__call__(self, %s" % s_ in allt
            substitutes = ("%s ** " % s_) in allt
            ok = (substitutes and not filters) if kind == "ZFilter" else (filters and not substitutes)
            chk.decide(ok and w.end == "return", "C05.dispatch", W("ZFilter.__call__"), "h(<%s>) -> %s" % (kind, last[:70]),
                       why="a ZFilter argument is substituted for z; anything else is filtered", node=fn)
        fn = repo.find(LF, "ParallelFilter.__call__")
        for ln in (0, 1, 3):
            F = Facts(lens={"self": ln}, truths={"'zero' in kwargs": False})
            w = walk(docstring_free(fn.body), F, "ParallelFilter.__call__")
            n_tab += 1
            last = last_of(w)
            allt = "\n".join(w.texts())
            if ln == 0:
                F2 = Facts(lens={"self": 0}, truths={"'zero' in kwargs": True})
                w2 = walk(docstring_free(fn.body), F2, "ParallelFilter.__call__")
                l2 = last_of(w2)

                def rz(w_, txt):
                    # zero = kwargs.get('zero', 0.) ; return Stream((zero for ..))  reads like the in-line form
                    for st_ in w_.ran:
                        if isinstance(st_, ast.Assign) and len(st_.targets) == 1 and isinstance(st_.targets[0], ast.Name):
                            nm_ = st_.targets[0].id
                            txt = txt.replace("((%s for _ in" % nm_, "((%s for _ in" % unparse(st_.value))
                    return txt
                last, l2 = rz(w, last), rz(w2, l2)
                ok = w.end == "return" and "callables" not in allt and "thub(" not in allt and (
                    (last == "return Stream((0.0 for _ in args[0]))" and l2 == "return Stream((kwargs['zero'] for _ in args[0]))")
                    or last == l2 == "return Stream((kwargs.get('zero', 0.0) for _ in args[0]))")
                exp = "the empty sum: one zero per input sample"
            else:
                ok = w.end == "return" and "callables" in allt and "thub(args[0], len(self))" in allt \
                    and "for _ in args[0]" not in allt
                exp = "the sum of every branch applied to a hub of the input"
            chk.decide(ok, "C05.dispatch", W("ParallelFilter.__call__"), "%d branch(es) -> %s" % (ln, last[:70]),
                       why="documented: " + exp, node=fn)
        cp_ = repo.find(LF, "LinearFilter.copy")
        rc_ = [n for n in own_nodes(cp_) if isinstance(n, ast.Return)]
        chk.decide(len(rc_) == 1 and unparse(rc_[0].value) in ("type(self)(self.numpoly.copy(), self.denpoly.copy())",
                                                                "self.__class__(self.numpoly.copy(), self.denpoly.copy())"),
                   "C05.dispatch", W("LinearFilter.copy"), short(rc_[0]) if rc_ else "no return",
                   why="a copy is the same transfer function: numerator and denominator copies, in that order", node=cp_)
        fn = repo.find(LF, "FilterList.callables")
        r = docstring_free(fn.body)[-1]
        comps = [n for n in ast.walk(r) if isinstance(n, (ast.ListComp, ast.GeneratorExp))]
        chk.require(len(comps) == 1 and isinstance(comps[0].elt, ast.IfExp), "FilterList.callables: conditional element not found")
        v_ = unparse(comps[0].generators[0].target)
        for cal in (True, False):
            F = Facts(truths={"callable(%s)" % v_: cal})
            from ..dtable import _Resolve
            got = unparse(_Resolve(F, "callables").visit(ast.parse(unparse(comps[0].elt), mode="eval").body))
            n_tab += 1
            chk.decide(got == (v_ if cal else "LinearFilter(%s)" % v_), "C05.dispatch", W("FilterList.callables"),
                       "%s item -> %s" % ("callable" if cal else "plain", got),
                       why="callables are kept, anything else becomes a LinearFilter", node=r)

    def sec_guards():
        nonlocal n_tab
        for q, atom_, what in (("ParallelFilter.numpoly", "self.is_linear()", "numpoly"), ("ParallelFilter.denpoly", "self.is_linear()", "denpoly"),
                               ("CascadeFilter.poles", "self.is_lti()", "poles"), ("CascadeFilter.zeros", "self.is_lti()", "zeros"),
                               ("ParallelFilter.poles", "self.is_lti()", "poles"), ("ParallelFilter.zeros", "self.is_lti()", "zeros")):
            fn = repo.find(LF, q)
            for val in (True, False):
                F = Facts(truths={atom_: val})
                w = walk(docstring_free(fn.body), F, q)
                n_tab += 1
                last = last_of(w)
                ok = (w.end == "return" and what in last) if val else (w.end == "raise" and "AttributeError" in last)
                chk.decide(ok, "C05.dispatch", W(q), "%s %s -> %s" % (atom_, val, last[:70]),
                           why="defined only for linear / LTI lists; AttributeError otherwise", node=fn)
    for sec in (sec_ops, sec_pow, sec_eq, sec_call, sec_guards):
        try:
            sec()
        except AnalysisError as ex:
            chk.defer(str(ex))
    chk.floor("C05.dispatch", n_tab, 40, "scenarios walked")


def filter_list_memos(chk, mod, W, rule):
    """nothing computed from the members of a filter *list* is kept on the object, unless every mutator drops it"""
    # a filter list is a (mutable) list: nothing computed from its members may be kept on the object, unless every
    # inherited mutator is overridden to drop it
    MUTATORS = ("append", "extend", "insert", "pop", "remove", "sort", "reverse", "clear", "__setitem__", "__delitem__",
                "__iadd__", "__imul__")
    for cdef in [n for n in ast.walk(mod.tree) if isinstance(n, ast.ClassDef) and n.name in ("FilterList", "CascadeFilter", "ParallelFilter")]:
        for meth in [m_ for m_ in cdef.body if isinstance(m_, FuncTypes)]:
            for ifn in [n for n in ast.walk(meth) if isinstance(n, ast.If)]:
                t_ = unparse(ifn.test)
                kept = None
                for st_ in ifn.body:
                    if isinstance(st_, ast.Assign) and len(st_.targets) == 1 and isinstance(st_.targets[0], ast.Attribute) \
                            and unparse(st_.targets[0].value) == "self" and any(
                                isinstance(x, ast.Name) and x.id == "self" for x in ast.walk(st_.value)):
                        a_ = st_.targets[0].attr
                        if t_ in ("not hasattr(self, %r)" % a_, "self.%s is None" % a_, "getattr(self, %r, None) is None" % a_,
                                  "not self.%s" % a_, "%r not in self.__dict__" % a_):
                            kept = (a_, st_)
                if kept is None:
                    continue
                attr_, st_ = kept
                drops = [m2.name for m2 in cdef.body if isinstance(m2, FuncTypes) and m2.name in MUTATORS and any(
                    (isinstance(x, (ast.Delete, ast.Assign)) and ("self.%s" % attr_) in unparse(x)) for x in ast.walk(m2))]
                chk.decide(set(drops) >= set(MUTATORS), rule, W("%s.%s" % (cdef.name, meth.name)),
                           "kept on the object: %s" % short(st_),
                           why="%s is a list: after append / extend / item assignment / del the kept value (computed "
                               "from the members it had) still answers - numpoly, denpoly and what is built on them "
                               "describe the old bank, while calls use the current one; no mutator drops self.%s"
                               % (cdef.name, attr_), node=st_)


def run(chk, repo):
    mod = repo.mod(LF)
    W = lambda q: "%s:%s" % (mod.relpath, q)

    # ---------------------------------------------------------------- C05.ne
    chk.rule("C05.ne", "__ne__ is the boolean complement of __eq__: literally 'not self == other', or, branch by "
                       "branch under the same guards, the De Morgan dual (a == b <-> a != b, T.__eq__ <-> T.__ne__, "
                       "True <-> False); a class without __ne__ inherits the complement from object")
    classes = [(LF, "LinearFilter"), (LF, "FilterList"), ("lazy_poly", "Poly"), ("lazy_synth", "TableLookup")]
    n_ne = 0
    for mname, cname in classes:
        m = repo.mod(mname)
        cls = repo.find(mname, cname)
        eq = repo.find(mname, cname + ".__eq__", required=False)
        ne = repo.find(mname, cname + ".__ne__", required=False)
        where_ = "%s:%s" % (m.relpath, cname)
        if eq is None:
            chk.note("C05.ne", where_, "class no longer defines __eq__ (identity comparison): nothing to pair")
            continue
        n_ne += 1
        if ne is None:
            chk.ok("C05.ne", where_, "__ne__ not defined: object.__ne__ complements __eq__ (Python 3)")
            continue
        body = docstring_free(ne.body)
        if len(body) == 1 and isinstance(body[0], ast.Return) and boolskel.is_not_eq_call(body[0].value):
            chk.ok("C05.ne", where_ + ".__ne__", short(body[0]), "literal complement", node=ne)
            continue
        g_eq, g_ne = boolskel.guarded_returns(eq), boolskel.guarded_returns(ne)
        if g_eq is None or g_ne is None:
            raise AnalysisError("%s: __eq__/__ne__ bodies outside the guarded-return shape" % where_)
        if [g for g, _ in g_eq] != [g for g, _ in g_ne]:
            chk.bad("C05.ne", where_ + ".__ne__", "guards %s vs __eq__ guards %s"
                    % ([g for g, _ in g_ne], [g for g, _ in g_eq]),
                    "__ne__ does not split cases like __eq__, so it cannot be its complement on every operand",
                    node=ne)
            continue
        for (g, e1), (_, e2) in zip(g_eq, g_ne):
            chk.decide(boolskel.is_complement(e1, e2), "C05.ne", where_ + ".__ne__",
                       "under [%s]: __eq__ returns %s, __ne__ returns %s" % (g or "otherwise", short(e1), short(e2)),
                       why="not the complement: some operands compare neither equal nor unequal (or both)", node=ne)
    chk.floor("C05.ne", n_ne, 4, "classes with __eq__")

    # -------------------------------------------------------------- C05.hash
    chk.rule("C05.hash", "attributes read by __hash__ (through the class's properties) are a subset of those "
                         "compared by __eq__; 'self' is used only through attribute access (no id(self))")
    nh = 0
    for mname, cname in ((LF, "LinearFilter"), ("lazy_poly", "Poly")):
        m = repo.mod(mname)
        cls = repo.find(mname, cname)
        h = repo.find(mname, cname + ".__hash__")
        eq = repo.find(mname, cname + ".__eq__")
        props = _properties(repo, mname, cname)
        where_ = "%s:%s.__hash__" % (m.relpath, cname)

        def attrs(fn, seen=()):
            out = set()
            for n in ast.walk(fn):
                if isinstance(n, ast.Attribute) and isinstance(n.value, ast.Name) and n.value.id == "self":
                    if n.attr in props and n.attr not in seen:
                        out |= attrs(props[n.attr], seen + (n.attr,))
                    else:
                        out.add(n.attr)
            return out
        own_slots = {t.attr for n in ast.walk(h) if isinstance(n, ast.Assign) for t in n.targets
                     if isinstance(t, ast.Attribute) and isinstance(t.value, ast.Name) and t.value.id == "self"}
        read_h = attrs(h) - own_slots
        read_eq = attrs(eq)
        # normalise private/public twins (zero/_zero)
        norm = lambda s: {a.lstrip("_") for a in s}
        extra = norm(read_h) - norm(read_eq)
        chk.decide(not extra, "C05.hash", where_, "reads %s; __eq__ compares %s" % (sorted(read_h), sorted(read_eq)),
                   why="hash depends on %s which equality ignores: equal objects may hash differently" % sorted(extra),
                   node=h)
        bare = [n for n in ast.walk(h) if isinstance(n, ast.Name) and n.id == "self"
                and not isinstance(getattr(n, "_parent", None), ast.Attribute)
                and not (isinstance(getattr(n, "_parent", None), ast.Call)
                         and unparse(n._parent.func) in ("hasattr", "getattr", "setattr"))]
        chk.decide(not bare, "C05.hash", where_, "self used only through its attributes",
                   why="hash uses the object itself (identity), equal filters hash differently", node=h)
        # equality does not look at the order in which terms were created: neither may the hash.  Terms enter it in
        # sorted order (Poly.terms() sorts integer powers unless told not to) or through an unordered container
        leaks = []
        todo_, seen_ = [h], set()
        while todo_:
            f_ = todo_.pop()
            if id(f_) in seen_:
                continue
            seen_.add(id(f_))
            for n in ast.walk(f_):
                if isinstance(n, ast.Attribute) and isinstance(n.value, ast.Name) and n.value.id == "self" and n.attr in props:
                    todo_.append(props[n.attr])
                if isinstance(n, ast.Call) and isinstance(n.func, ast.Attribute) and n.func.attr == "terms":
                    unsorted = any(k.arg == "sort" and isinstance(k.value, ast.Constant) and k.value.value is False for k in n.keywords) \
                        or (n.args and isinstance(n.args[0], ast.Constant) and n.args[0].value is False)
                    if unsorted:
                        leaks.append(n)
                raw = None
                if isinstance(n, ast.Call) and unparse(n.func) in ("iteritems", "iterkeys", "itervalues", "iter", "list", "tuple") \
                        and n.args and unparse(n.args[0]).endswith("._data"):
                    raw = n
                if isinstance(n, ast.Call) and isinstance(n.func, ast.Attribute) and n.func.attr in ("items", "keys", "values") \
                        and unparse(n.func.value).endswith("._data"):
                    raw = n
                if isinstance(n, (ast.For, ast.comprehension)) and unparse(n.iter).endswith("._data"):
                    raw = n.iter
                if raw is not None:
                    p_ = getattr(raw, "_parent", None)
                    unordered = False
                    while p_ is not None and p_ is not f_:
                        if isinstance(p_, ast.Call) and unparse(p_.func) in ("frozenset", "set", "sorted", "sum", "len", "max", "min"):
                            unordered = True
                            break
                        p_ = getattr(p_, "_parent", None)
                    if not unordered:
                        leaks.append(raw)
        chk.decide(not leaks, "C05.hash", where_, "terms enter the hash sorted or through an unordered container",
                   why="%s walks the terms in creation order: two equal objects built in a different order hash differently"
                       % (short(leaks[0]) if leaks else "-"), node=leaks[0] if leaks else h)
        nh += 1
    chk.floor("C05.hash", nh, 2, "__hash__ methods")

    # equality is structural on what the hash reads
    chk.rule("C05.eq-structural", "on every path on which LinearFilter.__eq__ can return True, the guards taken and the "
                                  "returned conjunction imply self.A == other.A for every polynomial A that __hash__ "
                                  "reads (numpoly, denpoly): equal filters have equal hashed state")
    eq = repo.find(LF, "LinearFilter.__eq__")
    from .. import e4 as _e4

    def _eqs(expr, positive=True):
        out = set()
        if isinstance(expr, ast.BoolOp) and isinstance(expr.op, ast.And) and positive:
            for v in expr.values:
                out |= _eqs(v, True)
        elif isinstance(expr, ast.Compare) and len(expr.ops) == 1 and isinstance(expr.ops[0], ast.Eq) and positive:
            l, r = unparse(expr.left), unparse(expr.comparators[0])
            for a in ("numpoly", "denpoly"):
                if {l, r} == {"self." + a, "other." + a}:
                    out.add(a)
        return out
    npaths = 0
    for path in _e4.simple_paths(docstring_free(eq.body)):
        rets = [s_ for s_ in path if isinstance(s_, ast.Return)]
        if not rets:
            continue
        r = rets[0]
        if isinstance(r.value, ast.Constant) and r.value.value is False:
            continue
        npaths += 1
        implied = _eqs(r.value)
        # conditions along the path: ('test', expr) entries are followed by the branch taken; recover polarity
        conds = []
        stmts = docstring_free(eq.body)

        def polar(stmts_, target):
            for st in stmts_:
                if isinstance(st, ast.If):
                    if any(target is x for b in st.body for x in ast.walk(b)):
                        return [(st.test, True)] + polar(st.body, target)
                    if any(target is x for b in st.orelse for x in ast.walk(b)):
                        return [(st.test, False)] + polar(st.orelse, target)
                    # target after this if (fall-through): the if's body must have returned, i.e. test was false
                    if all(isinstance(b[-1], (ast.Return, ast.Raise)) for b in [st.body] if b) and not st.orelse:
                        conds.append((st.test, False))
            return []
        for t, pol in polar(stmts, r):
            if pol:
                implied |= _eqs(t)
        chk.decide({"numpoly", "denpoly"} <= implied, "C05.eq-structural", W("LinearFilter.__eq__"),
                   "path returning %s implies equality of %s" % (short(r.value, 70), sorted(implied)),
                   why="filters can compare equal without having equal numerator and denominator polynomials, while "
                       "__hash__ hashes exactly those: equal filters hash differently", node=r)
    chk.floor("C05.eq-structural", npaths, 1, "paths of __eq__ that can return True")
    g = boolskel.guarded_returns(eq)
    if g is None or len(g) < 1:
        raise AnalysisError("LinearFilter.__eq__ shape not recognised")
    txt = unparse(g[0][1])
    need = ["self.numpoly == other.numpoly", "self.denpoly == other.denpoly"]
    good = isinstance(g[0][1], ast.BoolOp) and isinstance(g[0][1].op, ast.And) and \
        sorted(boolskel.canon(v) for v in g[0][1].values) == sorted(
            boolskel.canon(ast.parse(s, mode="eval").body) for s in need)
    chk.decide(good, "C05.ne", W("LinearFilter.__eq__"), "filters are equal iff " + txt,
               why="equality must compare numerator and denominator polynomials, both", node=eq)
    chk.decide(len(g) == 2 and isinstance(g[1][1], ast.Constant) and g[1][1].value is False, "C05.ne",
               W("LinearFilter.__eq__"), "foreign operand compares unequal (returns False)",
               why="filter == non-filter must be False", node=eq)

    # --------------------------------------------------------------- C05.ops
    chk.rule("C05.ops", "every return path of the ZFilter operators, interpreted in rational normal form with "
                        "self = A/B, other = C/D (or scalar c), equals the field operation; conditions "
                        "'self.denpoly == other.denpoly' are applied as the substitution D := B")
    nret = 0
    for name in ("__add__", "__sub__", "__mul__", "__truediv__"):
        fn = repo.find(LF, "ZFilter." + name)
        nret += _check_op(chk, mod, fn, "ZFilter." + name, SPECS[name], SPEC_TXT[name], ("filter", "scalar"))
    fn = repo.find(LF, "ZFilter.__pow__")
    nret += _check_op(chk, mod, fn, "ZFilter.__pow__", SPECS["__pow__"], SPEC_TXT["__pow__"], ("scalar",))
    # a Poly with several terms cannot be raised to a negative power (Poly.__pow__ silently returns the polynomial itself):
    # on every return path that raises numpoly / denpoly to `other`, the guards must exclude
    # "other < 0 and that polynomial has two or more terms"
    _dispatch(chk, repo, mod, W)
    # the algebra is about what the filters do to signals: the call that realises it must compute the difference
    # equation of the two polynomials (shared engine with C04: folded kernels checked in rational normal form)
    chk.rule("C05.kernel", "LinearFilter.__call__ of a filter with polynomials B / A computes a0*y[n] = sum b_k x[n-k] - sum "
                           "a_k y[n-k] for every folded kernel (coefficients pasted as numbers, fractions P/Q, negative "
                           "numbers, floats): without this (f/g)(x), (f*g)(x) = f(g(x)) would not follow from the "
                           "polynomial identities")
    from .c04 import kernel_obligations as _kob, emit as _emit
    from .. import kernel as _K
    Wk, agg, nk = _kob(chk, repo, _K.quick_schemas())
    agg5 = {("C05.kernel", t_): v_ for (r_, t_), v_ in agg.items() if r_ in ("C04.equation", "C04.kernel", "C04.zero-filter")}
    _emit(chk, Wk, agg5)
    chk.floor("C05.kernel", nk, 700, "schemas folded and analysed")
    chk.rule("C05.pow-domain", "ZFilter.__pow__: a path computing self.numpoly ** other or self.denpoly ** other is reached "
                               "only when other >= 0 or that polynomial has fewer than two terms (decided over all truth "
                               "assignments of the guard atoms)")
    import itertools as _it

    def atom(e):
        if isinstance(e, ast.Compare) and len(e.ops) == 1:
            l, r, op = unparse(e.left), unparse(e.comparators[0]), type(e.ops[0])
            if l == "other" and r == "0" and op is ast.Lt:
                return ("N", True)
            if l == "other" and r == "0" and op is ast.GtE:
                return ("N", False)
            if l == "0" and r == "other" and op is ast.Gt:
                return ("N", True)
            for poly, nm in (("self.numpoly", "A"), ("self.denpoly", "B"), ("self.numerator", "A"), ("self.denominator", "B"),
                             ("self.numdict", "A"), ("self.dendict", "B"), ("self.numlist", None), ("self.denlist", None)):
                if l == "len(%s)" % poly and nm:
                    if (op is ast.GtE and r == "2") or (op is ast.Gt and r == "1"):
                        return (nm, True)
                    if (op is ast.Lt and r == "2") or (op is ast.LtE and r == "1"):
                        return (nm, False)
        return None

    def truth(e, asg, free):
        if isinstance(e, ast.BoolOp):
            vals = [truth(v, asg, free) for v in e.values]
            return all(vals) if isinstance(e.op, ast.And) else any(vals)
        if isinstance(e, ast.UnaryOp) and isinstance(e.op, ast.Not):
            return not truth(e.operand, asg, free)
        a = atom(e)
        if a is not None:
            return asg[a[0]] == a[1]
        k = unparse(e)
        if k not in free:
            free[k] = len(free)
        return asg["free"][free[k]]
    try:
        ppaths = enumerate_paths(fn.body, _mk_env("scalar"), _oracle("scalar"), _assign(mod))
    except (PathLimit, Inconclusive) as ex:
        raise AnalysisError("ZFilter.__pow__: body outside the loop-free fragment (%s)" % ex)
    npow = 0
    for kind, st, penv, trail in ppaths:
        if kind != "return":
            continue
        raised = set()
        for n in ast.walk(st.value):
            if isinstance(n, ast.BinOp) and isinstance(n.op, ast.Pow) and "other" in unparse(n.right):
                base = unparse(n.left)
                if base in ("self.numpoly",):
                    raised.add("A")
                elif base in ("self.denpoly",):
                    raised.add("B")
        if not raised:
            continue
        npow += 1
        free = {}
        # discover free atoms first
        for t, tk in trail:
            try:
                truth(t, {"N": True, "A": True, "B": True, "free": [False] * 16}, free)
            except IndexError:
                raise AnalysisError("ZFilter.__pow__: too many guard atoms")
        witness = None
        for N, A, B in _it.product((True, False), repeat=3):
            for fr in _it.product((True, False), repeat=len(free)):
                asg = {"N": N, "A": A, "B": B, "free": list(fr) + [False] * 16}
                if all(truth(t, asg, free) == tk for t, tk in trail):
                    if N and ((A and "A" in raised) or (B and "B" in raised)):
                        witness = (N, A, B)
                        break
            if witness:
                break
        guard = " and ".join(("" if tk else "not ") + "(" + short(t, 60) + ")" for t, tk in trail) or "always"
        chk.decide(witness is None, "C05.pow-domain", W("ZFilter.__pow__"), "[%s] %s" % (guard, short(st)),
                   why="reachable with other < 0 and %s: Poly ** negative is only defined for single-term polynomials, the "
                       "result is not the reciprocal power" % (
                           "several numerator terms" if witness and witness[1] and "A" in raised else "several denominator terms"),
                   node=st)
    chk.floor("C05.pow-domain", npow, 1, "paths raising a polynomial to `other`")
    # metaclass templates
    meta = repo.find(LF, "ZFilterMeta")
    ops_decl = repo.find_assign(LF, "__operators__", scope="ZFilterMeta")
    chk.require(isinstance(ops_decl, ast.Constant) and isinstance(ops_decl.value, str),
                "ZFilterMeta.__operators__ is not a literal string")
    symbols = ops_decl.value.split()
    chk.decide(set(["+", "-", "*", "/", "**"]) <= set(symbols), "C05.ops", W("ZFilterMeta"),
               "__operators__ = %r covers + - * / **" % ops_decl.value,
               why="a filter operator of the property is not generated", node=meta)
    rb = repo.find(LF, "ZFilterMeta.__rbinary__")
    dunder = [f for f in rb.body if isinstance(f, FuncTypes)]
    chk.require(len(dunder) == 1, "ZFilterMeta.__rbinary__: inner dunder not found")
    for sym, f, txt in (("+", lambda a, b: a + b, "c + A/B"), ("-", lambda a, b: a - b, "c - A/B"),
                        ("*", lambda a, b: a * b, "c * A/B"), ("/", lambda a, b: a / b, "c / (A/B)")):
        if sym not in symbols:
            continue
        nret += _check_op(chk, mod, dunder[0], "ZFilterMeta.__rbinary__[%s]" % sym,
                          lambda s, o, f=f: f(o, s), txt, ("scalar",), extra_env={"op_func": f})
    un = repo.find(LF, "ZFilterMeta.__unary__")
    dunder = [f for f in un.body if isinstance(f, FuncTypes)]
    chk.require(len(dunder) == 1, "ZFilterMeta.__unary__: inner dunder not found")
    for sym, f, txt in (("+", lambda a: a, "+(A/B)"), ("-", lambda a: -a, "-(A/B)")):
        nret += _check_op(chk, mod, dunder[0], "ZFilterMeta.__unary__[%s]" % sym,
                          lambda s, o, f=f: f(s), txt, ("scalar",), extra_env={"op_func": f})
    chk.floor("C05.ops", nret, 17, "return paths of operator methods interpreted")
    # the op.func bound by the templates is the OpMethod's own function
    for tq in ("ZFilterMeta.__rbinary__", "ZFilterMeta.__unary__"):
        t = repo.find(LF, tq)
        asg = [n for n in docstring_free(t.body) if isinstance(n, ast.Assign) and unparse(n.targets[0]) == "op_func"]
        chk.decide(len(asg) == 1 and unparse(asg[0].value) == "op.func", "C05.ops", W(tq), "op_func = op.func",
                   why="template must apply the operator it is generated for", node=t)

    # z and the constructor normalisation
    zval = repo.find_assign(LF, "z")
    good = isinstance(zval, ast.Call) and base_name(canon(mod, zval.func)) == "ZFilter" and len(zval.args) == 1 \
        and isinstance(zval.args[0], ast.Dict) and [unparse(k) for k in zval.args[0].keys] == ["-1"] \
        and [unparse(v) for v in zval.args[0].values] == ["1"]
    chk.decide(good, "C05.ops", W("z"), "z = " + short(zval), why="z must be the unit advance ZFilter({-1: 1}) so "
               "that z ** -k delays by k", node=zval)
    init = repo.find(LF, "LinearFilter.__init__")
    aug = [n for n in ast.walk(init) if isinstance(n, ast.AugAssign) and isinstance(n.op, ast.Mult)]
    tg = sorted(unparse(n.target) for n in aug)
    vals = {unparse(n.value) for n in aug}
    chk.decide(tg == ["self.denpoly", "self.numpoly"] and len(vals) == 1, "C05.ops", W("LinearFilter.__init__"),
               "denominator normalisation multiplies numpoly and denpoly by the same factor %s" % sorted(vals),
               why="rescaling only one side (or by different factors) changes the transfer function", node=init)
    if len(vals) == 1:
        fac = [n for n in ast.walk(init) if isinstance(n, ast.Assign) and unparse(n.targets[0]) in vals]
        pw = [n for n in ast.walk(init) if isinstance(n, ast.Assign) and unparse(n.targets[0]) == "power"]
        # x ** -power, written as a power of the monomial x or as the one-term polynomial {-power: 1}
        fv_ = unparse(fac[0].value) if len(fac) == 1 else ""
        good = fv_ in ("Poly([0, 1]) ** (-power)", "Poly({-power: 1})", "Poly({1: 1}) ** (-power)") and len(pw) == 1 \
            and unparse(pw[0].value).startswith("min(") and "self.denpoly.terms()" in unparse(pw[0].value)
        chk.decide(good, "C05.ops", W("LinearFilter.__init__"),
                   "factor = %s with %s" % (short(fac[0]) if fac else "?", short(pw[0]) if pw else "?"),
                   why="the denominator must be shifted to start at delay 0: factor x ** -min(delay of denpoly)",
                   node=init)

    # ------------------------------------------------------------- C05.subst
    chk.rule("C05.subst", "ZFilter.__call__(g) for a filter g returns sum(v * g ** -k over numpoly.terms()) / "
                          "sum(v * g ** -k over denpoly.terms()): substitution of g for z")
    call = repo.find(LF, "ZFilter.__call__")
    par = [a.arg for a in call.args.args]
    rets = [n for n in own_nodes(call) if isinstance(n, ast.Return)]
    sub = None
    for st in docstring_free(call.body):
        if isinstance(st, ast.If) and unparse(st.test) == "isinstance(%s, ZFilter)" % par[1]:
            sub = st.body[-1]
    chk.require(sub is not None and isinstance(sub, ast.Return), "ZFilter.__call__: substitution arm not found")
    v = sub.value
    good = isinstance(v, ast.BinOp) and isinstance(v.op, ast.Div)
    if good:
        arm_block = None
        for st in docstring_free(call.body):
            if isinstance(st, ast.If) and sub in st.body:
                arm_block = st.body
        sides = []
        for side in (v.left, v.right):
            if isinstance(side, ast.Name) and arm_block is not None:
                side = _fold_value(call, side.id, arm_block) or side
            sides.append(side)
        for side, attr in ((sides[0], "numpoly"), (sides[1], "denpoly")):
            ok = isinstance(side, ast.Call) and unparse(side.func) == "sum" and len(side.args) == 1 \
                and isinstance(side.args[0], ast.GeneratorExp)
            if ok:
                ge = side.args[0]
                gen = ge.generators[0]
                ok = unparse(gen.iter) == "self.%s.terms()" % attr and isinstance(gen.target, ast.Tuple) \
                    and len(gen.target.elts) == 2 and not gen.ifs
                if ok:
                    k, c = gen.target.elts[0].id, gen.target.elts[1].id
                    try:
                        val = Evaluator().ev(ge.elt)
                        want = RF.sym(c) * sym_pow(RF.sym(par[1]), -RF.sym(k))
                        ok = val == want
                    except Inconclusive as ex:
                        raise AnalysisError("ZFilter.__call__: term %s not interpretable (%s)" % (unparse(ge.elt), ex))
            chk.decide(ok, "C05.subst", W("ZFilter.__call__"), "%s side: %s" % (attr, short(side)),
                       why="must be the sum over self.%s.terms() of coeff * g ** -power" % attr, node=sub)
    else:
        chk.bad("C05.subst", W("ZFilter.__call__"), short(sub), "substitution must be a quotient of two sums", node=sub)
    other = [r for r in rets if r is not sub]
    good = len(other) == 1 and "super(ZFilter, self).__call__(%s" % par[1] in unparse(other[0]) or \
        (len(other) == 1 and "super().__call__(%s" % par[1] in unparse(other[0]))
    chk.decide(good, "C05.subst", W("ZFilter.__call__"), "signals are delegated to LinearFilter.__call__: "
               + (short(other[0]) if other else "?"), why="non-filter arguments must be filtered", node=call)

    # ------------------------------------------------------------- C05.lists
    chk.rule("C05.lists", "CascadeFilter: numpoly/denpoly/freq_response = reduce(mul) over the same-named attribute "
                          "of the parts, __call__ folds the parts in order over the running data. ParallelFilter: "
                          "freq_response = reduce(add); numpoly and denpoly are projections of one and the same "
                          "reduction; __call__ shares args[0] through thub(args[0], len(self)) and adds the outputs")
    filter_list_memos(chk, mod, W, "C05.lists")
    for cname, opname in (("CascadeFilter", "operator.mul"), ("ParallelFilter", "operator.add")):
        fr = repo.find(LF, cname + ".freq_response")
        red = _reduce_shape(mod, fr)
        good = red is not None and red["op"] == opname and red["inner_attr"] == "freq_response" \
            and red["over"] == "self.callables" and red["outer_attr"] is None and red["inner_args"] == ["freq"]
        chk.decide(good, "C05.lists", W(cname + ".freq_response"), short(docstring_free(fr.body)[-1]),
                   why="response of a %s must be the %s of the parts' responses at the same frequency"
                       % (cname, "product" if "mul" in opname else "sum"), node=fr)
        decos = [unparse(d) for d in fr.decorator_list]
        chk.decide("elementwise('freq', 1)" in decos, "C05.lists", W(cname + ".freq_response"),
                   "decorated elementwise('freq', 1) for signature (self, freq)",
                   why="broadcast position must be the freq parameter", node=fr)
    shapes = {}
    for attr in ("numpoly", "denpoly"):
        fn = repo.find(LF, "CascadeFilter." + attr)
        red = _reduce_shape(mod, fn)
        good = red is not None and red["op"] == "operator.mul" and red["inner_attr"] == attr \
            and red["over"] == "self.callables" and red["outer_attr"] is None
        chk.decide(good, "C05.lists", W("CascadeFilter." + attr), short(_ret(fn)),
                   why="cascade %s must be the product of the parts' %s" % (attr, attr), node=fn)
        fn = repo.find(LF, "ParallelFilter." + attr)
        shapes[attr] = (_reduce_shape(mod, fn), fn)
    rn, fn_n = shapes["numpoly"]
    rd, fn_d = shapes["denpoly"]
    chk.require(rn is not None and rd is not None, "ParallelFilter.numpoly/denpoly: reduce shape not recognised")
    same = (rn["op"], rn["over"], rn["inner_attr"] is None, rn["outer_attr"] is None) == \
           (rd["op"], rd["over"], rd["inner_attr"] is None, rd["outer_attr"] is None)
    if same and rn["outer_attr"] == "numpoly" and rd["outer_attr"] == "denpoly" and rn["op"] == "operator.add":
        chk.ok("C05.lists", W("ParallelFilter.numpoly/denpoly"),
               "both project reduce(operator.add, %s): one fraction" % rn["over"], node=fn_d)
    elif rn["outer_attr"] == "numpoly" and rn["op"] == "operator.add" and rd["inner_attr"] == "denpoly" \
            and rd["op"] == "operator.mul":
        # legal only if no arm of ZFilter.__add__ returns another denominator than B*D
        add = repo.find(LF, "ZFilter.__add__")
        short_arm = any(isinstance(n, ast.If) and "denpoly ==" in unparse(n.test) for n in ast.walk(add))
        chk.decide(not short_arm, "C05.lists", W("ParallelFilter.numpoly/denpoly"),
                   "numpoly = (sum of parts).numpoly but denpoly = product of the parts' denpoly",
                   why="ZFilter.__add__ has an equal-denominator arm returning B (not B*D): numerator and denominator "
                       "of the bank are not projections of one fraction (ParallelFilter(h, h): 2N over D**2)",
                   node=fn_d)
    else:
        chk.bad("C05.lists", W("ParallelFilter.numpoly/denpoly"),
                "numpoly: %s ; denpoly: %s" % (short(_ret(fn_n)), short(_ret(fn_d))),
                "numerator and denominator of the bank must come from the same sum of the branches", node=fn_d)
    # __call__ shapes
    cc = repo.find(LF, "CascadeFilter.__call__")
    r = _ret(cc)
    good = False
    if isinstance(r.value, ast.Name):
        fv_ = _fold_value(cc, r.value.id)
        if fv_ is not None:
            r = ast.Return(value=fv_, lineno=r.lineno, col_offset=0)
    if isinstance(r.value, ast.Call) and canon_call(mod, r.value) == "functools.reduce" and len(r.value.args) == 3:
        lam, over, init = r.value.args
        if isinstance(lam, ast.Lambda) and len(lam.args.args) == 2:
            d, f = [a.arg for a in lam.args.args]
            b = lam.body
            good = isinstance(b, ast.Call) and unparse(b.func) == f and b.args and unparse(b.args[0]) == d \
                and unparse(over) == "self.callables" and unparse(init) == "args[0]" \
                and [unparse(a) for a in b.args[1:]] == ["*args[1:]"] \
                and [kw.arg for kw in b.keywords] == [None]
    chk.decide(good, "C05.lists", W("CascadeFilter.__call__"), short(r),
               why="cascade must feed args[0] through every part in order, each part applied to the previous output",
               node=cc)
    pc = repo.find(LF, "ParallelFilter.__call__")
    hubs = [n for n in own_nodes(pc) if isinstance(n, ast.Assign) and isinstance(n.value, ast.Call)
            and base_name(canon(mod, n.value.func)) == "thub"]
    chk.require(len(hubs) == 1, "ParallelFilter.__call__: thub assignment not found")
    h = hubs[0]
    hv = unparse(h.targets[0])
    chk.decide([unparse(a) for a in h.value.args] == ["args[0]", "len(self)"], "C05.lists", W("ParallelFilter.__call__"),
               short(h), why="the shared input needs exactly one tee copy per branch", node=h)
    r = _ret(pc)
    red = _reduce_shape(mod, pc)
    good = red is not None and red["op"] == "operator.add" and red["over"] == "self.callables" \
        and red["inner_call_args"] is not None and red["inner_call_args"][:1] == [hv] \
        and red["inner_call_args"][1:] == ["*args[1:]", "**kwargs"]
    chk.decide(good, "C05.lists", W("ParallelFilter.__call__"), short(r),
               why="bank output must be the sum over all branches of branch(shared input, same extra arguments)",
               node=r)

    # --------------------------------------------------------- C05.linearize
    chk.rule("C05.linearize", "a fractional delay k is split into (int(k), v*wl) and (int(k)+1, v*wr) with "
                              "wl + wr = 1 and int(k)*wl + (int(k)+1)*wr = k (exact linear interpolation); integer "
                              "delays are kept")
    lin = repo.find(LF, "LinearFilter.linearize")
    for cand in repo.callees(LF, lin):
        if [n for n in ast.walk(cand) if isinstance(n, ast.Assign) and unparse(n.targets[0]) == "pairs"]:
            lin = cand          # the interpolation may live in a private helper of linearize
            break
    pair_asg = [n for n in ast.walk(lin) if isinstance(n, ast.Assign) and unparse(n.targets[0]) == "pairs"]
    chk.require(len(pair_asg) == 2, "LinearFilter.linearize: the two 'pairs' assignments not found")
    frac = [n for n in pair_asg if isinstance(n.value, ast.List) and len(n.value.elts) == 2]
    chk.require(len(frac) == 1, "LinearFilter.linearize: fractional arm not recognised")
    parent = frac[0]._parent
    env = {}
    try:
        for st in parent.orelse if frac[0] in parent.orelse else parent.body:
            if isinstance(st, ast.Assign):
                e = Evaluator(env)
                if unparse(st.targets[0]) == "pairs":
                    (k1, v1), (k2, v2) = [(e.ev(t.elts[0]), e.ev(t.elts[1])) for t in st.value.elts]
                else:
                    env[unparse(st.targets[0])] = e.ev(st.value)
        vs = RF.sym("v")
        w1, w2 = v1 / vs, v2 / vs
        chk.decide(w1 + w2 == 1, "C05.linearize", W("LinearFilter.linearize"),
                   "weights %s and %s sum to one" % (w1.key(), w2.key()),
                   why="the two taps do not add up to the original coefficient", node=frac[0])
        chk.decide(k1 * w1 + k2 * w2 == RF.sym("k"), "C05.linearize", W("LinearFilter.linearize"),
                   "taps at %s and %s interpolate delay k" % (k1.key(), k2.key()),
                   why="weighted tap positions do not reproduce the fractional delay", node=frac[0])
        chk.decide(k2 - k1 == 1 and k1 == opaque("int", RF.sym("k")), "C05.linearize", W("LinearFilter.linearize"),
                   "taps are int(k) and int(k) + 1", why="neighbouring integer delays expected", node=frac[0])
    except Inconclusive as ex:
        raise AnalysisError("LinearFilter.linearize: %s" % ex)
    integ = [n for n in pair_asg if n is not frac[0]][0]
    chk.decide(unparse(integ.value) == "[(int(k), v)]", "C05.linearize", W("LinearFilter.linearize"),
               "integer delay kept: " + short(integ), why="integer delays must keep their coefficient", node=integ)
    # accumulating the taps: the key that is looked up is the key that is written
    from ..core import accumulate_guards
    lin_top = repo.find(LF, "LinearFilter.linearize")
    for ifn, tested, stores_ in accumulate_guards(lin_top):
        same = all(unparse(k_) == unparse(tested) for _, k_ in stores_)
        chk.decide(same, "C05.linearize", W("LinearFilter.linearize"),
                   "taps accumulated under '%s': %s" % (unparse(ifn.test), "; ".join(short(st_) for st_, _ in stores_)),
                   why="the membership test is on another key than the one written (%s vs %s): two contributions to one "
                       "integer tap overwrite each other instead of adding up"
                       % (unparse(tested), ", ".join(sorted({unparse(k_) for _, k_ in stores_}))), node=ifn)
    # which arm for which delay, which store for which tap (decision tables)
    from ..dtable import Facts, walk
    term_loops = [n for n in ast.walk(lin) if isinstance(n, ast.For) and any(a is frac[0] for a in ast.walk(n))
                  and isinstance(n.target, ast.Tuple) and len(n.target.elts) == 2]
    chk.require(term_loops, "LinearFilter.linearize: loop over the terms not found")
    tl = term_loops[-1]
    kname = unparse(tl.target.elts[0])
    try:
        for kk in ("int", "float-integer", "float-fraction"):
            F = Facts(kinds={kname: {"int"} if kk == "int" else {"float"}},
                      truths={"%s.is_integer()" % kname: kk == "float-integer", "%s == int(%s)" % (kname, kname): kk != "float-fraction",
                              "int(%s) == %s" % (kname, kname): kk != "float-fraction"},
                      raising=["%s.is_integer()" % kname] if kk == "int" and not hasattr(int, "is_integer") else [])
            if kk == "int" and hasattr(int, "is_integer"):
                F.truths["%s.is_integer()" % kname] = True       # int.is_integer() exists from Python 3.12 on
            w = walk([st for st in tl.body if not isinstance(st, ast.For)], F, "LinearFilter.linearize")
            pa = [st for st in w.ran if isinstance(st, ast.Assign) and unparse(st.targets[0]) == "pairs"]
            n_el = len(pa[-1].value.elts) if pa and isinstance(pa[-1].value, ast.List) else -1
            chk.decide(w.end == "fall" and n_el == (2 if kk == "float-fraction" else 1), "C05.linearize", W("LinearFilter.linearize"),
                       "%s delay -> %s" % (kk, short(pa[-1]) if pa else w.end),
                       why="integer delays (also as floats) are kept as one tap, fractional ones are split in two", node=tl)
        inner = [st for st in tl.body if isinstance(st, ast.For)]
        chk.require(len(inner) == 1, "LinearFilter.linearize: loop over the taps not found")
        for present in (True, False):
            F = Facts(truths={"key in new_poly": present, "key not in new_poly": not present})
            w = walk(inner[0].body, F, "LinearFilter.linearize")
            t = w.texts()
            chk.decide(t == (["new_poly[key] += value"] if present else ["new_poly[key] = value"]), "C05.linearize",
                       W("LinearFilter.linearize"), "tap on a delay %s -> %s" % ("already present" if present else "not yet present", "; ".join(t)),
                       why="coinciding taps add up, new ones are stored", node=inner[0])
    except AnalysisError as ex:
        chk.defer(str(ex))
    outer = [n for n in ast.walk(lin) if isinstance(n, ast.For) and tl in n.body]
    if len(outer) == 1 and lin is repo.find(LF, "LinearFilter.linearize"):
        ok_outer = unparse(outer[0].iter) in ("[self.numpoly, self.denpoly]", "(self.numpoly, self.denpoly)")
        if ok_outer:
            pre_ = [unparse(st) for st in outer[0].body if st is not tl]
            ok_outer = pre_ in (["data.append({})", "new_poly = data[-1]"], ["new_poly = {}", "data.append(new_poly)"])
        lret = [n for n in own_nodes(lin) if isinstance(n, ast.Return)]
        ok_outer = ok_outer and len(lret) == 1 and unparse(lret[0].value) in ("self.__class__(*data)", "type(self)(*data)")
        chk.decide(ok_outer, "C05.linearize", W("LinearFilter.linearize"),
                   "numerator then denominator, each into a dict of its own, handed to the constructor in that order",
                   why="the linearized polynomials must be built separately and keep their roles", node=lin)
    else:
        chk.note("C05.linearize", W("LinearFilter.linearize"), "the per-polynomial loop is not in the confirmed shape: "
                 "its bookkeeping (fresh dict per polynomial, numerator first) is not decided")
    acc = [n for n in ast.walk(lin) if isinstance(n, ast.AugAssign)]
    chk.decide(len(acc) == 1 and isinstance(acc[0].op, ast.Add) and unparse(acc[0].target) == "new_poly[key]"
               and unparse(acc[0].value) == "value", "C05.linearize", W("LinearFilter.linearize"),
               "coinciding taps accumulate: " + (short(acc[0]) if acc else "?"),
               why="taps landing on the same delay must add", node=lin)


def _ret(fn):
    rets = [n for n in own_nodes(fn) if isinstance(n, ast.Return) and n.value is not None]
    if not rets:
        raise AnalysisError("no return in %s" % getattr(fn, "name", "?"))
    return max(rets, key=lambda n: (n.lineno, n.col_offset))


def _properties(repo, mname, cname):
    """name -> FunctionDef for properties visible on the class (own + bases in the same module)."""
    out = {}
    m = repo.mod(mname)
    cls = repo.find(mname, cname)
    todo = [cls]
    seen = set()
    while todo:
        c = todo.pop()
        if c.name in seen:
            continue
        seen.add(c.name)
        for st in c.body:
            if isinstance(st, FuncTypes) and any(unparse(d) == "property" for d in st.decorator_list):
                out.setdefault(st.name, st)
            elif isinstance(st, ast.Assign) and isinstance(st.value, ast.Call) and unparse(st.value.func) == "property" \
                    and st.value.args and isinstance(st.value.args[0], ast.Name):
                target = [f for f in c.body if isinstance(f, FuncTypes) and f.name == st.value.args[0].id]
                if target:
                    for t in st.targets:
                        out.setdefault(unparse(t), target[0])
        for b in c.bases:
            for n in ast.walk(b):
                if isinstance(n, ast.Name):
                    bc = repo.find(mname, n.id, required=False)
                    if isinstance(bc, ast.ClassDef):
                        todo.append(bc)
    return out


_BINOPS = {ast.Mult: "mul", ast.Add: "add"}


def _fold_enumerate(mod, fn, acc):
    """acc = <anything> ; for i, x in enumerate(S): [t = E(x) ;] acc = t if i == 0 else acc OP t    ->   reduce(OP, (E(x) for x in S))
    (the first item starts the fold, as reduce without an initial value does)"""
    body = docstring_free(fn.body)
    loops = [st for st in body if isinstance(st, ast.For) and isinstance(st.iter, ast.Call) and unparse(st.iter.func) == "enumerate"
             and len(st.iter.args) == 1 and isinstance(st.target, ast.Tuple) and len(st.target.elts) == 2
             and all(isinstance(e_, ast.Name) for e_ in st.target.elts)]
    if len(loops) != 1:
        return None
    lp = loops[0]
    i_, x_ = [e_.id for e_ in lp.target.elts]
    stmts = list(lp.body)
    if not stmts or not isinstance(stmts[-1], ast.Assign) or unparse(stmts[-1].targets[0]) != acc:
        return None
    upd = stmts[-1].value
    term = None
    if len(stmts) == 2 and isinstance(stmts[0], ast.Assign) and isinstance(stmts[0].targets[0], ast.Name):
        tname, term = stmts[0].targets[0].id, stmts[0].value
    elif len(stmts) == 1:
        tname = None
    else:
        return None
    if not (isinstance(upd, ast.IfExp) and unparse(upd.test) in ("%s == 0" % i_, "0 == %s" % i_, "not %s" % i_)):
        return None
    first_v, rest_v = upd.body, upd.orelse
    if not (isinstance(rest_v, ast.BinOp) and type(rest_v.op) in _BINOPS and unparse(rest_v.left) == acc):
        return None
    t_txt = unparse(first_v)
    if unparse(rest_v.right) != t_txt:
        return None
    if tname is not None:
        if t_txt != tname:
            return None
        elt = unparse(term)
    else:
        elt = t_txt
    if any(isinstance(n, ast.Name) and n.id == i_ for n in ast.walk(ast.parse(elt, mode="eval"))):
        return None
    return ast.parse("reduce(operator.%s, (%s for %s in %s))" % (_BINOPS[type(rest_v.op)], elt, x_, unparse(lp.iter.args[0])),
                     mode="eval").body


def _fold_loop(mod, fn, acc):
    """Recognise the spelled-out left fold over a lazy source and hand it back as the reduce(..) call it stands for.
    Accepted: acc = next(SRC) [SRC an iterator local]; for x in SRC: acc = acc OP x | acc OP= x | acc = f(acc, x);
    an optional guard raising TypeError for an empty list (what reduce does); aliases of plain locals are resolved."""
    body = docstring_free(fn.body)
    env = {}
    first = loop = None
    for st in body:
        if isinstance(st, ast.Assign) and len(st.targets) == 1 and isinstance(st.targets[0], ast.Name):
            nm = st.targets[0].id
            if nm == acc:
                first = st
            else:
                env[nm] = st.value
        elif isinstance(st, ast.For) and isinstance(st.target, ast.Name):
            loop = st
        elif isinstance(st, ast.If) and all(isinstance(x, (ast.Raise, ast.Return)) for x in st.body) and not st.orelse:
            continue            # an early exit for a special case (judged by its own rule), not part of the fold
        elif isinstance(st, ast.Return):
            continue
        else:
            return None
    if first is None or loop is None:
        return None

    def res(e, depth=0):
        # only the iterator itself is followed through plain aliases (it = outputs ; outputs = (..)): names *inside* the
        # source expression keep their spelling (the rules name them)
        while isinstance(e, ast.Name) and e.id in env and depth < 4:
            e = env[e.id]
            depth += 1
        if isinstance(e, ast.Call) and unparse(e.func) == "iter" and len(e.args) == 1 and isinstance(e.args[0], ast.Name) \
                and e.args[0].id in env:
            inner = res(e.args[0], depth + 1)
            return ast.parse("iter(%s)" % unparse(inner), mode="eval").body
        return ast.parse(unparse(e), mode="eval").body
    # acc = next(it)      or      acc = G[next(it)] with the loop adding G[x]: a fold over (G[x] for x in it)
    fv = first.value
    if not (isinstance(fv, ast.Call) and unparse(fv.func) == "next" and len(fv.args) == 1 and isinstance(fv.args[0], ast.Name)):
        nexts = [n for n in ast.walk(fv) if isinstance(n, ast.Call) and unparse(n.func) == "next" and len(n.args) == 1
                 and isinstance(n.args[0], ast.Name) and unparse(loop.iter) == n.args[0].id]
        if len(nexts) != 1 or len(loop.body) != 1 or not isinstance(loop.body[0], ast.Assign):
            return None
        itname, x = nexts[0].args[0].id, loop.target.id
        marker = unparse(nexts[0])
        templ = ast.parse(unparse(fv), mode="eval").body

        class _N(ast.NodeTransformer):
            def visit_Call(self, node):
                if unparse(node) == marker:
                    return ast.Name(id=x, ctx=ast.Load())
                return self.generic_visit(node)
        templ = _N().visit(templ)
        b = loop.body[0]
        if not (unparse(b.targets[0]) == acc and isinstance(b.value, ast.BinOp) and type(b.value.op) in _BINOPS
                and unparse(b.value.left) == acc and unparse(b.value.right) == unparse(templ)):
            return None
        src = res(env[itname]) if itname in env else None
        if src is None:
            return None
        if isinstance(src, ast.Call) and unparse(src.func) == "iter" and len(src.args) == 1:
            src = src.args[0]
        return ast.parse("reduce(operator.%s, (%s for %s in %s))" % (_BINOPS[type(b.value.op)], unparse(templ), x, unparse(src)),
                         mode="eval").body
    itname = fv.args[0].id
    if unparse(loop.iter) != itname or len(loop.body) != 1:
        return None
    x = loop.target.id
    b = loop.body[0]
    opname = None
    if isinstance(b, ast.Assign) and unparse(b.targets[0]) == acc and isinstance(b.value, ast.BinOp) \
            and type(b.value.op) in _BINOPS and unparse(b.value.left) == acc and unparse(b.value.right) == x:
        opname = "operator." + _BINOPS[type(b.value.op)]
    elif isinstance(b, ast.AugAssign) and unparse(b.target) == acc and type(b.op) in _BINOPS and unparse(b.value) == x:
        return None        # in-place operators may differ from the binary ones: not the same fold
    elif isinstance(b, ast.Assign) and unparse(b.targets[0]) == acc and isinstance(b.value, ast.Call) \
            and [unparse(a_) for a_ in b.value.args] == [acc, x]:
        opname = unparse(b.value.func)
    if opname is None:
        return None
    src = res(env[itname]) if itname in env else None
    if src is None:
        return None
    if isinstance(src, ast.Call) and unparse(src.func) == "iter" and len(src.args) == 1:
        src = src.args[0]
    return ast.parse("reduce(%s, %s)" % (opname, unparse(src)), mode="eval").body


def _fold_value(fn, acc, block=None):
    """Other spelled-out folds, as the expression they compute (None when not one of these):
       acc = 0 ; for T in S: acc = acc + E              ->  sum((E for T in S))
       acc = I ; for T in S: acc = G(acc, T ...)        ->  reduce(lambda acc, T: G, S, I)
       acc = F(S[0]) ; for x in S[1:]: acc = acc + F(x) ->  reduce(operator.add, (F(x) for x in S))
    Plain aliases (c = self.callables) are resolved."""
    stmts = block if block is not None else docstring_free(fn.body)
    env, first, loop = {}, None, None
    for st in stmts:
        if isinstance(st, ast.Assign) and len(st.targets) == 1 and isinstance(st.targets[0], ast.Name):
            if st.targets[0].id == acc and loop is None:
                first = st
            elif st.targets[0].id != acc:
                env[st.targets[0].id] = st.value
        elif isinstance(st, ast.For) and any(isinstance(x, ast.Assign) and unparse(x.targets[0]) == acc for x in st.body):
            loop = st
        elif loop is None and isinstance(st, ast.Expr) and isinstance(st.value, ast.Call) \
                and isinstance(st.value.func, ast.Attribute) and st.value.func.attr == "append" \
                and isinstance(st.value.func.value, ast.Name) and st.value.func.value.id in env \
                and isinstance(env[st.value.func.value.id], (ast.ListComp, ast.List, ast.BinOp)) \
                and len(st.value.args) == 1 and not st.value.keywords:
            # L = [..] ; L.append(e)   is   L = [..] + [e]
            nm_ = st.value.func.value.id
            env[nm_] = ast.parse("%s + [%s]" % (unparse(env[nm_]), unparse(st.value.args[0])), mode="eval").body
    if first is None or loop is None or len(loop.body) != 1 or not isinstance(loop.body[0], ast.Assign):
        return None

    def res(e):
        class R(ast.NodeTransformer):
            def visit_Name(self, n):
                if isinstance(n.ctx, ast.Load) and n.id in env and isinstance(env[n.id], (ast.Attribute, ast.Name)):
                    return ast.parse(unparse(env[n.id]), mode="eval").body
                return n
        return R().visit(ast.parse(unparse(e), mode="eval").body)
    upd = loop.body[0].value
    tgt = unparse(loop.target)
    src = res(loop.iter)
    init = first.value
    if isinstance(init, ast.Constant) and init.value == 0 and type(init.value) is int and isinstance(upd, ast.BinOp) \
            and isinstance(upd.op, ast.Add) and unparse(upd.left) == acc:
        return ast.parse("sum((%s for %s in %s))" % (unparse(res(upd.right)), tgt, unparse(src)), mode="eval").body
    # head / tail form
    if isinstance(src, ast.Subscript) and unparse(src.slice) == "1:" and isinstance(upd, ast.BinOp) \
            and type(upd.op) in _BINOPS and unparse(upd.left) == acc and isinstance(loop.target, ast.Name):
        base = unparse(src.value)

        class S0(ast.NodeTransformer):
            def visit_Name(self, n):
                if n.id == tgt and isinstance(n.ctx, ast.Load):
                    return ast.parse("%s[0]" % base, mode="eval").body
                return n
        head = unparse(S0().visit(ast.parse(unparse(res(upd.right)), mode="eval").body))
        if head == unparse(res(init)):
            if unparse(upd.right) == tgt:
                # identity element function: the fold of the sequence itself (aliases of list-building locals resolved)
                seq_ = env.get(base)
                return ast.parse("reduce(operator.%s, %s)" % (_BINOPS[type(upd.op)], unparse(seq_) if seq_ is not None else base),
                                 mode="eval").body
            return ast.parse("reduce(operator.%s, (%s for %s in %s))" % (_BINOPS[type(upd.op)], unparse(res(upd.right)), tgt, base),
                             mode="eval").body
    if isinstance(loop.target, ast.Name):
        return ast.parse("reduce(lambda %s, %s: %s, %s, %s)" % (acc, tgt, unparse(res(upd)), unparse(src), unparse(res(init))),
                         mode="eval").body
    return None


def _reduce_shape(mod, fn):
    """Recognise ``reduce(OP, (filt.ATTR[(args)] for filt in OVER))[.OUTER]`` or
    ``reduce(OP, OVER).OUTER`` as the (last) returned expression."""
    r = _ret(fn)
    v = r.value
    outer = None
    if isinstance(v, ast.Attribute):
        outer, v = v.attr, v.value
    if isinstance(v, ast.Name):
        # explicit fold:  it = <source> ; acc = next(it) ; for x in it: acc = acc OP x ; return acc
        loop_form = _fold_loop(mod, fn, v.id) or _fold_enumerate(mod, fn, v.id) or _fold_value(fn, v.id)
        if loop_form is not None:
            v = loop_form
    if not (isinstance(v, ast.Call) and canon_call(mod, v) == "functools.reduce" and len(v.args) == 2):
        return None
    op = canon(mod, v.args[0])
    src = v.args[1]
    res = {"op": op, "outer_attr": outer, "inner_attr": None, "over": None, "inner_args": None,
           "inner_call_args": None}
    if isinstance(src, ast.GeneratorExp) and len(src.generators) == 1 and not src.generators[0].ifs:
        g = src.generators[0]
        var = unparse(g.target)
        res["over"] = unparse(g.iter)
        e = src.elt
        if isinstance(e, ast.Call) and isinstance(e.func, ast.Attribute) and unparse(e.func.value) == var:
            res["inner_attr"] = e.func.attr
            res["inner_args"] = [unparse(a) for a in e.args]
        elif isinstance(e, ast.Call) and unparse(e.func) == var:
            res["inner_call_args"] = [unparse(a) for a in e.args] + \
                [("**" + unparse(k.value)) if k.arg is None else "%s=%s" % (k.arg, unparse(k.value)) for k in e.keywords]
        elif isinstance(e, ast.Attribute) and unparse(e.value) == var:
            res["inner_attr"] = e.attr
        else:
            return None
    else:
        res["over"] = unparse(src)
    return res
