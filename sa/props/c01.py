"""C01  Stream operators and broadcast functions act element by element."""
import ast
import math
import operator as _operator

from ..core import (AnalysisError, FuncTypes, unparse, short, canon, canon_call, base_name, own_nodes,
                    docstring_free)
from ..peval import Folder, Obj
from ..ratfun import Inconclusive, Evaluator, RF
from .. import e2

EXPLANATION = (
    "Static analysis of the operator machinery (lazy_core.py, lazy_stream.py, lazy_synth.py, lazy_poly.py) and of the "
    "broadcast decorator (lazy_misc.py, lazy_math.py, lazy_midi.py). C01.order: in every operator template the operator "
    "function is applied with provenance (self, other), (other, self) for reflected and (self) for unary operators "
    "(through map argument order, lambdas and comprehensions). C01.table: the operator table literal is folded and, for "
    "each of its names, the expressions of OpMethod._insert for rev/arity/dname/func are folded and compared with the "
    "Python data model (independent oracle: reflected iff name[1:] is a binary operator name, unary iff pos/neg/invert, "
    "function = operator.__base__ existing on this interpreter, symbol row consistent); the metaclass dispatches "
    "(rev, arity) to the right builder and installs the dunder under op.dname. C01.lazy-shortest: Stream templates "
    "return Stream(map(op, iter(self)[, iter(other)])) - with the stdlib semantics of map this is i-th with i-th, ending "
    "with the shortest; scalars are closed over. C01.elementwise: the wrapper substitutes exactly the broadcast position, "
    "returns the generator itself for lazy inputs, Stream(data) for Streams, type(arg)(data) otherwise, and "
    "func(*args, **kwargs) for scalars/strings; SOME_GEN_TYPES covers generator, range, enumerate, zip, map, filter. "
    "C01.family: every @elementwise(name, pos) names the parameter at index pos; inline wraps use position 0 on existing "
    "one-argument math functions; log10/log2/str2freq/freq2str delegate their first parameter. Not decided: element "
    "values (they follow from map/operator, trusted)."
    " Also: C01.dispatch (decision tables, sa/dtable.py): the guards of the Stream operator templates are evaluated for an operand of an ignored class / an iterable / anything else; OpMethod._insert files every operator under all its keys; the table is initialised at import. ")

UNDECIDED = ["element values for each element type (trusted: operator.* and map)"]

BINARY = {"add": "+", "sub": "-", "mul": "*", "truediv": "/", "floordiv": "//", "mod": "%", "pow": "**",
          "rshift": ">>", "lshift": "<<", "and": "&", "or": "|", "xor": "^", "lt": "<", "le": "<=", "eq": "==",
          "ne": "!=", "gt": ">", "ge": ">=", "matmul": "@"}
UNARY = {"pos": "+", "neg": "-", "invert": "~"}
NO_REFLECTED = {"lt", "le", "eq", "ne", "gt", "ge"}


def prov(e, binds):
    """'self' / 'other' / None"""
    if isinstance(e, ast.Name):
        if e.id in ("self", "other"):
            return e.id
        return binds.get(e.id)
    if isinstance(e, ast.IfExp):
        a, b = prov(e.body, binds), prov(e.orelse, binds)
        return a if a == b else None
    if isinstance(e, ast.Call):
        fn = unparse(e.func)
        if fn in ("it.repeat", "repeat", "itertools.repeat") and len(e.args) == 1:
            return prov(e.args[0], binds)          # the same operand for every element
        if fn in ("iter", "cls", "Stream", "list", "tuple") and e.args:
            a = e.args[0]
            if isinstance(a, (ast.List, ast.Tuple)) and len(a.elts) == 1:
                a = a.elts[0]
            return prov(a, binds)
    if isinstance(e, ast.Attribute) and e.attr in ("table", "_data", "numpoly", "denpoly"):
        return prov(e.value, binds)
    return None


def applications(dunder):
    """[(tuple of provenances, node)] for every application of op_func in the template's inner function."""
    out = []
    # locals bound once to a view of one operand (self_data = iter(self))
    local = {}
    cnt = {}
    for a_ in ast.walk(dunder):
        if isinstance(a_, ast.Name) and isinstance(a_.ctx, ast.Store):
            cnt[a_.id] = cnt.get(a_.id, 0) + 1
    for _ in range(3):
        for a_ in ast.walk(dunder):
            if isinstance(a_, ast.Assign) and len(a_.targets) == 1 and isinstance(a_.targets[0], ast.Name) \
                    and cnt.get(a_.targets[0].id) == 1 and a_.targets[0].id not in ("self", "other"):
                pv_ = prov(a_.value, local)
                if pv_ is not None:
                    local[a_.targets[0].id] = pv_
    for n in ast.walk(dunder):
        if isinstance(n, ast.Call) and unparse(n.func) in ("xmap", "map") and n.args and unparse(n.args[0]) == "op_func":
            out.append((tuple(prov(a, local) for a in n.args[1:]), n))
        elif isinstance(n, ast.Call) and unparse(n.func) in ("xmap", "map") and n.args and (
                isinstance(n.args[0], ast.Lambda) or (isinstance(n.args[0], ast.Name) and n.args[0].id != "op_func")):
            lams = [n.args[0]] if isinstance(n.args[0], ast.Lambda) else [
                a.value for a in ast.walk(dunder) if isinstance(a, ast.Assign) and unparse(a.targets[0]) == n.args[0].id
                and isinstance(a.value, ast.Lambda)]
            if not lams:
                continue
            lam = lams[-1]
            binds = {}
            for p, src in zip([a.arg for a in lam.args.args], n.args[1:]):
                binds[p] = prov(src, {})
            for c in ast.walk(lam.body):
                if isinstance(c, ast.Call) and unparse(c.func) == "op_func":
                    out.append((tuple(prov(a, binds) for a in c.args), c))
        elif isinstance(n, (ast.ListComp, ast.GeneratorExp)):
            binds = {}
            for g in n.generators:
                it = g.iter
                if isinstance(it, ast.Name):
                    # resolve a local like zip_tables = xzip(self.table, other.table)
                    nm = it.id
                    for a in ast.walk(dunder):
                        if isinstance(a, ast.Assign) and unparse(a.targets[0]) == nm:
                            it = a.value
                if isinstance(it, ast.Call) and unparse(it.func) in ("xzip", "zip") and isinstance(g.target, ast.Tuple):
                    for t, src in zip(g.target.elts, it.args):
                        binds[unparse(t)] = prov(src, {})
                elif isinstance(it, ast.Call) and unparse(it.func) == "iteritems" and isinstance(g.target, ast.Tuple):
                    binds[unparse(g.target.elts[1])] = prov(it.args[0], {})
                elif isinstance(g.target, ast.Name):
                    binds[g.target.id] = prov(it, {})
            elts = [n.elt] if not isinstance(n.elt, ast.Tuple) else list(n.elt.elts)
            for e in elts:
                for c in ast.walk(e):
                    if isinstance(c, ast.Call) and unparse(c.func) == "op_func" and not any(
                            isinstance(p, ast.Lambda) for p in _ancestors(c, n)):
                        out.append((tuple(prov(a, binds) for a in c.args), c))
        elif isinstance(n, ast.Call) and unparse(n.func) == "op_func":
            # direct call not inside a lambda / comprehension handled above
            anc = list(_ancestors(n, dunder))
            if not any(isinstance(p, (ast.Lambda, ast.ListComp, ast.GeneratorExp)) for p in anc):
                out.append((tuple(prov(a, {}) for a in n.args), n))
    return out


def _ancestors(node, stop):
    p = getattr(node, "_parent", None)
    while p is not None and p is not stop:
        yield p
        p = getattr(p, "_parent", None)


def run(chk, repo):
    smod, cmod = repo.mod("lazy_stream"), repo.mod("lazy_core")

    # --------------------------------------------------------------- C01.order
    chk.rule("C01.order", "every application of op_func in an operator template has provenance (self, other) in "
                          "__binary__, (other, self) in __rbinary__ and (self) in __unary__")
    templates = [("lazy_stream", "StreamMeta", ("__binary__", "__rbinary__", "__unary__")),
                 ("lazy_synth", "TableLookupMeta", ("__binary__", "__rbinary__", "__unary__")),
                 ("lazy_poly", "PolyMeta", ("__rbinary__", "__unary__")),
                 ("lazy_filters", "ZFilterMeta", ("__rbinary__",))]
    want = {"__binary__": ("self", "other"), "__rbinary__": ("other", "self"), "__unary__": ("self",)}
    napp = 0
    for mname, cname, kinds in templates:
        m = repo.mod(mname)
        for kind in kinds:
            t = repo.find(mname, "%s.%s" % (cname, kind))
            inner = [f for f in t.body if isinstance(f, FuncTypes)]
            rets = [s_ for s_ in docstring_free(t.body) if isinstance(s_, ast.Return) and isinstance(s_.value, ast.Name)]
            if len(inner) > 1 and rets:
                helpers_ = [f for f in inner if f.name != rets[-1].value.id]
                inner = [f for f in inner if f.name == rets[-1].value.id]
                from ..e3 import E3 as _E3, describe as _describe
                _e3 = _E3([(mm_.name, mm_.tree) for mm_ in repo.modules.values()])
                for hf in helpers_:
                    for site in _e3.scan(hf):
                        if site.in_generator:
                            chk.decide(not site.escapes, "C01.lazy-shortest", "%s:%s.%s.%s" % (m.relpath, cname, kind, hf.name),
                                       _describe(site),
                                       why="when this operand is the shorter one the StopIteration of next() turns into a "
                                           "RuntimeError inside the generator (PEP 479): the result no longer just ends "
                                           "with the shortest operand", node=site.node)
            chk.require(len(inner) == 1, "%s.%s: inner dunder not found" % (cname, kind))
            asg = [s for s in docstring_free(t.body) if isinstance(s, ast.Assign) and unparse(s.targets[0]) == "op_func"]
            W = "%s:%s.%s" % (m.relpath, cname, kind)
            chk.decide(len(asg) == 1 and unparse(asg[0].value) == "op.func", "C01.order", W, "op_func = op.func",
                       why="the template must apply the function of the operator it is built for", node=t)
            apps = applications(inner[0])
            chk.require(apps, "%s: no application of op_func found" % W)
            for pv, node in apps:
                napp += 1
                chk.decide(pv == want[kind], "C01.order", W, "%s with operands from %s" % (short(node, 70), pv),
                           why="operands must come from %s: a.__r<op>__(b) computes b <op> a" % (want[kind],), node=node)
    chk.floor("C01.order", napp, 9, "operator applications (at least one per template; 12 on the confirmed tree)")

    # --------------------------------------------------------------- C01.table
    chk.rule("C01.table", "folded operator table vs the Python data model: rev, arity, dunder name and operator function "
                          "of every entry; symbol rows consistent; dispatch on (rev, arity)")
    init = repo.find("lazy_core", "OpMethod._initialize")
    ins = repo.find("lazy_core", "OpMethod._insert")
    W = "%s:OpMethod" % cmod.relpath
    rows = _fold_table(init)
    chk.facts["operator_rows"] = len(rows)
    names_seen = []
    for symbol, names in rows:
        for name in names:
            names_seen.append(name)
            got = _fold_insert(ins, name, symbol)
            base = name[1:] if (name.startswith("r") and name[1:] in BINARY and name not in BINARY) else name
            exp_rev = base != name
            exp_arity = 1 if name in UNARY else 2
            exp_sym = UNARY.get(name) if name in UNARY else BINARY.get(base)
            problems = []
            if exp_sym is None:
                problems.append("'%s' is not an operator method name of the data model" % name)
            if got["rev"] != exp_rev:
                problems.append("rev=%s but the data model says %s" % (got["rev"], exp_rev))
            if got["arity"] != exp_arity:
                problems.append("arity=%s, expected %s" % (got["arity"], exp_arity))
            if got["dname"] != "__%s__" % name:
                problems.append("dunder name %s" % got["dname"])
            if got["func"] != "__%s__" % base:
                problems.append("operator function %s, expected operator.__%s__" % (got["func"], base))
            elif not hasattr(_operator, got["func"]):
                problems.append("operator.%s does not exist on this interpreter" % got["func"])
            if exp_sym is not None and symbol != exp_sym:
                problems.append("listed under symbol %r, the data model pairs it with %r" % (symbol, exp_sym))
            if exp_rev and base in NO_REFLECTED:
                problems.append("comparison operators have no reflected method")
            chk.decide(not problems, "C01.table", W, "%s %s -> rev=%s arity=%s %s operator.%s"
                       % (symbol, name, got["rev"], got["arity"], got["dname"], got["func"]),
                       why="; ".join(problems), node=ins)
    # completeness: every operator of the property is present
    need = set(BINARY) | set(UNARY) | {"r" + b for b in BINARY if b not in NO_REFLECTED}
    missing = sorted(need - set(names_seen))
    chk.decide(not missing, "C01.table", W, "table lists all %d operator methods" % len(names_seen),
               why="missing operator methods: %s" % missing, node=init)
    chk.floor("C01.table", len(names_seen), 35, "operator table entries")
    dup = sorted({n for n in names_seen if names_seen.count(n) > 1})
    chk.decide(not dup, "C01.table", W, "no operator name listed twice", why="duplicates: %s" % dup, node=init)
    new = repo.find("lazy_core", "AbstractOperatorOverloaderMeta.__new__")
    dd = [n for n in ast.walk(new) if isinstance(n, ast.Dict) and len(n.keys) == 3]
    ok = False
    if dd:
        m = {unparse(k): unparse(v) for k, v in zip(dd[0].keys, dd[0].values)}
        ok = m == {"(False, 1)": "mcls.__unary__", "(False, 2)": "mcls.__binary__", "(True, 2)": "mcls.__rbinary__"}
        sub = dd[0]._parent
        ok = ok and isinstance(sub, ast.Subscript) and unparse(sub.slice) == "(op.rev, op.arity)" \
            and isinstance(sub._parent, ast.Call) and [unparse(a) for a in sub._parent.args] == ["cls", "op"]
    chk.decide(ok, "C01.table", "%s:AbstractOperatorOverloaderMeta.__new__" % cmod.relpath,
               short(dd[0]._parent._parent) if dd else "dispatch dict missing",
               why="(rev, arity) must select unary / binary / reflected builder, called with (cls, op)", node=new)
    txt = unparse(new)
    ok = "dunder.__name__ = op.dname" in txt and "setattr(cls, dunder.__name__, dunder)" in txt \
        and "if op.dname not in namespace" in txt and "OpMethod.get(mcls.__operators__, without=mcls.__without__)" in txt
    chk.decide(ok, "C01.table", "%s:AbstractOperatorOverloaderMeta.__new__" % cmod.relpath,
               "installs each generated dunder under op.dname unless the class defines it",
               why="a dunder installed under another name (or overwriting a hand-written one) breaks the operator", node=new)
    sm = repo.find("lazy_stream", "StreamMeta")
    own_ops = [s for s in sm.body if isinstance(s, ast.Assign) and unparse(s.targets[0]) in ("__operators__", "__without__")]
    chk.decide(not own_ops, "C01.table", "%s:StreamMeta" % smod.relpath, "StreamMeta overloads all operators (defaults)",
               why="a restricted operator set drops Stream operators of the property", node=sm)
    dflt = {unparse(s.targets[0]): unparse(s.value) for s in repo.find("lazy_core", "AbstractOperatorOverloaderMeta").body
            if isinstance(s, ast.Assign)}
    chk.decide(dflt.get("__operators__") == "'all'" and dflt.get("__without__") == "None", "C01.table",
               "%s:AbstractOperatorOverloaderMeta" % cmod.relpath, "defaults __operators__='all', __without__=None",
               why="defaults must select every operator", node=sm)

    # -------------------------------------------------------- C01.map-object
    # read on the source as written (not on the normalised view: the equivalence engine treats map(f, X) and
    # (f(c) for c in X) as the same lazy iteration, which they are - until an element raises)
    chk.rule("C01.map-object", "the element-wise iteration of the Stream operator templates is a map object (xmap / map / "
                               "imap), not a generator expression: when op raises for one position (1/0, 2 << -1 ..) a map "
                               "goes on with the next position, a generator is finished by the exception")
    import warnings as _w
    smod_ = repo.mod("lazy_stream")
    with _w.catch_warnings():
        _w.simplefilter("ignore")
        raw_ = ast.parse(smod_.src)
    nmap = 0
    for c_ in [n for n in ast.walk(raw_) if isinstance(n, ast.ClassDef) and n.name == "StreamMeta"]:
        for m_ in [x for x in c_.body if isinstance(x, FuncTypes) and x.name in ("__binary__", "__rbinary__", "__unary__")]:
            for call_ in [n for n in ast.walk(m_) if isinstance(n, ast.Call) and isinstance(n.func, ast.Name) and n.func.id == "Stream"
                          and len(n.args) == 1]:
                a_ = call_.args[0]
                if isinstance(a_, (ast.GeneratorExp, ast.ListComp)) or (isinstance(a_, ast.Call) and unparse(a_.func) in (
                        "xmap", "map", "it.imap", "imap")):
                    nmap += 1
                    chk.decide(isinstance(a_, ast.Call), "C01.map-object", "%s:StreamMeta.%s" % (smod_.relpath, m_.name),
                               "Stream(%s)" % short(a_, 70),
                               why="a generator expression ends at the first exception that escapes the operator: every "
                                   "later position is lost, and 'scalar op Stream' stops agreeing with "
                                   "'Stream(scalar) op Stream'", node=None)
    if nmap == 0:
        chk.note("C01.map-object", "%s:StreamMeta" % smod_.relpath, "templates restructured: the raw form of the mapped "
                 "iteration was not found (decided on the view by C01.lazy-shortest only)")
    # -------------------------------------------------------- C01.lazy-shortest
    chk.rule("C01.lazy-shortest", "Stream templates: ignored classes -> NotImplemented; Iterable other -> "
                                  "Stream(map(op_func, iter(self), iter(other))) (order per template); scalar other -> "
                                  "Stream(map(lambda a: op_func(..), iter(self))); unary -> Stream(map(op_func, iter(self)))")
    for kind in ("__binary__", "__rbinary__", "__unary__"):
        t = repo.find("lazy_stream", "StreamMeta." + kind)
        inner = [f for f in t.body if isinstance(f, FuncTypes)][0]
        W = "%s:StreamMeta.%s" % (smod.relpath, kind)
        rets = [n for n in own_nodes(inner) if isinstance(n, ast.Return) and unparse(n.value) != "NotImplemented"]
        # locals bound once in the template (self_data = iter(self)) are read through
        once_ = {}
        for a_ in own_nodes(inner):
            if isinstance(a_, ast.Assign) and len(a_.targets) == 1 and isinstance(a_.targets[0], ast.Name):
                once_.setdefault(a_.targets[0].id, []).append(a_.value)

        def through(e_):
            while isinstance(e_, ast.Name) and len(once_.get(e_.id, [])) == 1:
                e_ = once_[e_.id][0]
            return e_

        def lazy_source(e_):
            e_ = through(e_)
            if isinstance(e_, ast.IfExp):
                return lazy_source(e_.body) and lazy_source(e_.orelse)
            return isinstance(e_, ast.Call) and (unparse(e_.func) == "iter" or (
                canon_call(smod, e_) in ("itertools.repeat", "repeat") and len(e_.args) == 1))
        for r in rets:
            v = r.value
            ok = isinstance(v, ast.Call) and base_name(canon(smod, v.func)) == "Stream" and len(v.args) == 1 \
                and isinstance(v.args[0], ast.Call) and canon_call(smod, v.args[0]) == "map"
            if ok:
                its = v.args[0].args[1:]
                ok = all(lazy_source(a) for a in its)
            chk.decide(ok, "C01.lazy-shortest", W, short(r), why="result must be a Stream over the builtin lazy map of "
                       "iterators: anything else changes where the result ends or evaluates eagerly", node=r)
        if kind != "__unary__":
            # one return per kind of operand, or one return whose second source is chosen by the kind (C01.dispatch says
            # which source goes with which kind)
            tests_ = [n_ for n_ in own_nodes(inner) if isinstance(n_, (ast.If, ast.IfExp))
                      and unparse(n_.test) in ("isinstance(other, Iterable)", "not isinstance(other, Iterable)")]
            ok = len(tests_) == 1 and len(rets) in (1, 2)
            chk.decide(ok, "C01.lazy-shortest", W, "iterable operands are zipped, others repeated: " +
                       (unparse(tests_[0].test) if tests_ else "?"),
                       why="iterables must be paired element by element, non-iterables closed over", node=inner)
    # which arm for which operand, and the operator registry (decision tables)
    from ..dtable import Facts, walk
    chk.rule("C01.dispatch", "decision tables: a Stream operator returns NotImplemented exactly for operands of an ignored "
                             "class, zips with iterables and closes over anything else; OpMethod._insert files every "
                             "operator under all its keys (first one creates the list, later ones are appended; "
                             "reflected ones also under 'r'); the table is initialised when lazy_core is imported; the "
                             "metaclass refuses only a missing template")
    for kind in ("__binary__", "__rbinary__"):
        t = repo.find("lazy_stream", "StreamMeta." + kind)
        inner = [f for f in t.body if isinstance(f, FuncTypes)][0]
        Wd = "%s:StreamMeta.%s" % (smod.relpath, kind)
        o_ = inner.args.args[1].arg
        try:
            for ok_kind in ("ignored", "iterable", "scalar"):
                F = Facts(kinds={o_: {"cls.__ignored_classes__", "Iterable"} if ok_kind == "ignored" else
                                 ({"list", "Iterable"} if ok_kind == "iterable" else {"float"})},
                          types={"Iterable", "cls.__ignored_classes__"})
                w = walk(docstring_free(inner.body), F, "StreamMeta." + kind)
                last_node = w.last
                if last_node is not None and isinstance(last_node, ast.Return) and last_node.value is not None:
                    # locals of the path taken are written out (other_data = iter(other) / repeat(other))
                    env_ = {}
                    for st_ in w.ran:
                        if isinstance(st_, ast.Assign) and len(st_.targets) == 1 and isinstance(st_.targets[0], ast.Name):
                            env_[st_.targets[0].id] = st_.value

                    class _W(ast.NodeTransformer):
                        def visit_Name(self_, n_):
                            if isinstance(n_.ctx, ast.Load) and n_.id in env_:
                                return ast.parse(unparse(env_[n_.id]), mode="eval").body
                            return n_
                    last_node = ast.Return(value=_W().visit(ast.parse(unparse(last_node.value), mode="eval").body))
                last = unparse(last_node) if last_node is not None else w.end
                repeated = "lambda" in last or "repeat(%s)" % o_ in last
                if ok_kind == "ignored":
                    okd = last == "return NotImplemented"
                elif ok_kind == "iterable":
                    okd = w.end == "return" and "iter(%s)" % o_ in last and not repeated
                else:
                    okd = w.end == "return" and repeated and "iter(%s)" % o_ not in last
                chk.decide(okd, "C01.dispatch", Wd, "<%s> operand -> %s" % (ok_kind, last[:80]),
                           why="ignored classes get NotImplemented (so that their own reflected operator runs), iterables "
                               "are paired element by element, anything else is repeated", node=inner)
        except AnalysisError as ex:
            chk.defer(str(ex))
    ins_body = docstring_free(ins.body)
    reg_loops = [st for st in ins_body if isinstance(st, ast.For) and "_all" in unparse(st)]
    chk.require(len(reg_loops) == 1, "OpMethod._insert: registry loop not found")
    kv_ = unparse(reg_loops[0].target)
    try:
        for present in (False, True):
            F = Facts(truths={"%s not in cls._all" % kv_: not present, "%s in cls._all" % kv_: present})
            w = walk(reg_loops[0].body, F, "OpMethod._insert registry")
            chk.decide(w.texts() in ((["cls._all[%s].append(self)" % kv_] if present else ["cls._all[%s] = [self]" % kv_]),
                                     ["cls._all.setdefault(%s, []).append(self)" % kv_]),
                       "C01.dispatch", "%s:OpMethod._insert" % cmod.relpath,
                       "key %s -> %s" % ("already present" if present else "new", "; ".join(w.texts())),
                       why="every operator must end up in the list of each of its keys", node=reg_loops[0])
        pre_ = [st for st in ins_body if st is not reg_loops[0]]
        for rev_ in (True, False):
            F = Facts(truths={"self.rev": rev_})
            w = walk([st for st in pre_ if isinstance(st, ast.If) or (isinstance(st, ast.Assign) and unparse(st.targets[0]) == "keys")],
                     F, "OpMethod._insert keys")
            t_ = w.texts()
            has_r = any(x in ("keys.append('r')", "keys += ['r']") for x in t_)
            base_keys = [x for x in t_ if x.startswith("keys = [")]
            okk = has_r == rev_ and len(base_keys) == 1 and all(k_ in base_keys[0] for k_ in ("'all'", "self.symbol", "self.name", "self.dname"))
            chk.decide(okk, "C01.dispatch", "%s:OpMethod._insert" % cmod.relpath,
                       "%s operator filed under %s" % ("reflected" if rev_ else "plain", "; ".join(t_)[:110]),
                       why="keys 'all', symbol, name, dunder name (and 'r' for reflected operators) select the operators of a class",
                       node=ins)
    except AnalysisError as ex:
        chk.defer(str(ex))
    inits = [st for st in cmod.tree.body if isinstance(st, ast.Expr) and unparse(st.value) == "OpMethod._initialize()"]
    cls_pos = [i for i, st in enumerate(cmod.tree.body) if isinstance(st, ast.ClassDef) and st.name == "AbstractOperatorOverloaderMeta"]
    chk.decide(len(inits) == 1 and cls_pos and cmod.tree.body.index(inits[0]) < cls_pos[0], "C01.dispatch",
               "%s:<module>" % cmod.relpath, "OpMethod._initialize() runs at import, before the metaclass is defined",
               why="without it the operator table is empty and no class gets any operator", node=inits[0] if inits else cmod.tree)
    try:
        guards_ = [n for n in ast.walk(new) if isinstance(n, ast.If) and "callable(dunder)" in unparse(n.test)]
        chk.require(len(guards_) == 1, "AbstractOperatorOverloaderMeta.__new__: template guard not found")
        for cal in (True, False):
            w = walk([guards_[0]], Facts(truths={"callable(dunder)": cal}), "metaclass template guard")
            chk.decide((w.end == "raise" and "TypeError" in unparse(w.last)) if not cal else w.end == "fall", "C01.dispatch",
                       "%s:AbstractOperatorOverloaderMeta.__new__" % cmod.relpath,
                       "template %s -> %s" % ("callable" if cal else "missing", unparse(w.last)[:60] if w.last is not None else "installed"),
                       why="only a class without a template for a requested operator is refused", node=new)
    except AnalysisError as ex:
        chk.defer(str(ex))

    # closure freshness of the scalar arm
    chk.rule("C01.closure", "the function mapped over the stream in the scalar arm is a lambda written in the dunder "
                            "itself (a fresh closure over this call's operand); it never comes from a memoising helper "
                            "(cached / lru_cache), where operands that merely compare equal (2, 2.0, Fraction(2), True) "
                            "would share one closure")
    MEMO = ("cached", "lru_cache", "functools.lru_cache", "cache", "functools.cache", "memoize")
    for kind in ("__binary__", "__rbinary__"):
        t = repo.find("lazy_stream", "StreamMeta." + kind)
        inner = [f for f in t.body if isinstance(f, FuncTypes)][0]
        W = "%s:StreamMeta.%s" % (smod.relpath, kind)
        maps = [n for n in ast.walk(inner) if isinstance(n, ast.Call) and canon_call(smod, n) == "map" and len(n.args) == 2]
        if not maps:
            # no closure at all: the operand is handed to op_func itself, repeated for every element
            reps_ = [n for n in ast.walk(inner) if isinstance(n, ast.Call) and canon_call(smod, n) in ("itertools.repeat", "repeat")
                     and [unparse(a_) for a_ in n.args] == [inner.args.args[1].arg]]
            chk.require(reps_, "%s: scalar arm (map of a one-argument function, or the operand repeated) not found" % W)
            chk.ok("C01.closure", W, "no closure: %s feeds the operand of this call to every element" % short(reps_[0]),
                   node=reps_[0])
            continue
        for mcall in maps:
            f = mcall.args[0]
            sources = [f]
            if isinstance(f, ast.Name):
                sources = [a.value for a in ast.walk(inner) if isinstance(a, ast.Assign) and unparse(a.targets[0]) == f.id]
                if not sources:
                    raise AnalysisError("%s: origin of the mapped function %s not found" % (W, f.id))
            for src in sources:
                if isinstance(src, ast.Lambda):
                    chk.ok("C01.closure", W, "mapped function is an inline lambda: " + short(src), node=src)
                elif isinstance(src, ast.Call) and isinstance(src.func, ast.Name):
                    origin = [a.value for a in ast.walk(t) if isinstance(a, ast.Assign) and unparse(a.targets[0]) == src.func.id]
                    memo = any(isinstance(o, ast.Call) and unparse(o.func) in MEMO for o in origin) or src.func.id in MEMO
                    if memo:
                        chk.bad("C01.closure", W, "mapped function comes from " + short(src),
                                "the closure is looked up in a cache keyed by the operand: operands that compare equal "
                                "but differ in type (2 / 2.0 / Fraction(2), 1 / True, 0.0 / -0.0) reuse the closure "
                                "bound to the first one seen - the non-iterable operand is no longer the one given",
                                node=src)
                    else:
                        raise AnalysisError("%s: mapped function built by %s - cannot tell whether the closure is fresh"
                                            % (W, short(src)))
                else:
                    raise AnalysisError("%s: mapped function %s not understood" % (W, short(src)))

    # getattr / call
    ga = repo.find("lazy_stream", "Stream.__getattr__")
    r = docstring_free(ga.body)[-1]
    chk.decide(unparse(r) == "return Stream((getattr(a, name) for a in self._data))", "C01.lazy-shortest",
               "%s:Stream.__getattr__" % smod.relpath, short(r), why="attribute access must be element-wise and lazy", node=r)
    ca = repo.find("lazy_stream", "Stream.__call__")
    r = docstring_free(ca.body)[-1]
    chk.decide(unparse(r) == "return Stream((a(*args, **kwargs) for a in self._data))", "C01.lazy-shortest",
               "%s:Stream.__call__" % smod.relpath, short(r), why="calling must be element-wise and lazy", node=r)

    # ---------------------------------------------------------- C01.elementwise
    _elementwise(chk, repo)
    _family(chk, repo)


def _fold_table(init):
    """[(symbol, [names])] from the literal of OpMethod._initialize (the HAS_MATMUL row folds to true on >= 3.5)."""
    lines = None
    extra = []
    for st in docstring_free(init.body):
        if isinstance(st, ast.Assign) and unparse(st.targets[0]) == "op_symbols":
            f = Folder({})
            try:
                lines = f.ev(st.value)
            except Inconclusive as ex:
                raise AnalysisError("operator table literal cannot be folded: %s" % ex)
        elif isinstance(st, ast.If) and unparse(st.test) == "HAS_MATMUL":
            for s in st.body:
                if isinstance(s, ast.Expr) and isinstance(s.value, ast.Call) and unparse(s.value.func) == "op_symbols.append":
                    extra.append(Folder({}).ev(s.value.args[0]))
    if not isinstance(lines, list):
        raise AnalysisError("OpMethod._initialize: op_symbols literal not found")
    lines = lines + extra
    loop = [s for s in docstring_free(init.body) if isinstance(s, ast.For)]
    if len(loop) != 1 or unparse(loop[0].iter) != "op_symbols":
        raise AnalysisError("OpMethod._initialize: loop over op_symbols not found")
    lb = [unparse(s) for s in loop[0].body]
    if lb[0] != "symbol, names = op_line.split(None, 1)" or "cls._insert(name, symbol)" not in lb[1] \
            or "for name in names.split()" not in lb[1]:
        raise AnalysisError("OpMethod._initialize: row parsing changed: %s" % lb)
    rows = []
    for ln in lines:
        symbol, names = ln.split(None, 1)
        rows.append((symbol, names.split()))
    return rows


def _fold_insert(ins, name, symbol):
    selfobj = Obj("self", {})

    def hook(folder, e):
        fn = unparse(e.func)
        if fn == "cls":
            return selfobj
        if fn == "getattr" and len(e.args) == 2 and unparse(e.args[0]) == "operator":
            return "operator:" + folder.ev(e.args[1])
        return NotImplemented
    f = Folder({"name": name, "symbol": symbol, "self": selfobj}, call_hook=hook)
    try:
        for st in docstring_free(ins.body):
            if isinstance(st, ast.Assign) and isinstance(st.targets[0], ast.Attribute) \
                    and unparse(st.targets[0].value) == "self":
                f.stmt(st, None)
            elif isinstance(st, ast.Assign) and unparse(st.targets[0]) == "self":
                continue
    except Inconclusive as ex:
        raise AnalysisError("OpMethod._insert cannot be folded for '%s': %s" % (name, ex))
    a = selfobj.attrs
    need = ("rev", "arity", "dname", "func", "name", "symbol")
    if not all(k in a for k in need):
        raise AnalysisError("OpMethod._insert no longer sets %s" % [k for k in need if k not in a])
    func = a["func"]
    func = func.split(":", 1)[1] if isinstance(func, str) and func.startswith("operator:") else str(func)
    return {"rev": bool(a["rev"]), "arity": a["arity"], "dname": a["dname"], "func": func}


def _elementwise(chk, repo):
    mm = repo.mod("lazy_misc")
    W = "%s:elementwise.elementwise_decorator.wrapper" % mm.relpath
    chk.rule("C01.elementwise", "wrapper: broadcast argument found by position or keyword; for an iterable non-string the "
                                "mapped generator substitutes exactly that position / keyword; returns: the generator "
                                "itself under isinstance(arg, SOME_GEN_TYPES), Stream(data) for Stream subclasses, "
                                "type(arg)(data) otherwise (numpy arm only under the module test); scalar/strings: "
                                "func(*args, **kwargs)")
    wr = repo.find("lazy_misc", "elementwise.elementwise_decorator.wrapper")
    body = docstring_free(wr.body)
    facts = {unparse(s.targets[0]): s for s in body if isinstance(s, ast.Assign)}
    ok = "positional" in facts and unparse(facts["positional"].value) == "pos is not None and pos < len(args)"
    chk.decide(ok, "C01.elementwise", W, short(facts.get("positional")),
               why="positional lookup only when the position exists in args", node=wr)
    ok = "arg" in facts and unparse(facts["arg"].value) == "args[pos] if positional else kwargs[name]"
    chk.decide(ok, "C01.elementwise", W, short(facts.get("arg")), why="broadcast argument = args[pos] or kwargs[name]", node=wr)
    main = [s for s in body if isinstance(s, ast.If)]
    chk.require(len(main) == 1, "elementwise wrapper: main 'if' not found")
    mi = main[0]
    chk.decide(unparse(mi.test) == "isinstance(arg, Iterable) and (not isinstance(arg, STR_TYPES))", "C01.elementwise", W,
               "broadcast guard: " + unparse(mi.test), why="strings are scalars; every other iterable is mapped", node=mi)
    last = body[-1]
    chk.decide(unparse(last) == "return func(*args, **kwargs)", "C01.elementwise", W, "scalar path: " + short(last),
               why="scalar in, scalar out: the function applied once to the unchanged arguments", node=last)
    # what is called for each element, per arm: the iterable arm with `positional` decided (guards resolved by
    # sa/dtable.specialise), the generator's element with the locals bound once before it (slices of args, a local
    # lambda) written out, compared with the call the contract describes
    from ..dtable import Facts as _F, specialise as _spec
    import copy as _copy

    class _Expand(ast.NodeTransformer):
        def __init__(self, env):
            self.env = env

        def visit_Name(self, n):
            if isinstance(n.ctx, ast.Load) and n.id in self.env:
                return _copy.deepcopy(self.env[n.id])
            return n

        def visit_Call(self, n):
            n = self.generic_visit(n)
            f = n.func
            if isinstance(f, ast.Lambda) and not n.keywords and len(f.args.args) == len(n.args) and not (
                    f.args.vararg or f.args.kwarg or f.args.kwonlyargs or f.args.defaults) and all(
                    isinstance(a_, (ast.Name, ast.Constant)) for a_ in n.args):
                sub = dict((p_.arg, a_) for p_, a_ in zip(f.args.args, n.args))
                return _Expand(sub).visit(_copy.deepcopy(f.body))
            return n

    def _per_element(positional):
        """(call expression per element with x the element, or None) for one arm"""
        arm = _spec(mi.body, _F(truths={"positional": positional}))
        env, data = {}, None
        rebound = {}
        for st_ in arm:
            for n_ in ast.walk(st_):
                if isinstance(n_, ast.Name) and isinstance(n_.ctx, ast.Store):
                    rebound[n_.id] = rebound.get(n_.id, 0) + 1
        for st_ in arm:
            if not isinstance(st_, ast.Assign) or len(st_.targets) != 1:
                if isinstance(st_, (ast.If, ast.Return, ast.Try, ast.ImportFrom, ast.Import)) and data is not None:
                    break
                continue
            tg, v = st_.targets[0], st_.value
            if isinstance(tg, ast.Name) and tg.id == "data":
                data = _Expand(env).visit(_copy.deepcopy(v))
                continue
            pairs = []
            if isinstance(tg, ast.Name):
                pairs = [(tg.id, v)]
            elif isinstance(tg, ast.Tuple) and isinstance(v, ast.Tuple) and len(tg.elts) == len(v.elts) \
                    and all(isinstance(e_, ast.Name) for e_ in tg.elts):
                pairs = [(e_.id, v_) for e_, v_ in zip(tg.elts, v.elts)]
            for nm_, v_ in pairs:
                # slices / sums of args, tuples, lambdas: values that do not change and read nothing that does
                pure = all(isinstance(n_, (ast.Subscript, ast.Slice, ast.Name, ast.Constant, ast.BinOp, ast.Add, ast.Load,
                                           ast.Tuple, ast.Lambda, ast.arguments, ast.arg, ast.Call, ast.Starred,
                                           ast.keyword, ast.Dict, ast.List, ast.Attribute, ast.Sub, ast.UnaryOp, ast.USub))
                           for n_ in ast.walk(v_))
                if pure and rebound.get(nm_) == 1 and data is None and (isinstance(v_, ast.Lambda) or not any(
                        isinstance(n_, ast.Call) for n_ in ast.walk(v_))):
                    env[nm_] = _Expand(env).visit(_copy.deepcopy(v_))
        if data is None:
            return None, None
        if isinstance(data, ast.Call) and unparse(data.func) in ("xmap", "map", "it.imap") and len(data.args) == 2 \
                and unparse(data.args[1]) == "arg" and isinstance(data.args[0], ast.Lambda) and len(data.args[0].args.args) == 1:
            # map(lambda x: .., arg): the same thing
            return data.args[0].args.args[0].arg, data.args[0].body
        if isinstance(data, ast.GeneratorExp) and len(data.generators) == 1 and unparse(data.generators[0].iter) == "arg" \
                and not data.generators[0].ifs and isinstance(data.generators[0].target, ast.Name):
            return data.generators[0].target.id, data.elt
        return None, data

    def _flat_sum(e, parts):
        if isinstance(e, ast.BinOp) and isinstance(e.op, ast.Add):
            _flat_sum(e.left, parts)
            _flat_sum(e.right, parts)
        else:
            parts.append(e)
        return parts

    for positional in (True, False):
        x, c = _per_element(positional)
        label = "positional map: " if positional else "keyword map: "
        if x is None:
            if c is None:
                raise AnalysisError("elementwise wrapper: the mapped 'data' of the %s arm not found"
                                    % ("positional" if positional else "keyword"))
            chk.bad("C01.elementwise", W, short(c), "mapped data must be a generator expression over arg", node=mi)
            continue
        ok = isinstance(c, ast.Call) and unparse(c.func) == "func"
        stars = [a_ for a_ in c.args if isinstance(a_, ast.Starred)] if ok else []
        dstar = [k_.value for k_ in c.keywords if k_.arg is None] if ok else []
        named = [k_ for k_ in c.keywords if k_.arg is not None] if ok else []
        if positional:
            ok = ok and len(stars) >= 1 and not named
            if ok:
                # func(*(A + (x,) + B)) and func(*A, x, *B) pass the same positional arguments
                parts = []
                for a_ in c.args:
                    if isinstance(a_, ast.Starred):
                        _flat_sum(a_.value, parts)
                    else:
                        parts.append(ast.Tuple(elts=[a_], ctx=ast.Load()))
                ok = len(parts) == 3 and unparse(parts[1]) in ("(%s,)" % x, "[%s]" % x)
                if ok:
                    a, b = parts[0], parts[2]
                    try:
                        ok = isinstance(a, ast.Subscript) and unparse(a.value) == "args" and isinstance(a.slice, ast.Slice) \
                            and a.slice.lower is None and a.slice.step is None \
                            and Evaluator().ev(a.slice.upper) == RF.sym("pos") \
                            and isinstance(b, ast.Subscript) and unparse(b.value) == "args" and isinstance(b.slice, ast.Slice) \
                            and b.slice.upper is None and b.slice.step is None \
                            and Evaluator().ev(b.slice.lower) == RF.sym("pos") + 1
                    except (Inconclusive, AttributeError):
                        ok = False
            ok = ok and [unparse(k_) for k_ in dstar] == ["kwargs"]
            chk.decide(ok, "C01.elementwise", W, label + short(c, 120),
                       why="each element must replace exactly args[pos]: func(*(args[:pos] + (x,) + args[pos+1:]), "
                           "**kwargs) - the other positional arguments and every keyword argument unchanged", node=mi)
        else:
            ok = ok and [unparse(a_) for a_ in c.args] == ["*args"] and not named and len(dstar) == 1
            if ok:
                merged = unparse(dstar[0])
                ok = merged in ("dict(it.chain(iteritems(kwargs), [(name, %s)]))" % x,
                                "dict(it.chain(kwargs.items(), [(name, %s)]))" % x,
                                "dict(kwargs, **{name: %s})" % x, "{**kwargs, name: %s}" % x,
                                "dict(list(kwargs.items()) + [(name, %s)])" % x)
            chk.decide(ok, "C01.elementwise", W, label + short(c, 120),
                       why="each element must replace exactly the keyword `name` (last, so it wins) with every other "
                           "argument unchanged: func(*args, **{kwargs with name: x})", node=mi)
    # returns in the iterable arm, in order
    rets = sorted([n for n in ast.walk(mi) if isinstance(n, ast.Return)], key=lambda n: n.lineno)
    shapes = []
    for r in rets:
        g = r._parent
        guard = unparse(g.test) if isinstance(g, ast.If) and g is not mi else "otherwise"
        shapes.append((guard, unparse(r.value)))
    want = [("isinstance(arg, SOME_GEN_TYPES)", "data"), ("is_numpy", "np_type(list(data))"),
            ("issubclass(type_arg, Stream)", "Stream(data)"), ("otherwise", "type_arg(data)")]
    for (g, v), (wg, wv) in zip(shapes, want):
        chk.decide((g, v) == (wg, wv), "C01.elementwise", W, "under [%s] returns %s" % (g, v),
                   why="expected under [%s] return %s: lazy inputs stay lazy, Streams stay Streams, containers keep "
                       "their type" % (wg, wv), node=wr)
    chk.decide(len(shapes) == len(want), "C01.elementwise", W, "%d return arms on the iterable path" % len(shapes),
               why="expected the four arms generator / numpy / Stream / same container", node=wr)
    ta = [n for n in ast.walk(mi) if isinstance(n, ast.Assign) and unparse(n.targets[0]) == "type_arg"]
    chk.decide(len(ta) == 1 and unparse(ta[0].value) == "type(arg)", "C01.elementwise", W, "type_arg = type(arg)",
               why="container type must be the argument's own type", node=wr)
    # laziness of the generator arm: no pull before the first return
    s = e2.Silence(wr, ["arg"])
    first_ret_line = rets[0].lineno if rets else 0
    early = [p for p in s.pulls() if p.node.lineno <= first_ret_line]
    chk.decide(not early, "C01.elementwise", W, "nothing is pulled from the argument before the lazy arm returns",
               why="lazy inputs would be consumed: %s" % [p.how for p in early], node=wr)
    # SOME_GEN_TYPES
    cm = repo.mod("lazy_compat")
    sg = repo.find_assign("lazy_compat", "SOME_GEN_TYPES")
    elts = [unparse(e) for e in sg.elts] if isinstance(sg, ast.Tuple) else []
    need = {"types.GeneratorType", "xrange(0).__class__", "enumerate", "xzip", "xmap", "xfilter"}
    chk.decide(need <= set(elts), "C01.elementwise", "%s:SOME_GEN_TYPES" % cm.relpath, "SOME_GEN_TYPES = %s" % elts,
               why="generator, range, enumerate, zip, map and filter inputs must stay lazy; missing %s"
                   % sorted(need - set(elts)), node=sg)
    for nm, wantv in (("xmap", "getattr(it, 'imap', map)"), ("xzip", "getattr(it, 'izip', zip)"),
                      ("xfilter", "getattr(it, 'ifilter', filter)"), ("xrange", "getattr(builtins, 'xrange', range)")):
        v = repo.find_assign("lazy_compat", nm)
        chk.decide(unparse(v) == wantv, "C01.elementwise", "%s:%s" % (cm.relpath, nm), "%s = %s" % (nm, unparse(v)),
                   why="compat alias must be the lazy builtin on Python 3", node=v)
    # decorator factory: default position
    ew = repo.find("lazy_misc", "elementwise")
    first = docstring_free(ew.body)[0]
    ok = isinstance(first, ast.If) and unparse(first.test) in ("name == '' and pos is None", "(name == '') and (pos is None)") \
        and unparse(first.body[0]) == "pos = 0"
    chk.decide(ok, "C01.elementwise", "%s:elementwise" % mm.relpath, short(first),
               why="without name and position the first positional argument is broadcast", node=first)


def _family(chk, repo):
    chk.rule("C01.family", "@elementwise(name, pos): name is the parameter at index pos of the decorated function; "
                           "inline wraps elementwise(n, 0)(f) use existing one-argument functions; delegating functions "
                           "pass their first parameter at the broadcast position")
    n = 0
    for m in repo.modules.values():
        for fn in ast.walk(m.tree):
            if not isinstance(fn, FuncTypes):
                continue
            for d in fn.decorator_list:
                if isinstance(d, ast.Call) and unparse(d.func) == "elementwise":
                    args = [a.value for a in d.args if isinstance(a, ast.Constant)]
                    par = [a.arg for a in fn.args.args]
                    W = "%s:%s" % (m.relpath, fn.name)
                    ok = len(args) == 2 and isinstance(args[1], int) and args[1] < len(par) and par[args[1]] == args[0]
                    n += 1
                    chk.decide(ok, "C01.family", W, "@%s on %s(%s)" % (unparse(d), fn.name, ", ".join(par)),
                               why="the named parameter is not at the given position: positional and keyword calls "
                                   "would broadcast different arguments", node=fn)
    # every function the confirmed tree broadcasts must still broadcast: by the decorator, or by handing its broadcast
    # parameter straight to a function that does (nothing applied to the result outside)
    chk.rule("C01.broadcast", "functions that broadcast over containers in the confirmed tree still do: decorated "
                              "@elementwise, or 'return g(param, ...)' with g broadcasting that position")

    def deco_of(fn):
        for d in fn.decorator_list:
            if isinstance(d, ast.Call) and unparse(d.func) == "elementwise":
                a = [x.value for x in d.args if isinstance(x, ast.Constant)]
                if len(a) == 2:
                    return a
        return None
    nb = 0
    for mname, rt in sorted(repo.ref_trees.items()):
        if mname not in repo.modules:
            continue
        from ..equiv import units as _units
        cur_u = {k: f for k, f, _, _ in _units(repo.modules[mname].tree) if isinstance(f, FuncTypes)}
        cur = {f.name: f for f in cur_u.values()}
        for rkey, rf, _c, _i in _units(rt):
            if not isinstance(rf, FuncTypes) or deco_of(rf) is None:
                continue
            pname, ppos = deco_of(rf)
            cf = cur_u.get(rkey)
            W = "%s:%s" % (repo.modules[mname].relpath, rf.name)
            if cf is None:
                continue            # a removed public function is outside this rule
            nb += 1
            if deco_of(cf) is not None:
                chk.ok("C01.broadcast", W, "@elementwise%s" % (tuple(deco_of(cf)),), node=cf)
                n += 0
                continue
            r = docstring_free(cf.body)[-1] if docstring_free(cf.body) else None
            ok = False
            if len(docstring_free(cf.body)) == 1 and isinstance(r, ast.Return) and isinstance(r.value, ast.Call) \
                    and isinstance(r.value.func, ast.Name) and r.value.func.id in cur:
                g = cur[r.value.func.id]
                gd = deco_of(g)
                par = [a.arg for a in cf.args.args]
                if gd is not None and ppos < len(par) and len(r.value.args) > gd[1] \
                        and unparse(r.value.args[gd[1]]) == par[ppos]:
                    ok = True
            chk.decide(ok, "C01.broadcast", W, "no @elementwise: " + (short(r) if r is not None else "empty body"),
                       why="%s broadcast over containers (parameter %r); now a list / generator / Stream argument is handed "
                           "to scalar code as one object" % (rf.name, pname), node=cf)
    chk.floor("C01.broadcast", nb, 16, "functions broadcasting in the confirmed tree")
    chk.floor("C01.family", n, 12, "functions decorated @elementwise(name, pos)")
    mm = repo.mod("lazy_math")
    names = repo.find_assign("lazy_math", "_math_names")
    lst = [e.value for e in names.elts] if isinstance(names, ast.List) else []
    bad = [x for x in lst if not hasattr(math, x)]
    chk.decide(lst and not bad, "C01.family", "%s:_math_names" % mm.relpath, "%d math names, all present in math" % len(lst),
               why="not in math on this interpreter: %s" % bad, node=names)
    loop = [s for s in mm.tree.body if isinstance(s, ast.For) and "_math_names" in unparse(s.iter)]
    ok = len(loop) == 1 and unparse(loop[0].iter) == "[getattr(math, name) for name in _math_names]" \
        and [unparse(s) for s in loop[0].body] == ["locals()[func.__name__] = elementwise('x', 0)(func)"]
    chk.decide(ok, "C01.family", "%s:<math wrap loop>" % mm.relpath, short(loop[0]) if loop else "loop missing",
               why="each math function must be wrapped under its own name, broadcasting its single argument", node=mm.tree)
    for nm, wantv in (("absolute", "elementwise('number', 0)(abs)"), ("cexp", "elementwise('x', 0)(cmath.exp)"),
                      ("phase", "elementwise('z', 0)(cmath.phase)")):
        v = repo.find_assign("lazy_math", nm)
        chk.decide(unparse(v) == wantv, "C01.family", "%s:%s" % (mm.relpath, nm), "%s = %s" % (nm, unparse(v)),
                   why="inline wrap must broadcast position 0 of the one-argument function", node=v)
    for mname, fname, wantr in (("lazy_math", "log10", "return log(x, 10)"), ("lazy_math", "log2", "return log(x, 2)"),
                                ("lazy_midi", "str2freq", "return midi2freq(str2midi(note_string))"),
                                ("lazy_midi", "freq2str", "return midi2str(freq2midi(freq))")):
        fn = repo.find(mname, fname)
        r = docstring_free(fn.body)[-1]
        chk.decide(unparse(r) == wantr, "C01.family", "%s:%s" % (repo.mod(mname).relpath, fname), short(r),
                   why="must delegate its first parameter at the broadcast position of an elementwise function", node=r)
