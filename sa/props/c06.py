"""C06  Time-varying coefficients are sampled once per output sample."""
import ast

from ..core import (AnalysisError, FuncTypes, unparse, short, canon, canon_call, base_name, own_nodes,
                    docstring_free)
from ..ratfun import RF, Evaluator, Inconclusive
from .. import kernel as K
from .. import e4
from . import c04

EXPLANATION = (
    "Static analysis of lazy_filters.py, lazy_poly.py and lazy_stream.py. (1) Template frames: for every schema "
    "containing Stream coefficients the generated kernel advances each coefficient iterator exactly once per "
    "sample (one next(b_k)/next(a_k) per dict key, inside the loop), receives the iterators in the order of its "
    "parameters, satisfies a0*y[n] = sum next(b_k)*x[n-k] - sum next(a_k)*y[n-k] in rational normal form, and "
    "protects next() with try/except StopIteration so the output ends with the shortest coefficient (E3/PEP 479). "
    "(2) The variable-a0 arm divides numerator and the rest of the denominator by one gain stream, used twice "
    "with one copy, and is a rational identity. (3) Linear use: in the arithmetic dunders of ZFilter every "
    "carrier (self/other numpoly/denpoly) has at most one un-copied use per path and all .copy() uses precede "
    "it; [E] * n replication of a carrier is rejected (R4.4); the thub budgets of Poly.__mul__/__truediv__/"
    "__call__ equal the use counts with loop multiplicities as polynomials over symbolic sizes (R4.1); Poly.copy "
    "and LinearFilter.copy copy every Stream coefficient. (4) avoid_stream registers LinearFilter, ZFilter, "
    "CascadeFilter and ParallelFilter and the Stream operator templates return NotImplemented for them. "
    "Not decided: sample values.")

UNDECIDED = ["sample values of the coefficient streams", "filters combined through paths that bypass the dunders"]

LF, LP, LS = "lazy_filters", "lazy_poly", "lazy_stream"

CARRIERS = ("self.numpoly", "self.denpoly", "other.numpoly", "other.denpoly")


def _carrier_matcher(texts, bare=("self", "other")):
    def m(n):
        if isinstance(n, ast.Attribute) and unparse(n) in texts:
            return True
        if isinstance(n, ast.Name) and n.id in bare and isinstance(n.ctx, ast.Load):
            p = getattr(n, "_parent", None)
            if isinstance(p, ast.Attribute) and p.value is n and p.attr != "copy":
                return False        # self.<attr>: judged on the attribute
            return True
        return False
    return m


def _unroll_literal_loops(stmts):
    """``for a, b in [(X, Y), (Y, X)]: body`` over a display of names: the body once per item, names written out"""
    import copy as _copy
    from ..core import set_parents
    out = []
    for st in stmts:
        if isinstance(st, ast.For) and not st.orelse and isinstance(st.iter, (ast.List, ast.Tuple)) and st.iter.elts \
                and all(isinstance(e, (ast.Tuple, ast.List, ast.Name)) for e in st.iter.elts):
            tg = st.target.elts if isinstance(st.target, (ast.Tuple, ast.List)) else [st.target]
            ok = all(isinstance(t, ast.Name) for t in tg)
            items = []
            for e in st.iter.elts:
                vals = e.elts if isinstance(e, (ast.Tuple, ast.List)) else [e]
                if len(vals) != len(tg) or not all(isinstance(v, (ast.Name, ast.Attribute)) for v in vals):
                    ok = False
                items.append(vals)
            if ok:
                for vals in items:
                    ren = dict((t.id, v) for t, v in zip(tg, vals))

                    class _R(ast.NodeTransformer):
                        def visit_Name(self, n):
                            if n.id in ren and isinstance(n.ctx, ast.Load):
                                return ast.copy_location(_copy.deepcopy(ren[n.id]), n)
                            return n
                    for b in st.body:
                        nb = _R().visit(_copy.deepcopy(b))
                        ast.fix_missing_locations(nb)
                        set_parents(nb)
                        out.append(nb)
                continue
        if isinstance(st, ast.If):
            st = _copy.copy(st)
            st.body = _unroll_literal_loops(st.body)
            st.orelse = _unroll_literal_loops(st.orelse)
        out.append(st)
    return out


def check_carriers(chk, rule, where_, fn, texts, bare=("self", "other")):
    """R4.3 on every path of fn."""
    n = 0
    for path in e4.simple_paths(_unroll_literal_loops(docstring_free(fn.body))):
        stmts = [s for s in path if not isinstance(s, tuple) and isinstance(s, (ast.Return, ast.Assign, ast.Expr,
                                                                                 ast.AugAssign))]
        # a local bound to a carrier (or to a copy of one) carries the same Stream coefficients: it is judged like one
        texts_p, derived = tuple(texts), []
        for st in stmts:
            if isinstance(st, ast.Assign) and len(st.targets) == 1 and isinstance(st.targets[0], ast.Name) \
                    and st.targets[0].id not in bare:
                v = st.value
                if isinstance(v, ast.Call) and isinstance(v.func, ast.Attribute) and v.func.attr == "copy" and not v.args:
                    v = v.func.value
                if isinstance(v, ast.Attribute) and unparse(v) in texts_p:
                    derived.append(st.targets[0].id)
        uses = []
        for st in stmts:
            if st.value is not None:
                uses.extend(e4.find_uses(st.value, _carrier_matcher(texts_p, tuple(bare) + tuple(derived))))
        by = {}
        for u in uses:
            by.setdefault(unparse(u.node), []).append(u)
        ret = [s for s in path if isinstance(s, ast.Return)]
        label = short(ret[0]) if ret else "path without return"
        for text, us in sorted(by.items()):
            n += 1
            bare_uses = [u for u in us if not u.copied]
            tot = e4.total(bare_uses)
            many = not (tot == 1 or tot == 0)
            pos = lambda u: (u.node.lineno, u.node.col_offset)
            late_copy = bool(bare_uses) and any(u.copied and pos(u) > min(pos(b) for b in bare_uses) for u in us)
            if many:
                chk.bad(rule, where_, "%s in: %s" % (text, label),
                        "carrier used %s times without .copy(): a Stream coefficient would be iterated more than once "
                        "(each later use sees what the earlier left)" % tot.key(), node=us[0].node)
            elif late_copy:
                chk.bad(rule, where_, "%s in: %s" % (text, label),
                        ".copy() taken after the un-copied use was handed out: the tee misses items consumed through "
                        "the raw iterator", node=us[0].node)
            else:
                chk.ok(rule, where_, "%s: %d use(s), %d un-copied, copies first, in: %s"
                       % (text, len(us), len(bare_uses), label), node=us[0].node)
    return n


def check_replication(chk, where_, fn):
    """R4.4: [E] * n / (E,) * n with E mentioning self/other."""
    n = 0
    for node in ast.walk(fn):
        if isinstance(node, ast.BinOp) and isinstance(node.op, ast.Mult):
            for seq, k in ((node.left, node.right), (node.right, node.left)):
                if isinstance(seq, (ast.List, ast.Tuple)) and seq.elts:
                    mentions = any(isinstance(x, ast.Name) and x.id in ("self", "other") for e in seq.elts
                                   for x in ast.walk(e))
                    one = isinstance(k, ast.Constant) and k.value in (0, 1)
                    if mentions:
                        n += 1
                        chk.decide(one, "R4.4", where_, short(node),
                                   why="sequence repetition aliases ONE object n times: every factor re-uses the same "
                                       "Stream coefficients (copied once, consumed by all)", node=node)
    return n


def run(chk, repo):
    fmod, pmod, smod = repo.mod(LF), repo.mod(LP), repo.mod(LS)
    WF = lambda q: "%s:%s" % (fmod.relpath, q)
    WP = lambda q: "%s:%s" % (pmod.relpath, q)

    # ---------------------------------------------------------------- kernel
    chk.rule("C06.next-once", "in the generated kernel each coefficient iterator b_k / a_k occurs in exactly one "
                              "next(), executed once per loop iteration")
    chk.rule("C06.args", "kernel parameters and call arguments list numerator iterators then denominator iterators "
                         "in term order")
    chk.rule("C06.equation", "with next(b_k), next(a_k) as the n-th coefficient values the generated step satisfies "
                             "the time-varying difference equation (rational normal form)")
    chk.rule("E3", "next() on a coefficient iterator inside the generated generator frame is protected by "
                   "try/except StopIteration (output ends when a coefficient stream ends)")
    schemas = [(n, d) for n, d in K.quick_schemas()
               if any(str(v).startswith("stream") or v == "stream" for v in list(n.values()) + list(d.values()))]
    Wk, agg, n = c04.kernel_obligations(chk, repo, schemas)
    agg2 = {}
    for (rule, text), v in agg.items():
        if rule in ("C04.equation",):
            agg2[("C06.equation", text.replace("b_k", "next(b_k)").replace("a_k", "next(a_k)"))] = v
        elif rule.startswith("C06") or rule == "E3" or rule in ("C04.one-per-input",):
            agg2[(rule.replace("C04.one-per-input", "C06.one-per-input"), text)] = v
    c04.emit(chk, Wk, agg2)
    chk.facts["stream_schemas"] = n
    chk.floor("C06.kernel", n, 300, "schemas with Stream coefficients")
    # the terms are emitted once per dict key
    call = repo.find(LF, "LinearFilter.__call__")
    loops = [s for s in docstring_free(call.body) if isinstance(s, ast.For) and "dict" in unparse(s.iter)]
    srcs = sorted(unparse(l.iter) for l in loops)
    chk.decide(srcs == ["iteritems(self.dendict)", "iteritems(self.numdict)"], "C06.next-once",
               WF("LinearFilter.__call__"), "terms are emitted by one loop over numdict and one over dendict: %s" % srcs,
               why="a coefficient visited twice would be advanced twice per sample", node=call)

    # ------------------------------------------------------ variable gain arm
    chk.rule("C06.a0", "when a[0] is a Stream: inv_gain = 1/a0; numerator * inv_gain over ((denominator - a0) * "
                       "inv_gain.copy() + 1) is the same rational function; inv_gain is used twice with one copy "
                       "taken first; seq, memory and zero are forwarded")
    # a local that holds a[0] itself when the arm is reached (bound to self.denpoly[0] by a top-level statement before
    # the test, not written again in between)
    a0_names = set()
    arm = []
    top_ = docstring_free(call.body)
    for i_, s_ in enumerate(top_):
        if not (isinstance(s_, ast.If) and isinstance(s_.test, ast.Call) and unparse(s_.test.func) == "isinstance"
                and len(s_.test.args) == 2 and unparse(s_.test.args[1]) == "Stream"):
            continue
        subj = s_.test.args[0]
        if unparse(subj) == "self.denpoly[0]":
            arm.append(s_)
        elif isinstance(subj, ast.Name):
            last = None
            for p_ in top_[:i_]:
                if any(isinstance(n_, ast.Name) and n_.id == subj.id and isinstance(n_.ctx, ast.Store) for n_ in ast.walk(p_)):
                    last = p_
            if isinstance(last, ast.Assign) and len(last.targets) == 1 and isinstance(last.targets[0], ast.Name) \
                    and unparse(last.value) == "self.denpoly[0]" and not any(
                        isinstance(n_, ast.Name) and n_.id == subj.id and isinstance(n_.ctx, ast.Store) for n_ in ast.walk(s_)):
                arm.append(s_)
                a0_names.add(subj.id)
    chk.require(len(arm) == 1, "variable-gain arm 'if isinstance(self.denpoly[0], Stream)' not found (%d candidates, a0 held by %s)" % (len(arm), sorted(a0_names)))
    arm = arm[0]
    a0, rest, N = RF.sym("a0"), RF.sym("Drest"), RF.sym("N")
    polys = {}          # local name -> [c0, rest, c0 is the literal 1]
    env = {}            # scalar locals (gain streams) in normal form
    for n_ in a0_names:
        env[n_] = a0
    zfs = {}            # local name -> (num, den poly name or tuple)
    ret = None

    def ev_scalar(e, numsym=None):
        def attr_hook(ev, node):
            t = unparse(node)
            if t == "self.denpoly[0]":
                return a0
            if isinstance(node, ast.Subscript) and unparse(node.value) in polys and unparse(node.slice) == "0":
                return polys[unparse(node.value)][0]
            if t == "self.numpoly" and numsym is not None:
                return numsym
            return None

        def call_hook(ev, name, node):
            if isinstance(node.func, ast.Attribute) and node.func.attr == "copy" and not node.args:
                return ev.ev(node.func.value)
            return None
        return Evaluator(env, call_hook=call_hook, attr_hook=attr_hook).ev(e)

    def ev_poly(e):
        """[c0, rest, literal] for a polynomial-valued expression, or None"""
        t = unparse(e)
        if t == "self.denpoly":
            return [a0, rest, False]
        if isinstance(e, ast.Name) and e.id in polys:
            return polys[e.id]          # alias: same object
        if isinstance(e, ast.Call) and unparse(e.func) in ("self.denpoly.copy",) and not e.args:
            return [a0, rest, False]
        if isinstance(e, ast.Call) and isinstance(e.func, ast.Attribute) and e.func.attr == "copy" and not e.args \
                and unparse(e.func.value) in polys:
            return list(polys[unparse(e.func.value)])
        # Poly(OrderedDict((delay, F(delay, coeff)) for delay, coeff in P.terms()), zero=..)
        # (the mapping itself is accepted where a polynomial is: ZFilter / Poly build one from it)
        if (isinstance(e, ast.Call) and base_name(canon(fmod, e.func)) == "Poly" and e.args) or isinstance(e, ast.DictComp) \
                or (isinstance(e, ast.Call) and unparse(e.func) in ("OrderedDict", "dict") and len(e.args) == 1):
            inner = e.args[0] if isinstance(e, ast.Call) and base_name(canon(fmod, e.func)) == "Poly" else e
            if isinstance(inner, ast.Call) and unparse(inner.func) in ("OrderedDict", "dict") and inner.args:
                inner = inner.args[0]
            no_zero = False
            if isinstance(inner, (ast.GeneratorExp, ast.ListComp, ast.DictComp)) and len(inner.generators) == 1 \
                    and len(inner.generators[0].ifs) == 1 and isinstance(inner.generators[0].target, ast.Tuple) \
                    and len(inner.generators[0].target.elts) == 2:
                # ... for delay, coeff in P.terms() if delay != 0: the a[0] term is left out
                k_ = unparse(inner.generators[0].target.elts[0])
                no_zero = unparse(inner.generators[0].ifs[0]) in ("%s != 0" % k_, "0 != %s" % k_, k_, "%s > 0" % k_)
            if isinstance(inner, (ast.GeneratorExp, ast.ListComp, ast.DictComp)) and len(inner.generators) == 1 \
                    and (not inner.generators[0].ifs or no_zero):
                g = inner.generators[0]
                src = g.iter
                if isinstance(src, ast.Call) and isinstance(src.func, ast.Attribute) and src.func.attr == "terms":
                    base = ev_poly(src.func.value)
                elif isinstance(src, ast.Call) and unparse(src.func) == "iteritems" and unparse(src.args[0]) == "self.dendict":
                    base = [a0, rest, False]
                else:
                    base = None
                if base is not None and isinstance(g.target, ast.Tuple) and len(g.target.elts) == 2:
                    kname, vname = [unparse(x) for x in g.target.elts]
                    if isinstance(inner, ast.DictComp):
                        kexp, vexp = inner.key, inner.value
                    elif isinstance(inner.elt, ast.Tuple) and len(inner.elt.elts) == 2:
                        kexp, vexp = inner.elt.elts
                    else:
                        return None
                    if unparse(kexp) != kname:
                        raise Inconclusive("delays are re-mapped in %s" % short(e))

                    def at(zero_delay, coeff):
                        def resolve(x):
                            if isinstance(x, ast.IfExp):
                                tt = unparse(x.test)
                                if tt in ("%s == 0" % kname, "0 == %s" % kname, "not %s" % kname):
                                    return resolve(x.body if zero_delay else x.orelse)
                                if tt in ("%s != 0" % kname, "0 != %s" % kname, kname):
                                    return resolve(x.orelse if zero_delay else x.body)
                                raise Inconclusive("condition %s" % tt)
                            return x
                        x = resolve(vexp)
                        saved = env.get(vname)
                        env[vname] = coeff
                        try:
                            val = ev_scalar(x)
                        finally:
                            if saved is None:
                                env.pop(vname, None)
                            else:
                                env[vname] = saved
                        return val, (isinstance(x, ast.Constant) and x.value == 1)
                    c0v, lit = (RF.const(0), False) if no_zero else at(True, base[0])
                    restv, _ = at(False, base[1])
                    return [c0v, restv, lit]
        return None
    try:
        for st in arm.body:
            if isinstance(st, ast.Assign) and len(st.targets) == 1 and isinstance(st.targets[0], ast.Name):
                nm = st.targets[0].id
                v = st.value
                pv = ev_poly(v)
                if pv is not None:
                    polys[nm] = pv
                elif isinstance(v, ast.Call) and base_name(canon(fmod, v.func)) == "ZFilter" and len(v.args) == 2:
                    zfs[nm] = v
                else:
                    env[nm] = ev_scalar(v)
            elif isinstance(st, ast.Assign) and isinstance(st.targets[0], ast.Subscript) \
                    and unparse(st.targets[0].value) in polys and unparse(st.targets[0].slice) == "0":
                P = polys[unparse(st.targets[0].value)]
                P[0] = ev_scalar(st.value)
                P[2] = isinstance(st.value, ast.Constant) and st.value.value == 1
            elif isinstance(st, ast.AugAssign) and unparse(st.target) in polys and isinstance(st.op, ast.Mult):
                f = ev_scalar(st.value)
                P = polys[unparse(st.target)]
                # Poly defines no in-place product: the name is re-bound to a new polynomial
                polys[unparse(st.target)] = [P[0] * f, P[1] * f, False]
            elif isinstance(st, ast.Return):
                ret = st
            else:
                raise Inconclusive("statement %s" % unparse(st))
        chk.require(ret is not None, "variable-gain arm: no return")
        v = ret.value
        zf = None
        if isinstance(v, ast.Call) and isinstance(v.func, ast.Call) and base_name(canon(fmod, v.func.func)) == "ZFilter" \
                and len(v.func.args) == 2:
            zf = v.func
        elif isinstance(v, ast.Call) and isinstance(v.func, ast.Name) and v.func.id in zfs:
            zf = zfs[v.func.id]
        chk.require(zf is not None, "variable-gain arm: return is not ZFilter(num, den)(...)")
        num = ev_scalar(zf.args[0], numsym=N)
        dp = ev_poly(zf.args[1])
        chk.require(dp is not None, "variable-gain arm: denominator %s not interpretable" % unparse(zf.args[1]))
        got = num / (dp[0] + dp[1])
        want = N / (a0 + rest)
        chk.decide(got == want, "C06.a0", WF("LinearFilter.__call__"),
                   "variable a0: " + short(ret), why="normalised filter %s differs from N/(a0 + Drest)" % got.key(),
                   detail="= N/(a0 + Drest)", node=ret)
        chk.decide(dp[0] == 1 and dp[2], "C06.a0", WF("LinearFilter.__call__"), "new a[0] is the constant 1",
                   why="the recursive call would take this arm again or divide by a wrong gain", node=arm)
        fw = [unparse(a) for a in v.args] + ["%s=%s" % (k.arg, unparse(k.value)) for k in v.keywords]
        chk.decide(fw == ["seq", "memory=memory", "zero=zero"], "C06.a0", WF("LinearFilter.__call__"),
                   "forwards %s" % fw, why="input, memory and zero must reach the normalised filter", node=ret)
    except Inconclusive as ex:
        raise AnalysisError("variable-gain arm of LinearFilter.__call__ not interpretable: %s" % ex)
    # gain streams: linear use
    gains = [k for k in env]
    for g in gains:
        uses = []
        many = []
        for st in arm.body:
            val = getattr(st, "value", None)
            if val is not None:
                found = e4.find_uses(val, lambda n, g=g: isinstance(n, ast.Name) and n.id == g and isinstance(n.ctx, ast.Load))
                uses.extend(found)
                # a use inside the element of a comprehension happens once per term
                for comp in [c for c in ast.walk(val) if isinstance(c, (ast.GeneratorExp, ast.ListComp, ast.SetComp, ast.DictComp))]:
                    parts = [getattr(comp, f_) for f_ in ("elt", "key", "value") if hasattr(comp, f_)]
                    # built on the spot (a list / dict display, or a generator handed straight to a constructor): a
                    # .copy() per term is a tee per term, taken where the statement stands
                    par_ = getattr(comp, "_parent", None)
                    eager = not isinstance(comp, ast.GeneratorExp) or (
                        isinstance(par_, ast.Call) and comp in par_.args and unparse(par_.func) in (
                            "OrderedDict", "dict", "list", "tuple", "Poly", "sorted"))
                    for part in parts:
                        for n in ast.walk(part):
                            if isinstance(n, ast.Name) and n.id == g and isinstance(n.ctx, ast.Load):
                                p1 = getattr(n, "_parent", None)
                                copied_ = isinstance(p1, ast.Attribute) and p1.attr == "copy" and isinstance(
                                    getattr(p1, "_parent", None), ast.Call) and p1._parent.func is p1
                                if not (copied_ and eager):
                                    many.append(n)
        bare = [u for u in uses if not u.copied]
        pos = lambda u: (u.node.lineno, u.node.col_offset)
        ok = len(bare) <= 1 and all(pos(u) < pos(bare[0]) for u in uses if u.copied) if bare else True
        ok = ok and not many
        chk.decide(ok, "C06.a0", WF("LinearFilter.__call__"),
                   "gain stream %s: %d use(s), %d un-copied, %d inside a per-term expression, copies first" % (
                       g, len(uses), len(bare), len(many)),
                   why="the gain Stream is iterated by the numerator and by every denominator coefficient it scales: "
                       "each of these needs its own copy (one Stream object used in several terms is advanced several "
                       "times per sample)", node=arm)

    # the builders of time-varying filters (resonators, low/high-pass designs with Stream parameters): the same
    # linear-use obligations as C13's R4.1 / R4.2 - a Stream expression bound once and used in three coefficients is
    # read three times per output sample
    from .c13 import design_hub_budgets
    design_hub_budgets(chk, repo)

    # -------------------------------------------------- R4.3 / R4.4 carriers
    chk.rule("R4.3", "in an arithmetic dunder, on every path, each carrier (self/other .numpoly/.denpoly, self, "
                     "other) has at most one use that is not the receiver of .copy(), and every .copy() use comes "
                     "before it in evaluation order")
    chk.rule("R4.4", "no [E] * n / (E,) * n with E built from self/other in an arithmetic dunder")
    nc = 0
    ndunders = 0
    for name in ("__add__", "__sub__", "__mul__", "__truediv__", "__pow__"):
        fn = repo.find(LF, "ZFilter." + name)
        bare = ("self",) if name == "__pow__" else ("self", "other")   # the exponent is a number
        nc += check_carriers(chk, "R4.3", WF("ZFilter." + name), fn, CARRIERS, bare)
        check_replication(chk, WF("ZFilter." + name), fn)
        ndunders += 1
    for tq in ("ZFilterMeta.__rbinary__", "ZFilterMeta.__unary__"):
        t = repo.find(LF, tq)
        inner = [f for f in t.body if isinstance(f, FuncTypes)]
        chk.require(inner, "%s: inner dunder not found" % tq)
        nc += check_carriers(chk, "R4.3", WF(tq), inner[0], CARRIERS)
        ndunders += 1
    for name in ("__add__", "__sub__", "__pow__"):
        fn = repo.find(LP, "Poly." + name)
        texts = ("self._data[key]", "other._data[key]")
        bare = ("self",) if name == "__pow__" else ("self", "other")
        nc += check_carriers(chk, "R4.3", WP("Poly." + name), fn, texts, bare)
        check_replication(chk, WP("Poly." + name), fn)
        ndunders += 1
    chk.floor("R4.3", ndunders, 10, "arithmetic dunders scanned")
    chk.floor("R4.3", nc, 20, "carrier/path obligations")
    # Poly.__pow__ general arm: product of len-1 copies and self, copies first
    pw = repo.find(LP, "Poly.__pow__")
    # the arm that multiplies copies: the return built on reduce(..) wherever it stands (else the last return)
    prets = [n for n in own_nodes(pw) if isinstance(n, ast.Return)]
    reds = [n for n in prets if isinstance(n.value, ast.Call) and canon_call(pmod, n.value) == "functools.reduce"]
    last = reds[-1] if len(reds) == 1 else max(prets, key=lambda n: n.lineno)
    good = False
    v = last.value
    if isinstance(v, ast.Name):
        from .c05 import _fold_value
        v = _fold_value(pw, v.id) or v
    if isinstance(v, ast.Call) and canon_call(pmod, v) == "functools.reduce" and canon(pmod, v.args[0]) == "operator.mul":
        seq = v.args[1]
        if isinstance(seq, ast.BinOp) and isinstance(seq.op, ast.Add):
            l, r = seq.left, seq.right
            if isinstance(l, ast.ListComp) and unparse(l.elt) == "self.copy()" and unparse(r) == "[self]":
                cnt = e4.size_of(l.generators[0].iter)
                good = cnt is not None and cnt == RF.sym("other") - 1
    chk.decide(good, "R4.3", WP("Poly.__pow__"), "general arm: " + short(last),
               why="p ** n must multiply n - 1 independent copies and p itself (copies taken first)", node=last)

    # ------------------------------------------------------------ R4.1 hubs
    chk.rule("R4.1", "thub budgets of Poly.__mul__, __truediv__, __call__: uses of each hub, with loop / "
                     "comprehension / reduce multiplicities as polynomials over symbolic sizes, never exceed the "
                     "budget (more = IndexError at run time); fewer is a note (MemoryLeakWarning)")
    chk.facts["size_facts"] = e4.SIZE_FACTS
    ln = repo.find(LP, "Poly.__len__")
    chk.decide(unparse(docstring_free(ln.body)[-1]) == "return len(self._data)", "R4.1", WP("Poly.__len__"),
               "len(p) is len(p._data)", why="size fact used by the budgets no longer holds", node=ln)
    nh = 0
    # __mul__: hub lists
    mul = repo.find(LP, "Poly.__mul__")
    hub_lists = {}
    for st in docstring_free(mul.body):
        if isinstance(st, ast.Assign) and isinstance(st.value, ast.ListComp) and isinstance(st.value.elt, ast.Tuple):
            for i, e in enumerate(st.value.elt.elts):
                if e4.is_thub_call(e):
                    hub_lists[unparse(st.targets[0])] = (i, e4.budget_of(e.args[1]),
                                                         e4.size_of(st.value.generators[0].iter), st, e)
    chk.require(len(hub_lists) == 2, "Poly.__mul__: the two thub-list comprehensions not found")

    def loops_over(node, outer):
        for ch in ast.iter_child_nodes(node):
            if isinstance(ch, ast.For):
                yield ch, outer
                for x in loops_over(ch, outer + [ch]):
                    yield x
            elif not isinstance(ch, FuncTypes + (ast.Lambda,)):
                for x in loops_over(ch, outer):
                    yield x
    sizes = {k: v[2] for k, v in hub_lists.items()}
    for loop, outer in loops_over(mul, []):
        it = unparse(loop.iter)
        if it in hub_lists:
            idx, budget, size, st, hubcall = hub_lists[it]
            var = loop.target.elts[idx].id
            uses = e4.find_uses(list(loop.body), lambda n, var=var: isinstance(n, ast.Name) and n.id == var
                                and isinstance(n.ctx, ast.Load), sizes)
            tot = e4.total(uses)
            for o in outer:
                s = e4.size_of(o.iter, sizes)
                tot = tot * s
            nh += 1
            _budget(chk, WP("Poly.__mul__"), "%s = %s, iterated as %s" % (it, short(hubcall), var), tot, budget, hubcall)
    # __truediv__, __call__: named hubs on paths
    for q in ("Poly.__truediv__", "Poly.__call__"):
        fn = repo.find(LP, q)
        seen = set()
        for recs in e4.analyse_hubs(fn):
            for r in recs:
                if r.kind != "hub":
                    continue
                key = (r.name, r.node.lineno, r.uses.key())
                if key in seen:
                    continue
                seen.add(key)
                nh += 1
                _budget(chk, WP(q), "%s on path with uses %s" % (short(r.node), r.uses.key()), r.uses, r.budget, r.node)
    chk.floor("R4.1", nh, 4, "hub budgets in Poly")

    # ------------------------------------------------------------- copies
    chk.rule("C06.copy", "Poly.copy copies every Stream coefficient; LinearFilter.copy copies both polynomials")
    pc = repo.find(LP, "Poly.copy")
    txt = unparse(pc)
    chk.decide("v.copy() if isinstance(v, Stream) else v" in txt and "iteritems(self._data)" in txt, "C06.copy",
               WP("Poly.copy"), short(docstring_free(pc.body)[-1]),
               why="a copy sharing Stream coefficients with the original is consumed together with it", node=pc)
    fc = repo.find(LF, "LinearFilter.copy")
    chk.decide("self.numpoly.copy()" in unparse(fc) and "self.denpoly.copy()" in unparse(fc), "C06.copy",
               WF("LinearFilter.copy"), short(docstring_free(fc.body)[-1]),
               why="filter copy must copy both polynomials", node=fc)

    # -------------------------------------------------------- avoid_stream
    chk.rule("C06.avoid", "LinearFilter, ZFilter, CascadeFilter, ParallelFilter are decorated @avoid_stream; "
                          "avoid_stream registers the class; the Stream binary templates return NotImplemented for "
                          "registered classes before doing anything else")
    for cname in ("LinearFilter", "ZFilter", "CascadeFilter", "ParallelFilter"):
        cls = repo.find(LF, cname)
        chk.decide(any(unparse(d) == "avoid_stream" for d in cls.decorator_list), "C06.avoid", WF(cname),
                   "@avoid_stream on %s" % cname,
                   why="Stream op filter would map the operator over the samples instead of building a filter",
                   node=cls)
    av = repo.find(LS, "avoid_stream")
    chk.decide("Stream.register_ignored_class(cls)" in unparse(av) and unparse(docstring_free(av.body)[-1]) == "return cls",
               "C06.avoid", "%s:avoid_stream" % smod.relpath, "registers and returns the class",
               why="decorator must register the class as ignored and return it", node=av)
    for tq in ("StreamMeta.__binary__", "StreamMeta.__rbinary__"):
        t = repo.find(LS, tq)
        inner = [f for f in t.body if isinstance(f, FuncTypes)][0]
        first = docstring_free(inner.body)[0]
        good = isinstance(first, ast.If) and unparse(first.test) == "isinstance(other, cls.__ignored_classes__)" \
            and unparse(first.body[0]) == "return NotImplemented"
        chk.decide(good, "C06.avoid", "%s:%s" % (smod.relpath, tq), short(first),
                   why="ignored classes must get NotImplemented so that their own reflected operator runs", node=first)


def _ev_gain(e, env, state, denname, numsym=None):
    def attr_hook(ev, node):
        t = unparse(node)
        if t == "%s[0]" % denname:
            return state["c0"]
        if t == "self.numpoly" and numsym is not None:
            return numsym
        return None

    def call_hook(ev, name, node):
        if isinstance(node.func, ast.Attribute) and node.func.attr == "copy" and not node.args:
            return ev.ev(node.func.value)
        return None
    return Evaluator(env, call_hook=call_hook, attr_hook=attr_hook).ev(e)


def _budget(chk, where_, text, uses, budget, node):
    if budget is None:
        raise AnalysisError("%s: thub budget not interpretable in %s" % (where_, text))
    diff = budget - uses
    nn = e4.nonneg(diff)
    if diff.is_zero():
        chk.ok("R4.1", where_, "%s: uses %s == budget %s" % (text, uses.key(), budget.key()), node=node)
    elif nn:
        chk.ok("R4.1", where_, "%s: uses %s <= budget %s" % (text, uses.key(), budget.key()), node=node)
        chk.note("R4.1", where_, "%s: hub under-used (uses %s < budget %s): tee buffer leak / MemoryLeakWarning, no "
                 "property broken" % (text, uses.key(), budget.key()))
    else:
        chk.bad("R4.1", where_, text, "uses %s can exceed the budget %s: the hub raises IndexError ('no more copies') "
                "as soon as the coefficient is a Stream" % (uses.key(), budget.key()), node=node)
