"""C20  Sample-wise analysis tools equal their defining formulas."""
import ast

from ..core import (AnalysisError, FuncTypes, unparse, short, canon, canon_call, base_name, own_nodes,
                    docstring_free)
from ..ratfun import RF, Evaluator, Inconclusive, opaque, sym_pow
from ..e3 import E3, describe
from .. import e2
from ..cond import norm_cmp, same_cond, parse_cond, cond_key, relation
from .c02 import _resolve

EXPLANATION = (
    "Static analysis of lazy_analysis.py and lazy_itertools.py. clip: on each of its four None-arms every leaf of "
    "the conditional expression is bounded by the limits that are not None (guard-implies-bound over the comparison "
    "atoms; constants only replace samples lying on or beyond them; 'high < low' is rejected first) - complete for "
    "'bounds every sample' and idempotence. One output per input on every path (pull/yield typestate) for zcross, "
    "unwrap, maverage.deque, accumulate.func, and no StopIteration escape (PEP 479), so the empty input gives the empty "
    "output. zcross: both decision conditions in linear normal form (first sign = sign of the first sample strictly "
    "outside [-h, h], crossing iff el*last_sign < -h, sign then flips, 0 emitted before the first sign is known). "
    "unwrap: correction only under abs(d1-d0) > max_delta (strict), increment = -D + (D mod +-step) (a multiple of "
    "step), previous *input* kept as reference. maverage.deque: inductive step mean' = mean - popped + new with "
    "new = el/size appended, deque of size copies of zero/size, maxlen size; maverage.recursive and .fir as rational "
    "functions, equal for sizes 1..16 (bounded); accumulate.z = 1/(1 - z^-1); accumulate.func running sum; "
    "envelope.rms/abs/squared and amdf compositions. Not decided: numeric equivalence of the strategies on signals.")

UNDECIDED = ["strategy equivalences on concrete signals", "floating-point behaviour of unwrap's modulo"]

LA, LI = "lazy_analysis", "lazy_itertools"


def ifexp_leaves(e, conds=()):
    if isinstance(e, ast.IfExp):
        return ifexp_leaves(e.body, conds + ((e.test, True),)) + ifexp_leaves(e.orelse, conds + ((e.test, False),))
    return [(list(conds), e)]


def atoms(conds):
    """flatten and/or-free conjunctions: returns list of (compare node, polarity) or None if a disjunction appears"""
    out = []
    for c, pol in conds:
        if isinstance(c, ast.BoolOp):
            if isinstance(c.op, ast.And) and pol:
                sub = atoms([(v, True) for v in c.values])
            elif isinstance(c.op, ast.Or) and not pol:
                sub = atoms([(v, False) for v in c.values])
            else:
                return None
            if sub is None:
                return None
            out.extend(sub)
        else:
            out.append((c, pol))
    return out


def _run_concrete(stmts, env):
    """Execute straight-line code with loops over range(<concrete>) on rational-function values; returns the value
    returned.  sum(<generator over range>) is unfolded."""
    env = dict(env)

    def call_hook(ev, name, node):
        if name == "sum" and len(node.args) == 1 and isinstance(node.args[0], (ast.GeneratorExp, ast.ListComp)) \
                and len(node.args[0].generators) == 1 and not node.args[0].generators[0].ifs:
            g = node.args[0].generators[0]
            if isinstance(g.iter, ast.Call) and unparse(g.iter.func) in ("xrange", "range") and isinstance(g.target, ast.Name):
                bounds = [ev.ev(a).as_int() for a in g.iter.args]
                tot = RF.const(0)
                for i in range(*bounds):
                    saved = ev.env
                    ev.env = dict(ev.env)
                    ev.env[g.target.id] = RF.const(i)
                    try:
                        tot = tot + ev.ev(node.args[0].elt)
                    finally:
                        ev.env = saved
                return tot
        return None

    def run(block):
        for st in block:
            if isinstance(st, ast.Assign) and len(st.targets) == 1 and isinstance(st.targets[0], ast.Name):
                env[st.targets[0].id] = Evaluator(env, call_hook=call_hook).ev(st.value)
            elif isinstance(st, ast.AugAssign) and isinstance(st.target, ast.Name):
                v = Evaluator(env, call_hook=call_hook).ev(st.value)
                cur = env[st.target.id]
                env[st.target.id] = {ast.Add: cur + v, ast.Sub: cur - v, ast.Mult: cur * v}.get(type(st.op))
                if env[st.target.id] is None:
                    raise Inconclusive("augmented %s" % unparse(st))
            elif isinstance(st, ast.For) and isinstance(st.target, ast.Name) and isinstance(st.iter, ast.Call) \
                    and unparse(st.iter.func) in ("xrange", "range") and not st.orelse:
                bounds = [Evaluator(env).ev(a).as_int() for a in st.iter.args]
                for i in range(*bounds):
                    env[st.target.id] = RF.const(i)
                    r = run(st.body)
                    if r is not None:
                        return r
            elif isinstance(st, ast.Return):
                return Evaluator(env, call_hook=call_hook).ev(st.value)
            elif isinstance(st, ast.Expr) and isinstance(st.value, ast.Constant):
                continue
            else:
                raise Inconclusive("statement %s" % unparse(st)[:60])
        return None
    r = run(stmts)
    if r is None:
        raise Inconclusive("no value returned")
    return r


def _zcross_sign_domain(chk, zc, where):
    """the remembered sign is only ever -1, 0 or 1 where a sample is multiplied by it (flow of abstract values
    'zero' / 'unit' / 'raw' through every form of the function: two loops, one merged loop, copies of first_sign)"""
    chk.rule("C20.sign", "zcross: where a sample is multiplied by the remembered sign (el * last_sign < -h) that sign is -1 or "
                         "1 (0 before it is known) on every path - a first_sign of any magnitude only contributes its sign, "
                         "otherwise the hysteresis band is scaled by |first_sign|")
    params = {a.arg for a in zc.args.args}
    loopvars = {n.target.id for n in ast.walk(zc) if isinstance(n, ast.For) and isinstance(n.target, ast.Name)}
    signs = set()
    for n in ast.walk(zc):
        if isinstance(n, ast.BinOp) and isinstance(n.op, ast.Mult):
            for a, b in ((n.left, n.right), (n.right, n.left)):
                if isinstance(a, ast.Name) and a.id in loopvars and isinstance(b, ast.Name) and b.id not in loopvars \
                        and b.id not in params:
                    signs.add(b.id)
    if len(signs) != 1:
        return
    sv = signs.pop()

    def dom(e, state):
        if isinstance(e, ast.Constant) and isinstance(e.value, (int, float)) and not isinstance(e.value, bool):
            return {"zero"} if e.value == 0 else {"unit"} if abs(e.value) == 1 else {"raw"}
        if isinstance(e, ast.UnaryOp) and isinstance(e.op, (ast.USub, ast.UAdd)):
            return dom(e.operand, state)
        if isinstance(e, ast.IfExp):
            a, b = dom(e.body, state), dom(e.orelse, state)
            return None if a is None or b is None else a | b
        if isinstance(e, ast.Name) and e.id == sv:
            return set(state)
        if isinstance(e, ast.Name) and e.id in params:
            return {"raw", "zero"}          # any signed number
        return None                         # a spelling this rule does not read (copysign, arithmetic ...)

    def refine(test, state, taken):
        if isinstance(test, ast.UnaryOp) and isinstance(test.op, ast.Not):
            return refine(test.operand, state, not taken)
        if isinstance(test, ast.BoolOp):
            conj = isinstance(test.op, ast.And)
            if conj == taken:
                for v in test.values:
                    state = refine(v, state, taken)
            return state
        if isinstance(test, ast.Name) and test.id == sv:
            return (state - {"zero"}) if taken else ({"zero"} if state & {"zero", "raw"} else set())
        if isinstance(test, ast.Compare) and len(test.ops) == 1 and isinstance(test.ops[0], (ast.Eq, ast.NotEq, ast.Is, ast.IsNot)):
            l, r = test.left, test.comparators[0]
            if isinstance(r, ast.Name) and r.id == sv:
                l, r = r, l
            if isinstance(l, ast.Name) and l.id == sv and isinstance(r, ast.Constant) and r.value == 0 \
                    and not isinstance(r.value, bool):
                eq = isinstance(test.ops[0], (ast.Eq, ast.Is)) == taken
                return ({"zero"} if state & {"zero", "raw"} else set()) if eq else (state - {"zero"})
        return state

    uses, unknown = [], []

    def expr_uses(e, state):
        for n in ast.walk(e):
            if isinstance(n, ast.BinOp) and isinstance(n.op, ast.Mult) and any(
                    isinstance(x, ast.Name) and x.id == sv for x in (n.left, n.right)) and any(
                    isinstance(x, ast.Name) and x.id in loopvars for x in (n.left, n.right)):
                uses.append((n, set(state)))

    def flow(stmts, state):
        for st in stmts:
            if state is None:
                return None
            if isinstance(st, ast.Assign) and len(st.targets) == 1 and isinstance(st.targets[0], ast.Name) and st.targets[0].id == sv:
                expr_uses(st.value, state)
                d = dom(st.value, state)
                if d is None:
                    unknown.append(st)
                    d = {"unit", "zero"}
                state = d
            elif isinstance(st, ast.If):
                tstate = refine(st.test, state, True)
                # the tests of an if / elif chain see the state the earlier tests left
                expr_uses(st.test, state)
                a = flow(st.body, tstate)
                b = flow(st.orelse, refine(st.test, state, False))
                state = b if a is None else a if b is None else a | b
            elif isinstance(st, (ast.For, ast.While)):
                s0 = set(state)
                for _ in range(3):
                    a = flow(st.body, set(s0))
                    s1 = s0 | (a or set())
                    if s1 == s0:
                        break
                    s0 = s1
                state = flow(st.orelse, set(s0)) if st.orelse else s0
                if state is None:
                    state = s0
            elif isinstance(st, (ast.Return, ast.Raise)):
                return None
            elif isinstance(st, (ast.With, ast.Try)):
                state = flow(st.body, state)
            elif isinstance(st, ast.Expr):
                expr_uses(st.value, state)
            elif any(isinstance(n, ast.Name) and n.id == sv and isinstance(n.ctx, ast.Store) for n in ast.walk(st)):
                unknown.append(st)
        return state
    flow(docstring_free(zc.body), set())
    seen = {}
    for n, state in uses:
        key = (n.lineno, n.col_offset)
        seen[key] = (n, seen.get(key, (n, set()))[1] | state)
    for n, state in seen.values():
        chk.decide("raw" not in state, "C20.sign", where, "%s with %s in %s" % (unparse(n), sv, sorted(state)),
                   why="the sign variable can still hold the caller's first_sign as given (any magnitude): the sample is "
                       "scaled by |first_sign| in the comparison with the hysteresis threshold until the first crossing",
                   node=n)
    if unknown and not any("raw" in s_ for _, s_ in seen.values()):
        chk.note("C20.sign", where, "sign bound by %s: taken as a sign (-1/0/1)" % "; ".join(short(u) for u in unknown))


def run(chk, repo):
    amod, imod = repo.mod(LA), repo.mod(LI)
    WA = lambda q: "%s:%s" % (amod.relpath, q)
    WI = lambda q: "%s:%s" % (imod.relpath, q)

    # -------------------------------------------------------------------- clip
    chk.rule("C20.clip", "every leaf of clip's conditional expressions is <= high and >= low for the limits that are "
                         "not None: a leaf returning the sample needs guards implying the bound, a leaf returning a "
                         "limit needs guards implying the sample is on or beyond it; high < low raises first")
    clip = repo.find(LA, "clip")
    par = [a.arg for a in clip.args.args]
    chk.require(par[:3] == ["sig", "low", "high"], "clip signature changed")
    body = docstring_free(clip.body)
    arms = []       # (low_none, high_none, return node)

    def walk(stmts, lown, highn):
        for st in stmts:
            if isinstance(st, ast.If):
                t = unparse(st.test)
                if t == "low is None":
                    walk(st.body, True, highn)
                    lown = False if not st.orelse else lown
                    if st.orelse:
                        walk(st.orelse, False, highn)
                        return
                elif t == "high is None":
                    walk(st.body, lown, True)
                    highn = False
                    if st.orelse:
                        walk(st.orelse, lown, False)
                        return
                elif norm_cmp(st.test) is not None and isinstance(st.body[0], ast.Raise):
                    arms.append(("guard", st, lown, highn))
                else:
                    raise AnalysisError("clip: unexpected test '%s'" % t)
            elif isinstance(st, ast.Return):
                arms.append(("ret", st, lown, highn))
                return
            else:
                raise AnalysisError("clip: unexpected statement '%s'" % short(st))
    # the arm taken for each combination of given / missing limits: the None tests are evaluated, whatever their wording
    from ..dtable import Facts, walk as _dwalk
    try:
        arms2 = []
        guards_done = set()
        for lown_ in (True, False):
            for highn_ in (True, False):
                F_ = Facts(none=(["low"] if lown_ else []) + (["high"] if highn_ else []),
                           kinds=dict(([("low", {"float"})] if not lown_ else []) + ([("high", {"float"})] if not highn_ else [])))
                w_ = _dwalk(body, F_, "clip", strict=False)
                for st_ in w_.ran:
                    if isinstance(st_, ast.If) and norm_cmp(st_.test) is not None and st_.body and isinstance(st_.body[0], ast.Raise):
                        if unparse(st_) not in guards_done:
                            guards_done.add(unparse(st_))
                            arms2.append(("guard", st_, lown_, highn_))
                        chk.decide(not lown_ and not highn_, "C20.clip", WA("clip"),
                                   "limits compared only when both are given (low %s, high %s)" % ("None" if lown_ else "given", "None" if highn_ else "given"),
                                   why="comparing a missing limit raises TypeError", node=st_)
                    elif isinstance(st_, ast.Return):
                        arms2.append(("ret", st_, lown_, highn_))
                    elif isinstance(st_, ast.If):
                        raise AnalysisError("clip: unexpected test '%s'" % unparse(st_.test))
                    else:
                        raise AnalysisError("clip: unexpected statement '%s'" % short(st_))
                chk.decide(w_.end == "return", "C20.clip", WA("clip"), "low %s, high %s -> %s" % (
                    "None" if lown_ else "given", "None" if highn_ else "given", w_.end), why="every combination of limits "
                    "returns a clipped Stream", node=clip)
        # guards first (the two-sided arm relies on them), then the arms in the order of the confirmed reading
        arms = [a for a in arms2 if a[0] == "guard"] + [a for a in arms2 if a[0] == "ret"]
    except AnalysisError:
        arms = []
        walk(body, None, None)
    rets = [a for a in arms if a[0] == "ret"]
    chk.require(len(rets) == 4, "clip: expected four return arms, found %d" % len(rets))
    guard_seen = False
    n_leaves = 0
    for kind, st, lown, highn in arms:
        if kind == "guard":
            c = norm_cmp(st.test)
            guard_seen = same_cond(c, parse_cond("high < low")) and "ValueError" in unparse(st.body[0])
            chk.decide(guard_seen, "C20.clip", WA("clip"), short(st),
                       why="inverted limits must be rejected before clipping (the two-sided arm relies on low <= high)",
                       node=st)
            continue
        lown, highn = bool(lown), bool(highn)
        v = st.value
        ok_stream = isinstance(v, ast.Call) and base_name(canon(amod, v.func)) == "Stream" and len(v.args) == 1
        chk.require(ok_stream, "clip: return is not Stream(...)")
        inner = v.args[0]
        label = "low %s, high %s" % ("None" if lown else "given", "None" if highn else "given")
        if lown and highn:
            chk.decide(unparse(inner) == "sig", "C20.clip", WA("clip"), "[%s] %s" % (label, short(st)),
                       why="without limits the signal must pass unchanged", node=st)
            continue
        chk.require(isinstance(inner, ast.GeneratorExp) and unparse(inner.generators[0].iter) == "sig"
                    and not inner.generators[0].ifs, "clip: arm is not a generator expression over sig")
        el = unparse(inner.generators[0].target)
        if not lown and not highn:
            chk.decide(guard_seen, "C20.clip", WA("clip"), "[%s] the high < low guard precedes this arm" % label,
                       why="two-sided clipping needs low <= high", node=st)
        for conds, val in ifexp_leaves(inner.elt):
            n_leaves += 1
            at = atoms(conds)
            if at is None:
                raise AnalysisError("clip: disjunctive guard in '%s'" % unparse(inner.elt))
            vt = unparse(val)
            ctxt = " and ".join(("" if p else "not ") + unparse(c) for c, p in conds) or "always"
            rel_hi = [relation(c, p, el, "high") for c, p in at]
            rel_lo = [relation(c, p, el, "low") for c, p in at]
            el_le_hi = any(r in ("<", "<=", "==") for r in rel_hi)
            el_ge_hi = any(r in (">", ">=", "==") for r in rel_hi)
            el_ge_lo = any(r in (">", ">=", "==") for r in rel_lo)
            el_le_lo = any(r in ("<", "<=", "==") for r in rel_lo)
            ordered = guard_seen or lown or highn        # low <= high known (guard) or irrelevant

            def args_of(e, fn):
                return list(e.args) if isinstance(e, ast.Call) and unparse(e.func) == fn and not e.keywords else None

            def upper(e):       # e <= high
                t = unparse(e)
                if t == "high":
                    return True
                if t == el:
                    return el_le_hi
                if t == "low":
                    return ordered and not lown
                a = args_of(e, "min")
                if a:
                    return any(upper(x) for x in a)
                a = args_of(e, "max")
                if a:
                    return all(upper(x) for x in a)
                return False

            def lower(e):       # e >= low
                t = unparse(e)
                if t == "low":
                    return True
                if t == el:
                    return el_ge_lo
                if t == "high":
                    return ordered and not highn
                a = args_of(e, "max")
                if a:
                    return any(lower(x) for x in a)
                a = args_of(e, "min")
                if a:
                    return all(lower(x) for x in a)
                return False

            def keeps(e):       # e == el whenever el already lies within the (given) limits
                t = unparse(e)
                if t == el:
                    return True
                if t == "high":
                    return el_ge_hi and not highn
                if t == "low":
                    return el_le_lo and not lown
                a = args_of(e, "min")
                if a and len(a) == 2:
                    others = [x for x in a if unparse(x) != "high"]
                    return len(others) == 1 and keeps(others[0]) and not highn
                a = args_of(e, "max")
                if a and len(a) == 2:
                    others = [x for x in a if unparse(x) != "low"]
                    return len(others) == 1 and keeps(others[0]) and not lown
                return False
            problems = []
            names_used = {n.id for n in ast.walk(val) if isinstance(n, ast.Name)} - {"min", "max"}
            if not names_used <= {el, "low", "high"}:
                problems.append("leaf value '%s' is not built from the sample and the limits" % vt)
            if highn and "high" in names_used:
                problems.append("uses high although high is None")
            if lown and "low" in names_used:
                problems.append("uses low although low is None")
            if not highn and not upper(val):
                problems.append("value not known to be <= high under [%s]" % ctxt)
            if not lown and not lower(val):
                problems.append("value not known to be >= low under [%s]" % ctxt)
            if not keeps(val):
                problems.append("a sample already inside the limits would be changed (clip must be idempotent)")
            chk.decide(not problems, "C20.clip", WA("clip"), "[%s] leaf %s when %s" % (label, vt, ctxt),
                       why="; ".join(problems), node=st)
    chk.floor("C20.clip", n_leaves, 3, "value leaves of clip (at least one per limited arm)")

    # ------------------------------------------------------ one output per input
    chk.rule("R2.2", "one output per input on every path (pull/yield typestate)")
    chk.rule("E3", "no unprotected StopIteration raiser in a generator frame")
    e3 = E3([(m.name, m.tree) for m in repo.modules.values()])
    stages = [(LA, "zcross", ["seq"]), (LA, "unwrap", ["sig"]), (LA, "maverage[deque].maverage_filter", ["sig"]),
              (LI, "accumulate[func]", ["iterable"])]
    for mname, anchor, sources in stages:
        mod = repo.mod(mname)
        fn = _resolve(repo, mname, anchor)
        W = "%s:%s" % (mod.relpath, anchor)
        alt = e2.Alternation(fn, sources, False, False, "sample")
        viol = alt.check()
        chk.require(alt.n_pull_sites > 0, "%s: no pull site recognised" % W)
        if viol:
            for what, node in viol:
                chk.bad("R2.2", W, short(node), what, node=node)
        else:
            chk.ok("R2.2", W, "%d pull site(s), %d yield site(s): one output per input" % (alt.n_pull_sites, alt.n_yield_sites),
                   node=fn)
        sites = [s for s in e3.scan(fn) if s.in_generator]
        for s in sites:
            chk.decide(not s.escapes, "E3", W, describe(s),
                       why="an exhausted (e.g. empty) input raises RuntimeError instead of ending the output (PEP 479)",
                       node=s.node)
        if not sites:
            chk.ok("E3", W, "no StopIteration raiser in the generator frame", node=fn)

    # ------------------------------------------------------------------ zcross
    chk.rule("C20.zcross", "zcross decision conditions in linear normal form: outside-band test (el > h) or (el < -h); "
                           "first sign -1 iff el < 0; crossing iff el * last_sign < -h (strict); on a crossing the sign "
                           "becomes that of the sample and 1 is emitted, else 0; 0 for every sample before the sign is "
                           "known; first_sign != 0 fixes the sign by first_sign < 0")
    zc = repo.find(LA, "zcross")
    env = {}
    for st in docstring_free(zc.body):
        if isinstance(st, ast.Assign) and isinstance(st.targets[0], ast.Name) and not isinstance(st.value, ast.Call):
            try:
                env[st.targets[0].id] = Evaluator(env).ev(st.value)
            except Inconclusive:
                pass
    _zcross_sign_domain(chk, zc, WA("zcross"))
    fs = [s for s in docstring_free(zc.body) if isinstance(s, ast.If)]
    # what last_sign holds before the test (a plain copy of first_sign, a sign expression, ...)
    pre = None
    for st in docstring_free(zc.body):
        if fs and st is fs[0]:
            break
        if isinstance(st, ast.Assign) and unparse(st.targets[0]) == "last_sign":
            pre = st
    test0 = fs[0].test if fs else None
    if test0 is not None and pre is not None and unparse(pre.value) == "first_sign":
        # the test is on the copy
        class _R(ast.NodeTransformer):
            def visit_Name(self, n):
                return ast.Name(id="first_sign", ctx=ast.Load()) if n.id == "last_sign" else n
        test0 = _R().visit(ast.parse(unparse(test0), mode="eval").body)
    chk.require(len(fs) == 1, "zcross: the block choosing the first sign not found")
    # which arm searches the data for the first sign: the guard is evaluated for representative (first_sign,
    # hysteresis) pairs - the search happens exactly when first_sign is 0, whatever the hysteresis
    from ..dtable import Facts, holds as _holds, RAISE as _RAISE
    # (the arm that reads samples: a loop that yields; that it stops at the first sample outside the band is checked below)
    has_search = lambda stmts: any(isinstance(n, ast.For) and any(isinstance(b_, (ast.Yield, ast.YieldFrom)) for b_ in ast.walk(n))
                                   for st_ in stmts for n in ast.walk(st_))
    search_in_body = has_search(fs[0].body)
    chk.require(search_in_body != has_search(fs[0].orelse), "zcross: the search for the first sign is not in exactly one arm")
    bad_pairs = []
    for fsv, hv in ((0, 0), (0, 1), (0.0, 0.5), (1, 0), (-1, 0), (0.5, 1), (-0.5, 1), (2, 1), (-3, 1), (1, 1)):
        F_ = Facts(values={"first_sign": fsv, "hysteresis": hv, "neg_hyst": -hv, "-hysteresis": -hv})
        t_ = test0
        r_ = None
        if isinstance(t_, ast.Compare) and len(t_.ops) == 2:
            # a <= x <= b
            parts = [ast.Compare(left=t_.left, ops=[t_.ops[0]], comparators=[t_.comparators[0]]),
                     ast.Compare(left=t_.comparators[0], ops=[t_.ops[1]], comparators=[t_.comparators[1]])]
            vals = [_holds(ast.fix_missing_locations(p_), F_) for p_ in parts]
            r_ = None if None in vals else (_RAISE if _RAISE in vals else all(vals))
        else:
            r_ = _holds(t_, F_)
        if r_ is None or r_ is _RAISE:
            raise AnalysisError("zcross: guard of the first-sign block not interpretable: %s" % unparse(test0))
        searches = bool(r_) == search_in_body
        if searches != (fsv == 0):
            bad_pairs.append("first_sign=%r, hysteresis=%r -> %s" % (fsv, hv, "searched in the data" if searches else "taken from first_sign"))
    chk.decide(not bad_pairs, "C20.zcross", WA("zcross"), "the sign is searched in the data exactly when first_sign is 0: " + unparse(test0),
               why="; ".join(bad_pairs[:3]) or "-", node=fs[0])
    blk = fs[0] if search_in_body else ast.If(test=fs[0].test, body=fs[0].orelse, orelse=fs[0].body)
    loop1 = [s for s in blk.body if isinstance(s, ast.For)]
    chk.require(len(loop1) == 1, "zcross: first-sign loop not found")
    l1 = loop1[0]
    el = unparse(l1.target)
    b = l1.body
    good = len(b) == 2 and unparse(b[0]) == "yield 0" and isinstance(b[1], ast.If)
    chk.decide(good, "C20.zcross", WA("zcross"), "first-sign loop yields 0 for every sample until the sign is known",
               why="expected 'yield 0' then the band test", node=l1)
    if good:
        t = b[1].test
        ok = isinstance(t, ast.BoolOp) and isinstance(t.op, ast.Or) and len(t.values) == 2
        if ok:
            cs = sorted([cond_key(norm_cmp(v, env)) for v in t.values])
            want = sorted([cond_key(parse_cond("%s > hysteresis" % el)), cond_key(parse_cond("%s < -hysteresis" % el))])
            ok = cs == want
        chk.decide(ok, "C20.zcross", WA("zcross"), "outside-band test: " + unparse(t),
                   why="the first sign must come from the first sample strictly outside [-hysteresis, hysteresis]", node=b[1])
        asg = b[1].body[0]
        ok = isinstance(asg, ast.Assign) and unparse(asg.targets[0]) == "last_sign" and _sign_expr(asg.value, el) \
            and isinstance(b[1].body[-1], ast.Break)
        chk.decide(ok, "C20.zcross", WA("zcross"), "first sign: " + short(asg) + " ; then break",
                   why="sign must be -1 for negative samples and +1 otherwise, and the search must stop", node=asg)
    init0 = [s for s in blk.body if isinstance(s, ast.Assign) and unparse(s) == "last_sign = 0"]
    zero_by_copy = pre is not None and unparse(pre.value) in ("first_sign", "0")     # first_sign == 0 on this arm
    chk.decide(len(init0) == 1 or (not init0 and zero_by_copy), "C20.zcross", WA("zcross"),
               "last_sign = 0 while unknown (all-in-band input: no crossing)",
               why="an unknown sign must not produce crossings", node=blk)
    els = [s for s in blk.orelse if isinstance(s, ast.Assign) and unparse(s.targets[0]) == "last_sign"]
    given = els[-1] if els else pre
    ok = given is not None and _sign_expr(given.value, "first_sign") and len(blk.orelse) <= 1
    chk.decide(ok, "C20.zcross", WA("zcross"), "given first_sign: " + (short(given) if given is not None else "last_sign unbound"),
               why="a non-zero first_sign fixes the initial sign by its own sign (-1 if negative, +1 otherwise): any other "
                   "magnitude scales the crossing threshold 'el * last_sign < -hysteresis'", node=blk)
    loop2 = [s for s in docstring_free(zc.body) if isinstance(s, ast.For)]
    chk.require(len(loop2) == 1, "zcross: main loop not found")
    l2 = loop2[0]
    el2 = unparse(l2.target)
    chk.decide(unparse(l2.iter) == unparse(l1.iter), "C20.zcross", WA("zcross"),
               "main loop continues the same iterator %s" % unparse(l2.iter),
               why="restarting the input would emit extra outputs / re-read samples", node=l2)
    ok = len(l2.body) == 1 and isinstance(l2.body[0], ast.If)
    if ok:
        i = l2.body[0]
        c = norm_cmp(i.test, env)
        want = parse_cond("%s * last_sign < -hysteresis" % el2)
        ok = same_cond(c, want)
        chk.decide(ok, "C20.zcross", WA("zcross"), "crossing test: " + unparse(i.test),
                   why="a crossing is a sample strictly beyond the threshold on the side opposite to the current sign: "
                       "el * last_sign < -hysteresis", node=i)
        tb = [unparse(s) for s in i.body]
        ok = len(i.body) == 2 and isinstance(i.body[0], ast.Assign) and unparse(i.body[0].targets[0]) == "last_sign" \
            and _sign_expr(i.body[0].value, el2) and tb[1] == "yield 1" and [unparse(s) for s in i.orelse] == ["yield 0"]
        chk.decide(ok, "C20.zcross", WA("zcross"), "on crossing: %s ; otherwise: %s" % (tb, [unparse(s) for s in i.orelse]),
                   why="crossing must flip the sign to the sample's sign and emit 1; otherwise emit 0", node=i)
    else:
        chk.bad("C20.zcross", WA("zcross"), "main loop body", "expected a single if/else", node=l2)

    # ------------------------------------------------------------------ unwrap
    chk.rule("C20.unwrap", "unwrap: first sample unchanged; D = d1 - d0 with d0 the previous input; correction only if "
                           "abs(D) > max_delta (strict); delta += -D + min(D % step, D % -step, key=abs) (a multiple of "
                           "step); output d1 + delta; delta starts at zero")
    uw = repo.find(LA, "unwrap")
    loop = [s for s in docstring_free(uw.body) if isinstance(s, ast.For)]
    chk.require(len(loop) == 1, "unwrap: loop not found")
    lp = loop[0]
    d1 = unparse(lp.target)
    pre = [s for s in docstring_free(uw.body) if s is not lp]
    ytxt = [unparse(n) for n in ast.walk(uw) if isinstance(n, ast.Yield)]
    dz = [s for s in pre if isinstance(s, ast.Assign) and unparse(s.targets[0]) == "delta"]
    okz = False
    if dz:
        try:
            okz = Evaluator().ev(dz[0].value).is_zero()
        except Inconclusive:
            okz = False
    chk.decide(okz, "C20.unwrap", WA("unwrap"), "delta starts at " + (unparse(dz[0].value) if dz else "?"),
               why="accumulated correction must start at zero (sequences without jumps stay untouched)", node=uw)
    first_y = [s for s in pre if isinstance(s, ast.Expr) and isinstance(s.value, ast.Yield)]
    chk.decide(len(first_y) == 1 and unparse(first_y[0].value.value) == "d0", "C20.unwrap", WA("unwrap"),
               "first sample is yielded unchanged", why="first output must be the first input", node=uw)
    stm = lp.body
    dd = [s for s in stm if isinstance(s, ast.Assign) and unparse(s.targets[0]) == "d_diff"]
    ok = len(dd) == 1 and Evaluator().ev(dd[0].value) == RF.sym(d1) - RF.sym("d0")
    chk.decide(ok, "C20.unwrap", WA("unwrap"), "jump: " + (short(dd[0]) if dd else "?"),
               why="jump must be measured between consecutive *inputs*", node=lp)
    ifs = [s for s in stm if isinstance(s, ast.If)]
    ok = len(ifs) == 1 and unparse(ifs[0].test) in ("abs(d_diff) > max_delta", "max_delta < abs(d_diff)") and not ifs[0].orelse
    chk.decide(ok, "C20.unwrap", WA("unwrap"), "correction guard: " + (unparse(ifs[0].test) if ifs else "?"),
               why="samples are corrected only for jumps strictly above max_delta", node=lp)
    if ifs:
        # temporaries of the guarded block are written out first
        gb = list(ifs[0].body)
        tmp_env = {}
        while len(gb) > 1 and isinstance(gb[0], ast.Assign) and len(gb[0].targets) == 1 and isinstance(gb[0].targets[0], ast.Name) \
                and gb[0].targets[0].id not in ("delta", "d_diff", "d0", d1):
            class _S(ast.NodeTransformer):
                def visit_Name(self, n_):
                    if isinstance(n_.ctx, ast.Load) and n_.id in tmp_env:
                        return ast.parse(unparse(tmp_env[n_.id]), mode="eval").body
                    return n_
            tmp_env[gb[0].targets[0].id] = _S().visit(ast.parse(unparse(gb[0].value), mode="eval").body)
            gb = gb[1:]
        aug = gb[0] if len(gb) == 1 else None
        if isinstance(aug, ast.AugAssign) and tmp_env:
            aug = ast.AugAssign(target=aug.target, op=aug.op, value=_S().visit(ast.parse(unparse(aug.value), mode="eval").body))
            ast.fix_missing_locations(aug)
        ok = isinstance(aug, ast.AugAssign) and unparse(aug.target) == "delta" and isinstance(aug.op, ast.Add)
        if ok:
            v = aug.value
            ok = isinstance(v, ast.BinOp) and isinstance(v.op, ast.Add)
            if ok:
                neg, mn = (v.left, v.right) if isinstance(v.right, (ast.Call, ast.IfExp)) else (v.right, v.left)
                if isinstance(mn, ast.IfExp):
                    # A if abs(A) < abs(B) else B  (any spelling that picks the smaller magnitude): read as min(.., key=abs)
                    from ..dtable import Facts as _F, holds as _holds
                    a_, b_ = mn.body, mn.orelse
                    pick = {}
                    for va, vb in ((1, 2), (2, 1)):
                        r_ = _holds(mn.test, _F(values={"abs(%s)" % unparse(a_): va, "abs(%s)" % unparse(b_): vb}))
                        pick[(va, vb)] = None if r_ not in (True, False) else (a_ if r_ else b_)
                    if pick[(1, 2)] is a_ and pick[(2, 1)] is b_:
                        mn = ast.parse("min(%s, %s, key=abs)" % (unparse(a_), unparse(b_)), mode="eval").body
                ok = Evaluator().ev(neg) == -RF.sym("d_diff") and isinstance(mn, ast.Call) and unparse(mn.func) == "min" \
                    and len(mn.args) == 2
                if ok:
                    mods = []
                    for a in mn.args:
                        ok = ok and isinstance(a, ast.BinOp) and isinstance(a.op, ast.Mod) \
                            and Evaluator().ev(a.left) == RF.sym("d_diff")
                        if ok:
                            mods.append(Evaluator().ev(a.right))
                    ok = ok and len(mods) == 2 and ((mods[0] == RF.sym("step") and mods[1] == -RF.sym("step")) or
                                                    (mods[1] == RF.sym("step") and mods[0] == -RF.sym("step")))
                    kw = {k.arg: unparse(k.value) for k in mn.keywords}
                    ok = ok and ("abs" in kw.get("key", ""))
        chk.decide(ok, "C20.unwrap", WA("unwrap"), "correction: " + (short(aug) if aug is not None else "?"),
                   why="increment must be -D plus the smaller-magnitude of D mod step and D mod -step: a multiple of step "
                       "that brings the jump within step/2", node=ifs[0])
    ys = [s for s in stm if isinstance(s, ast.Expr) and isinstance(s.value, ast.Yield)]
    ok = len(ys) == 1 and Evaluator().ev(ys[0].value.value) == RF.sym(d1) + RF.sym("delta")
    chk.decide(ok, "C20.unwrap", WA("unwrap"), "output: " + (short(ys[0]) if ys else "?"),
               why="output must be the input plus the accumulated correction", node=lp)
    last = stm[-1]
    chk.decide(unparse(last) == "d0 = %s" % d1, "C20.unwrap", WA("unwrap"), "reference update: " + short(last),
               why="the reference must be the previous input (not the corrected output)", node=last)

    # --------------------------------------------------------- maverage.deque
    chk.rule("C20.maverage", "maverage.deque: data = deque of `size` copies of zero*size_inv with maxlen=size, "
                             "size_inv = 1/size; per input: mean -= data.popleft(); new = el*size_inv; data.append(new); "
                             "mean += new; yield mean  (inductive step mean' = mean - popped + new). recursive and fir "
                             "are (1/size)(1 - x^size)/(1 - x) and sum_{i<size} x^i / size, equal for size 1..16")
    mv = repo.strategy(LA, "maverage", "deque").node
    mf = _resolve(repo, LA, "maverage[deque].maverage_filter")
    si = [s for s in docstring_free(mv.body) if isinstance(s, ast.Assign) and unparse(s.targets[0]) == "size_inv"]
    ok = len(si) == 1 and Evaluator().ev(si[0].value) == RF.const(1) / RF.sym("size")
    chk.decide(ok, "C20.maverage", WA("maverage[deque]"), short(si[0]) if si else "size_inv missing",
               why="each sample must weigh 1/size", node=mv)
    fb = docstring_free(mf.body)
    dq = [s for s in fb if isinstance(s, ast.Assign) and isinstance(s.value, ast.Call) and unparse(s.value.func) == "deque"]
    ok = False
    if len(dq) == 1:
        c = dq[0].value
        kws = {k.arg: unparse(k.value) for k in c.keywords}
        g = c.args[0] if c.args else None
        if isinstance(g, (ast.GeneratorExp, ast.ListComp)) and kws.get("maxlen") == "size":
            cnt = unparse(g.generators[0].iter)
            try:
                val = Evaluator({"size_inv": RF.const(1) / RF.sym("size")}).ev(g.elt)
                ok = cnt in ("xrange(size)", "range(size)") and val * RF.sym("size") == RF.sym("zero")
            except Inconclusive:
                ok = False
    chk.decide(ok, "C20.maverage", WA("maverage[deque].maverage_filter"), short(dq[0]) if dq else "deque missing",
               why="window must start as `size` samples equal to the zero value (scaled by 1/size), maxlen size", node=mf)
    dname = unparse(dq[0].targets[0]) if dq else "data"
    mean0 = [s for s in fb if isinstance(s, ast.Assign) and unparse(s.targets[0]) == "mean_value"]
    chk.decide(len(mean0) == 1 and unparse(mean0[0].value) == "zero", "C20.maverage",
               WA("maverage[deque].maverage_filter"), "initial mean is the zero value",
               why="sum of the initial window (size * zero/size) is zero", node=mf)
    lp = [s for s in fb if isinstance(s, ast.For)]
    chk.require(len(lp) == 1, "maverage_filter: loop not found")
    lp = lp[0]
    el = unparse(lp.target)
    state = {"mean_value": RF.sym("MEAN"), "size_inv": RF.const(1) / RF.sym("size"), el: RF.sym("el")}
    popped = []
    appended = []
    yielded = []

    def hook(ev, name, node):
        if isinstance(node.func, ast.Attribute) and unparse(node.func.value) == dname and node.func.attr == "popleft":
            popped.append(node)
            return RF.sym("OLD")
        return None
    try:
        for st in lp.body:
            if isinstance(st, ast.Assign) and isinstance(st.targets[0], ast.Name):
                state[st.targets[0].id] = Evaluator(state, call_hook=hook).ev(st.value)
            elif isinstance(st, ast.AugAssign) and isinstance(st.target, ast.Name):
                v = Evaluator(state, call_hook=hook).ev(st.value)
                cur = state[st.target.id]
                state[st.target.id] = cur + v if isinstance(st.op, ast.Add) else cur - v if isinstance(st.op, ast.Sub) else None
                if state[st.target.id] is None:
                    raise Inconclusive("augmented op")
            elif isinstance(st, ast.Expr) and isinstance(st.value, ast.Call) and unparse(st.value.func) == dname + ".append":
                appended.append(Evaluator(state, call_hook=hook).ev(st.value.args[0]))
            elif isinstance(st, ast.Expr) and isinstance(st.value, ast.Yield):
                yielded.append(Evaluator(state, call_hook=hook).ev(st.value.value))
            elif isinstance(st, ast.Expr) and isinstance(st.value, ast.Call):
                Evaluator(state, call_hook=hook).ev(st.value)      # e.g. a discarded data.popleft()
            else:
                raise Inconclusive("statement %s" % unparse(st))
        new = RF.sym("el") / RF.sym("size")
        ok = len(popped) == 1 and len(appended) == 1 and len(yielded) == 1 and appended[0] == new \
            and yielded[0] == RF.sym("MEAN") - RF.sym("OLD") + new and state["mean_value"] == yielded[0]
        chk.decide(ok, "C20.maverage", WA("maverage[deque].maverage_filter"),
                   "step: yields %s, appends %s" % (yielded[0].key() if yielded else "?", appended[0].key() if appended else "?"),
                   why="inductive step must be mean - popped + el/size with el/size appended once", node=lp)
    except Inconclusive as ex:
        raise AnalysisError("maverage_filter loop not interpretable: %s" % ex)
    # recursive / fir
    x = RF.sym("x")

    def zhook(ev, name, node):
        return None
    rec = repo.strategy(LA, "maverage", "recursive").node
    fir = repo.strategy(LA, "maverage", "fir").node
    rret = docstring_free(rec.body)[-1]
    fret = docstring_free(fir.body)[-1]
    nsz = 0
    for size in range(1, 17):
        try:
            rv = Evaluator({"z": RF.sym("x") ** -1, "size": RF.const(size)}).ev(rret.value)
            fv = _run_concrete(docstring_free(fir.body), {"z": RF.sym("x") ** -1, "size": RF.const(size)})
        except Inconclusive as ex:
            raise AnalysisError("maverage.recursive/fir not interpretable: %s" % ex)
        want = sum((x ** i for i in range(size)), RF.const(0)) / size
        if not (rv == want) or not (fv == want):
            chk.bad("C20.maverage", WA("maverage[recursive]/[fir]"), "size=%d" % size,
                    "recursive = %s, fir = %s, mean of the last %d samples = %s" % (rv.key(), fv.key(), size, want.key()),
                    node=rret)
            break
        nsz += 1
    else:
        chk.ok_many("C20.maverage", WA("maverage[recursive]/[fir]"),
                    "both equal (1/size) * sum_{i<size} z^-i as rational functions (size = 1..16, bounded)", 2 * nsz,
                    node=rret)

    # ---------------------------------------------------------- accumulate
    chk.rule("C20.accumulate", "accumulate.func yields the first item then adds every later item to the running sum; "
                               "accumulate.z is 1/(1 - z^-1); accumulate.accumulate wraps itertools.accumulate")
    ac = repo.strategy(LI, "accumulate", "func").node
    lp = [s for s in docstring_free(ac.body) if isinstance(s, ast.For)]
    chk.require(len(lp) == 1, "accumulate.func: loop not found")
    lp = lp[0]
    el = unparse(lp.target)
    ok = [unparse(s) for s in lp.body] == ["sum_data += %s" % el, "yield sum_data"]
    chk.decide(ok, "C20.accumulate", WI("accumulate[func]"), "; ".join(unparse(s) for s in lp.body),
               why="each output must be the previous sum plus the new item", node=lp)
    firsty = [s for s in docstring_free(ac.body) if isinstance(s, ast.Expr) and isinstance(s.value, ast.Yield)]
    chk.decide(len(firsty) == 1 and unparse(firsty[0].value.value) == "sum_data", "C20.accumulate",
               WI("accumulate[func]"), "first output is the first item", why="running sum starts with the first item", node=ac)
    zs = repo.strategy(LI, "accumulate", "z")
    try:
        zv = Evaluator({"z": RF.sym("x") ** -1}).ev(zs.node)
        okz = zv == RF.const(1) / (1 - RF.sym("x"))
    except Inconclusive:
        okz = False
    chk.decide(okz, "C20.accumulate", WI("accumulate[z]"), "accumulate.z = " + short(zs.node),
               why="running-sum filter is 1 / (1 - z^-1)", node=zs.node)
    its = repo.strategy(LI, "accumulate", "accumulate", required=False)
    if its is not None:
        chk.decide("it.accumulate" in unparse(its.node), "C20.accumulate", WI("accumulate[accumulate]"),
                   short(its.node), why="must wrap itertools.accumulate", node=its.node)

    # ------------------------------------------------------------ envelope, amdf
    chk.rule("C20.compose", "envelope.rms = lowpass(cutoff)(sig^2)^(1/2), .abs = lowpass(cutoff)(|sig|), .squared = "
                            "lowpass(cutoff)(sig^2); amdf = maverage(size)(|(1 - z^-lag).linearize()(sig)|) with the "
                            "zero value forwarded to both stages")

    def comp_hook(ev, name, node):
        f = node.func
        if isinstance(f, ast.Call) and unparse(f.func) == "lowpass":
            return opaque("LP", ev.ev(f.args[0]), ev.ev(node.args[0]))
        if name == "thub" and len(node.args) == 2:
            return ev.ev(node.args[0])
        if name == "abs":
            return opaque("abs", ev.ev(node.args[0]))
        # a sibling strategy called by name: its own result with its own parameters (defaults included)
        if isinstance(f, ast.Attribute) and unparse(f.value) == "envelope" and not node.keywords:
            try:
                sib = repo.strategy(LA, "envelope", f.attr).node
            except AnalysisError:
                return None
            ps = [a.arg for a in sib.args.args]
            dfl = sib.args.defaults
            bind = {}
            for p_, d_ in zip(ps[len(ps) - len(dfl):], dfl):
                bind[p_] = Evaluator().ev(d_)
            for p_, a_ in zip(ps, node.args):
                bind[p_] = ev.ev(a_)
            if set(bind) != set(ps):
                return None
            rr = docstring_free(sib.body)[-1]
            if not isinstance(rr, ast.Return):
                return None
            return Evaluator(bind, call_hook=comp_hook).ev(rr.value)
        return None
    specs = {"rms": "lowpass(cutoff)(sig ** 2) ** .5", "abs": "lowpass(cutoff)(abs(sig))",
             "squared": "lowpass(cutoff)(sig ** 2)"}
    for sname, spec in specs.items():
        st = repo.strategy(LA, "envelope", sname).node
        r = docstring_free(st.body)[-1]
        try:
            got = Evaluator(call_hook=comp_hook).ev(r.value)
            want = Evaluator(call_hook=comp_hook).ev(ast.parse(spec, mode="eval").body)
            ok = got == want
        except Inconclusive as ex:
            raise AnalysisError("envelope.%s not interpretable: %s" % (sname, ex))
        chk.decide(ok, "C20.compose", WA("envelope[%s]" % sname), short(r), why="expected %s" % spec, node=r)
        par = [a.arg for a in st.args.args]
        d = st.args.defaults
        chk.decide(par == ["sig", "cutoff"] and len(d) == 1 and unparse(d[0]) == "pi / 512", "C20.compose",
                   WA("envelope[%s]" % sname), "signature (sig, cutoff=pi/512)", why="documented default cut-off", node=st)
    am = repo.find(LA, "amdf")
    fl = [s for s in docstring_free(am.body) if isinstance(s, ast.Assign) and unparse(s.targets[0]) == "filt"]
    ok = False
    if len(fl) == 1:
        v = fl[0].value
        if isinstance(v, ast.Call) and isinstance(v.func, ast.Attribute) and v.func.attr == "linearize":
            try:
                ok = Evaluator({"z": RF.sym("x") ** -1}).ev(v.func.value) == 1 - sym_pow(RF.sym("x"), RF.sym("lag"))
            except Inconclusive:
                ok = False
    chk.decide(ok, "C20.compose", WA("amdf"), short(fl[0]) if fl else "filt missing",
               why="difference filter must be (1 - z^-lag).linearize()", node=am)
    af = repo.find(LA, "amdf.amdf_filter")
    r = docstring_free(af.body)[-1]
    ok = unparse(r) == "return maverage(size)(abs(filt(sig, zero=zero)), zero=zero)"
    chk.decide(ok, "C20.compose", WA("amdf.amdf_filter"), short(r),
               why="amdf must be the moving average (size) of |filt(sig)| with zero forwarded to both", node=r)


def _sign_expr(e, var):
    """``-1 if var < 0 else 1``"""
    if not isinstance(e, ast.IfExp):
        return False
    c = norm_cmp(e.test)
    try:
        b, o = Evaluator().ev(e.body), Evaluator().ev(e.orelse)
    except Inconclusive:
        return False
    if same_cond(c, parse_cond("%s < 0" % var)):
        return b == -1 and o == 1
    if same_cond(c, parse_cond("%s >= 0" % var)):
        return b == 1 and o == -1
    return False
