"""C03  A Stream behaves as a lazy sequence under any history of its methods."""
import ast

from ..core import (AnalysisError, FuncTypes, unparse, short, canon, canon_call, base_name,
                    own_nodes, docstring_free)
from ..e3 import E3, describe

EXPLANATION = (
    "Static analysis of audiolazy/lazy_stream.py and lazy_itertools.py (ast, re-parsed on every run). "
    "Decides the structural clauses of C03: (E3) no StopIteration can escape a generator frame of "
    "Stream.take/limit/skip (PEP 479 would turn 'fewer items remain' into RuntimeError); take has the "
    "documented three arms (n is None -> bare next, +inf -> whole iterator, otherwise a count derived from n by "
    "rounding only); peek consumes only a tee copy; Stream.copy/StreamTeeHub.copy follow the tee discipline "
    "(owner rebound to one output, Stream of the other returned); the hub tees exactly its n, pops one copy per "
    "__iter__ and converts exhaustion into IndexError; every Stream method that rebinds or consumes self._data is "
    "overridden in StreamTeeHub by a re-wrap through Stream(self); in-place methods return self and derive the new "
    "iterator lazily from the old one with the arguments in the documented order; thub is the identity on "
    "non-iterables; lazy_itertools.tee makes n Streams from itertools.tee(data, n). It does not decide agreement "
    "with the list model for every history and every numeric n (values of rounding)."
    " Also: C03.take is also decided as a decision table: the body of Stream.take is folded (literals only, no repository code runs) for representative counts None, +-inf, nan, halves, negative and integer values, whatever the order and spelling of its guards; skip/limit structure, hub constructor/copy paths and the guard polarity / default of lazy_itertools.tee are decided the same way. ")

UNDECIDED = ["which items for float/inf/negative n beyond the rounding shape", "list-model equivalence over histories"]

LS = "lazy_stream"


def _self_data(node):
    return isinstance(node, ast.Attribute) and node.attr == "_data" and isinstance(node.value, ast.Name) \
        and node.value.id == "self"


def _is_rounding_of(expr, pname):
    """expr is ``pname`` passed only through int/round/rint (and max(.,0)) - no arithmetic offset."""
    if isinstance(expr, ast.Name):
        return expr.id == pname
    if isinstance(expr, ast.Call) and isinstance(expr.func, ast.Name) and not expr.keywords:
        if expr.func.id in ("int", "round", "rint") and len(expr.args) == 1:
            return _is_rounding_of(expr.args[0], pname)
        if expr.func.id == "max" and len(expr.args) == 2:
            a, b = expr.args
            zero = lambda e: isinstance(e, ast.Constant) and e.value == 0
            if zero(a):
                return _is_rounding_of(b, pname)
            if zero(b):
                return _is_rounding_of(a, pname)
    return False


def _count_exprs(node, mod):
    """Expressions bounding how many items a lazy construct takes: range(N) / islice(x, N)."""
    out = []
    for n in ast.walk(node):
        if isinstance(n, ast.Call):
            c = canon_call(mod, n)
            if c == "range" and len(n.args) == 1:
                out.append(n.args[0])
            elif c == "itertools.islice" and len(n.args) == 2:
                out.append(n.args[1])
            elif c == "itertools.islice" and len(n.args) >= 3 and isinstance(n.args[2], ast.Constant) and n.args[2].value is None:
                out.append(n.args[1])           # islice(x, start, None): start items are dropped
    return out


def _clamped(expr):
    """the count goes through max(., 0) (islice raises ValueError for a negative bound)"""
    for n in ast.walk(expr):
        if isinstance(n, ast.Call) and isinstance(n.func, ast.Name) and n.func.id == "max" and len(n.args) == 2 \
                and any(isinstance(a, ast.Constant) and a.value == 0 for a in n.args):
            return True
    return False



def _take_arms(chk, repo, mod, take, pn, W):
    none_arm = inf_arm = None
    for st in docstring_free(take.body):
        if isinstance(st, ast.If):
            t = unparse(st.test)
            if t == "%s is None" % pn:
                none_arm = st
            elif "isinf(%s)" % pn in t:
                inf_arm = st
    chk.require(none_arm is not None, "Stream.take: 'if %s is None' arm not found" % pn)
    r = none_arm.body[-1]
    good = isinstance(r, ast.Return) and isinstance(r.value, ast.Call) and unparse(r.value.func) == "next" \
        and len(r.value.args) == 1 and _self_data(r.value.args[0])
    chk.decide(good, "C03.take", W("Stream.take"), "n is None arm: " + short(r),
               why="take() without n must return the single next item of self._data (StopIteration when empty)", node=r)
    chk.require(inf_arm is not None, "Stream.take: +inf arm not found")
    r = inf_arm.body[-1]
    good = isinstance(r, ast.Return) and isinstance(r.value, ast.Call) and len(r.value.args) == 1 \
        and _self_data(r.value.args[0]) and "%s > 0" % pn in unparse(inf_arm.test)
    chk.decide(good, "C03.take", W("Stream.take"), "inf arm: if %s: %s" % (unparse(inf_arm.test), short(r)),
               why="take(inf) must hand all of self._data to the constructor, only for +inf", node=r)
    last = docstring_free(take.body)[-1]
    chk.require(isinstance(last, ast.Return), "Stream.take: final return not found")
    counts = _count_exprs(last, mod)
    for helper in [f for f in take.body if isinstance(f, FuncTypes)]:
        if any(isinstance(n, ast.Call) and isinstance(n.func, ast.Name) and n.func.id == helper.name
               for n in ast.walk(last)):
            counts += _count_exprs(helper, mod)
    chk.require(counts, "Stream.take: general arm has no range()/islice() bound - idiom not recognised")
    for c in counts:
        chk.decide(_is_rounding_of(c, pn), "C03.take", W("Stream.take"), "general arm count: " + unparse(c),
                   why="the number of items taken must be n itself (after rounding), without offset", node=c)
    srcs = [n for n in ast.walk(last) if _self_data(n)]
    chk.decide(len(srcs) >= 1, "C03.take", W("Stream.take"), "general arm consumes self._data: " + short(last),
               why="take must remove the items from this stream's own iterator", node=last)
    # float rounding statement
    for st in docstring_free(take.body):
        if isinstance(st, ast.If) and "isinstance(%s, float)" % pn in unparse(st.test):
            asg = st.body[0]
            if isinstance(asg, ast.Assign) and isinstance(asg.value, ast.IfExp):
                v = asg.value
                good = _is_rounding_of(v.body, pn) and isinstance(v.orelse, ast.Constant) and v.orelse.value == 0 \
                    and unparse(v.test) in ("%s > 0" % pn, "0 < %s" % pn)
                chk.decide(good, "C03.take", W("Stream.take"), "float arm: " + short(asg),
                           why="float n must be rounded when positive and 0 otherwise (-inf, nan)", node=asg)
                # the documented rounding of the library (half-way cases away from zero) is lazy_misc.rint
                rounders = [c for c in ast.walk(v.body) if isinstance(c, ast.Call)]
                uses_rint = len(rounders) == 1 and canon(mod, rounders[0].func) == "lazy_misc:rint" \
                    and [unparse(a) for a in rounders[0].args] == [pn]
                chk.decide(uses_rint, "C03.take", W("Stream.take"), "float n rounded by lazy_misc.rint: " + unparse(v.body),
                           why="take(n)/peek(n) round a float count to the nearest integer with exact halves away from "
                               "zero (rint); int(round(n)) sends 0.5 -> 0 and 2.5 -> 2 (banker's rounding): fewer items "
                               "than the model", node=asg)


def run(chk, repo):
    mod = repo.mod(LS)
    stream = repo.find(LS, "Stream")
    hub = repo.find(LS, "StreamTeeHub")
    W = lambda q: "%s:%s" % (mod.relpath, q)

    # ------------------------------------------------------------------ E3
    chk.rule("E3", "no unprotected StopIteration raiser (next(x) without default, raise StopIteration, call of a "
                   "plain function summarised as may-raise) inside a generator frame; protected = enclosing try in "
                   "the same frame catching StopIteration/Exception/BaseException/bare")
    e3 = E3([(m.name, m.tree) for m in repo.modules.values()])
    frames = 0
    for cls, names in ((stream, None), (hub, None)):
        for fn in cls.body:
            if not isinstance(fn, FuncTypes):
                continue
            q = "%s.%s" % (cls.name, fn.name)
            sites = e3.scan(fn)
            frames += 1
            gen_sites = [s for s in sites if s.in_generator]
            for s in gen_sites:
                chk.decide(not s.escapes, "E3", W(q), describe(s),
                           why="StopIteration raised here leaves a generator frame and becomes RuntimeError "
                               "(PEP 479): 'fewer items remain' / 'source exhausted' turns into an error instead "
                               "of a shorter result", node=s.node)
            if not gen_sites:
                chk.ok("E3", W(q), "no StopIteration raiser in any generator frame of %s" % q, node=fn)
    for q in ("thub", "tostream"):
        fn = repo.find(LS, q)
        for s in e3.scan(fn):
            if s.in_generator:
                chk.decide(not s.escapes, "E3", W(q), describe(s), why="escapes a generator frame", node=s.node)
    chk.floor("E3", frames, 12, "methods of Stream and StreamTeeHub scanned")

    # ---------------------------------------------------------------- init
    chk.rule("C03.init", "Stream(*dargs): none -> TypeError; one iterable -> iter(it), one non-iterable -> endless repeat; "
                         "several: all iterable -> chain in order, none iterable -> endless cycle, mixed -> TypeError")
    ini = repo.find(LS, "Stream.__init__")
    ib = docstring_free(ini.body)
    from .c08 import leaves as _leaves
    va = ini.args.vararg.arg if ini.args.vararg else None
    chk.require(va is not None, "Stream.__init__ has no *args parameter")

    def truth(e, n, kinds):
        """value of a guard for n arguments of the given kinds (True = iterable); None when not interpretable"""
        if isinstance(e, ast.UnaryOp) and isinstance(e.op, ast.Not):
            r_ = truth(e.operand, n, kinds)
            return None if r_ is None else not r_
        if isinstance(e, ast.BoolOp):
            vals = [truth(v_, n, kinds) for v_ in e.values]
            if any(v_ is None for v_ in vals):
                return None
            return all(vals) if isinstance(e.op, ast.And) else any(vals)
        t_ = unparse(e)
        if t_ == va:
            return n != 0
        if isinstance(e, ast.Compare) and len(e.ops) == 1:
            l_, r_ = e.left, e.comparators[0]
            ln = lambda x: unparse(x) == "len(%s)" % va
            if ln(l_) and isinstance(r_, ast.Constant):
                a_, b_ = n, r_.value
            elif ln(r_) and isinstance(l_, ast.Constant):
                a_, b_ = l_.value, n
            else:
                return None
            return {ast.Eq: a_ == b_, ast.NotEq: a_ != b_, ast.Lt: a_ < b_, ast.LtE: a_ <= b_, ast.Gt: a_ > b_,
                    ast.GtE: a_ >= b_}.get(type(e.ops[0]))
        if t_ == "isinstance(%s[0], Iterable)" % va:
            return kinds[0] if kinds else None
        if isinstance(e, ast.Call) and unparse(e.func) in ("all", "any") and len(e.args) == 1 and isinstance(e.args[0], ast.Name):
            # the flags collected once: flags = [isinstance(arg, Iterable) for arg in dargs] ; all(flags) / any(flags)
            defs_ = [a_ for a_ in ast.walk(ini) if isinstance(a_, ast.Assign) and len(a_.targets) == 1
                     and isinstance(a_.targets[0], ast.Name) and a_.targets[0].id == e.args[0].id]
            if len(defs_) == 1 and isinstance(defs_[0].value, (ast.ListComp, ast.GeneratorExp)) and not (
                    isinstance(defs_[0].value, ast.GeneratorExp) and sum(
                        1 for n_ in ast.walk(ini) if isinstance(n_, ast.Name) and n_.id == e.args[0].id and isinstance(n_.ctx, ast.Load)) > 1):
                return truth(ast.Call(func=e.func, args=[defs_[0].value], keywords=[]), n, kinds)
            return None
        if isinstance(e, ast.Call) and unparse(e.func) in ("all", "any") and len(e.args) == 1 \
                and isinstance(e.args[0], (ast.GeneratorExp, ast.ListComp)) and len(e.args[0].generators) == 1 \
                and unparse(e.args[0].generators[0].iter) == va and not e.args[0].generators[0].ifs:
            v_ = unparse(e.args[0].generators[0].target)
            el = unparse(e.args[0].elt)
            if el == "isinstance(%s, Iterable)" % v_:
                vals = list(kinds)
            elif el == "not isinstance(%s, Iterable)" % v_:
                vals = [not k_ for k_ in kinds]
            else:
                return None
            return all(vals) if unparse(e.func) == "all" else any(vals)
        return None
    from ..equiv import desugar_conditionals as _dsg
    ib = _dsg(ib)           # x = A if c else B  read as  if c: x = A  else: x = B
    lv = _leaves(ib)
    scenarios = [(0, ()), (1, (True,)), (1, (False,)), (2, (True, True)), (2, (False, False)), (2, (True, False)),
                 (2, (False, True)), (3, (True, True, True)), (3, (False, False, False)), (3, (True, False, True))]
    want_txt = {"raise": None}
    okall = True
    problems = []
    for n_, kinds in scenarios:
        sel = []
        for l_ in lv:
            taken = True
            for c_, pol_ in l_.conds:       # in execution order: a guard is only evaluated when the previous ones held
                v_ = truth(c_, n_, kinds)
                if v_ is None:
                    raise AnalysisError("Stream.__init__: guard not interpretable: %s" % unparse(c_))
                if v_ != pol_:
                    taken = False
                    break
            if taken:
                sel.append(l_)
        if len(sel) != 1:
            okall = False
            problems.append("%d leaves for %d argument(s) %s" % (len(sel), n_, kinds))
            continue
        stmts_ = list(sel[0].stmts)
        if n_ == 1 and stmts_ and isinstance(stmts_[0], ast.Assign) and len(stmts_[0].targets) == 1 \
                and isinstance(stmts_[0].targets[0], ast.Tuple) and len(stmts_[0].targets[0].elts) == 1 \
                and isinstance(stmts_[0].targets[0].elts[0], ast.Name) and unparse(stmts_[0].value) == va:
            # ``x, = dargs`` with exactly one argument: x is dargs[0]
            one_ = stmts_[0].targets[0].elts[0].id

            class _One(ast.NodeTransformer):
                def visit_Name(self, n):
                    if n.id == one_ and isinstance(n.ctx, ast.Load):
                        return ast.parse("%s[0]" % va, mode="eval").body
                    return n
            stmts_ = [_One().visit(ast.parse(unparse(s_)).body[0]) for s_ in stmts_[1:]]
            if len(stmts_) == 1 and isinstance(stmts_[0], ast.If):
                # the test on the argument is decided by the scenario
                v_ = truth(stmts_[0].test, n_, kinds)
                if v_ is not None:
                    stmts_ = stmts_[0].body if v_ else stmts_[0].orelse
        # bookkeeping of the guards (n = len(dargs), flags = [isinstance(a, Iterable) for a in dargs]) is not an action
        def _bookkeeping(s_):
            return isinstance(s_, ast.Assign) and len(s_.targets) == 1 and isinstance(s_.targets[0], ast.Name) \
                and not s_.targets[0].id.startswith("cond__") \
                and all(unparse(c_.func) in ("isinstance", "len", "all", "any") for c_ in ast.walk(s_.value) if isinstance(c_, ast.Call)) \
                and not any(isinstance(x_, ast.Name) and x_.id == s_.targets[0].id for s2_ in stmts_ if s2_ is not s_
                            for x_ in ast.walk(s2_))
        stmts_ = [s_ for s_ in stmts_ if not _bookkeeping(s_)]
        # the temporary of a desugared conditional expression: T = E ; X = T  is  X = E
        k_ = 0
        while k_ + 1 < len(stmts_):
            a_, b_ = stmts_[k_], stmts_[k_ + 1]
            if isinstance(a_, ast.Assign) and len(a_.targets) == 1 and isinstance(a_.targets[0], ast.Name) \
                    and a_.targets[0].id.startswith("cond__") and isinstance(b_, ast.Assign) and isinstance(b_.value, ast.Name) \
                    and b_.value.id == a_.targets[0].id:
                stmts_[k_:k_ + 2] = [ast.Assign(targets=b_.targets, value=a_.value, lineno=getattr(b_, "lineno", 0))]
                continue
            k_ += 1
        acts = [unparse(s_) for s_ in stmts_]
        if n_ == 0 or (n_ >= 2 and len(set(kinds)) == 2):
            good = len(stmts_) == 1 and isinstance(stmts_[0], ast.Raise) and "TypeError" in acts[0]
            exp = "raise TypeError"
        elif n_ == 1:
            exp = "self._data = iter(%s[0])" % va if kinds[0] else "self._data = it.repeat(%s[0])" % va
            good = acts == [exp]
        else:
            exp = "self._data = it.chain(*%s)" % va if kinds[0] else "self._data = it.cycle(%s)" % va
            good = acts == [exp]
        if not good:
            okall = False
            problems.append("%d argument(s) %s: %s (expected %s)" % (n_, tuple("iterable" if k_ else "scalar" for k_ in kinds),
                                                                     " ; ".join(acts)[:60], exp))
    chk.decide(okall, "C03.init", W("Stream.__init__"),
               "decision table over %d argument configurations: none -> TypeError; one -> iter / repeat; several -> chain / "
               "cycle / TypeError when mixed" % len(scenarios),
               why="; ".join(problems) or "-", node=ini)
    itn = repo.find(LS, "Stream.__iter__")
    chk.decide(unparse(docstring_free(itn.body)[-1]) == "return self._data", "C03.init", W("Stream.__iter__"),
               "iteration hands out the single underlying iterator", why="a Stream is consumed through its one iterator",
               node=itn)

    # ---------------------------------------------------------------- take
    chk.rule("C03.take", "Stream.take: the 'n is None' arm returns next(self._data) in the plain frame (so "
                         "StopIteration reaches the caller as documented); the +inf arm hands the whole iterator "
                         "to the constructor; the general arm bounds consumption by a count derived from n by "
                         "rounding only, and consumes self._data itself")
    take = repo.find(LS, "Stream.take")
    params = [a.arg for a in take.args.args]
    chk.require(len(params) >= 2, "Stream.take signature unrecognised")
    pn = params[1]
    # take / skip / limit as decision tables over representative counts (whatever the spelling of the guards)
    from ..scenario import Sym, run_table, numeric_hook
    from ..peval import Obj
    from ..ratfun import Inconclusive
    inf_ = float("inf")
    DATA = Sym("self._data")
    CONS = Sym("constructor")
    sym_calls = {"next": "next", "itertools.islice": "islice", "it.islice": "islice"}
    hook = numeric_hook(lambda f: canon(mod, f), sym_calls)

    def half_away(x):
        import math as _m
        return int(_m.floor(abs(x) + 0.5)) * (1 if x >= 0 else -1)
    reps = [None, inf_, -inf_, float("nan"), 2.5, 3.0, 0.5, 0.4, 1.5, 0.0, -2.5, 5, 1, 0, -3]
    try:
        rows = run_table(docstring_free(take.body), [(repr(v), {pn: v}) for v in reps],
                         lambda: {"self": Obj("self", {"_data": DATA}), (params[2] if len(params) > 2 else "constructor"): CONS},
                         hook)
        bad = []
        for v, (label, got) in zip(reps, rows):
            if v is None:
                want = ("return", Sym("next", DATA))
            elif v == inf_:
                want = ("return", Sym("call", CONS, DATA))
            else:
                k = (half_away(v) if v > 0 else 0) if isinstance(v, float) else max(v, 0)
                want = ("return", Sym("call", CONS, Sym("islice", DATA, max(k, 0))))
            if got != want:
                bad.append("take(%s) is %s, documented %s" % (label, got[1] if got[0] == "return" else "%s %s" % got[:2], want[1]))
        chk.decide(not bad, "C03.take", W("Stream.take"),
                   "decision table over %d representative counts (None, +-inf, nan, halves, negative, int)" % len(reps),
                   why="; ".join(bad[:4]) or "-", node=take)
        table_decided = True
    except Inconclusive as ex:
        table_decided = False
        chk.note("C03.take", W("Stream.take"), "decision table not folded (%s): the arm-by-arm rule below decides" % ex)

    try:
        _take_arms(chk, repo, mod, take, pn, W)
    except AnalysisError:
        if not table_decided:
            raise


    # ---------------------------------------------------------------- peek
    chk.rule("C03.peek", "Stream.peek never touches self._data; what it consumes is the result of self.copy(); "
                         "it forwards n and constructor unchanged to take")
    peek = repo.find(LS, "Stream.peek")
    direct = [n for n in own_nodes(peek) if _self_data(n)]
    chk.decide(not direct, "C03.peek", W("Stream.peek"), "no direct use of self._data in peek",
               why="peek would remove items from the stream", node=peek)
    consumers = []
    for n in own_nodes(peek):
        if isinstance(n, ast.Call) and isinstance(n.func, ast.Attribute) and n.func.attr in ("take", "peek", "skip", "limit"):
            consumers.append(n)
        elif isinstance(n, ast.Call) and isinstance(n.func, ast.Name) and n.func.id in ("next", "list", "tuple") \
                and n.args:
            consumers.append(n)
    chk.require(consumers, "Stream.peek: no consuming call recognised")
    copies = {"self.copy()"}
    for n in own_nodes(peek):
        if isinstance(n, ast.Assign) and unparse(n.value) in copies:
            for t in n.targets:
                copies.add(unparse(t))
    ppar = [a.arg for a in peek.args.args][1:]
    for c in consumers:
        recv = c.func.value if isinstance(c.func, ast.Attribute) else c.args[0]
        chk.decide(unparse(recv) in copies, "C03.peek", W("Stream.peek"), "consumer " + short(c),
                   why="the receiver of a consuming call in peek must be a copy (self.copy()), not the stream itself",
                   node=c)
        if isinstance(c.func, ast.Attribute) and c.func.attr == "take":
            fwd = {kw.arg: unparse(kw.value) for kw in c.keywords}
            for i, a in enumerate(c.args):
                tp = [x.arg for x in take.args.args][1:]
                if i < len(tp):
                    fwd[tp[i]] = unparse(a)
            good = all(fwd.get(p) == p for p in ppar)
            chk.decide(good, "C03.peek", W("Stream.peek"), "forwards %s to take: %s" % (ppar, short(c)),
                       why="peek(n, constructor) must behave as take(n, constructor) on the copy", node=c)

    # ----------------------------------------------------------------- tee
    chk.rule("C03.tee", "after 'a, b = itertools.tee(X)' the owner X is rebound to one output, a Stream of the "
                        "*other* output is returned and X is not used again")
    for q, owner_hint in (("Stream.copy", "self._data"), ("StreamTeeHub.copy", "self._iters[0]")):
        fn = repo.find(LS, q)
        tees = [n for n in own_nodes(fn) if isinstance(n, ast.Assign) and isinstance(n.value, ast.Call)
                and canon_call(mod, n.value) == "itertools.tee"]
        if not tees:
            # tee(X) used in place - tee(X)[1], tee(X)[-1]: no name is left to put back where X was
            inline = [n for n in own_nodes(fn) if isinstance(n, ast.Call) and canon_call(mod, n) == "itertools.tee"
                      and n.args and isinstance(getattr(n, "_parent", None), ast.Subscript) and n._parent.value is n]
            persistent = [n for n in inline if unparse(n.args[0]).startswith("self.")]
            if persistent and len(persistent) == len(inline):
                n0 = persistent[0]
                own_ = unparse(n0.args[0])
                stores = [a_ for a_ in own_nodes(fn) if isinstance(a_, ast.Assign) and any(unparse(x) == own_ for x in a_.targets)
                          and (a_.lineno, a_.col_offset) > (n0.lineno, n0.col_offset)]
                if not stores:
                    chk.bad("C03.tee", W(q), "owner %s rebound to one tee output" % own_,
                            "%s is tee'd in place (%s) and stays where it was: the original iterator keeps being consumed "
                            "behind the tee, so what the copy reads is taken away from the stream (itertools: once tee() "
                            "has made a split, the original iterable should not be used anywhere else)"
                            % (own_, short(n0._parent)), node=n0)
                    continue
        chk.require(len(tees) == 1, "%s: tee idiom not recognised (%d itertools.tee assignments)" % (q, len(tees)))
        t = tees[0]
        tgt = t.targets[0]
        nargs = t.value.args
        chk.require(len(nargs) == 1 or (len(nargs) == 2 and isinstance(nargs[1], ast.Constant) and nargs[1].value == 2),
                    "%s: tee count is not 2" % q)
        owner = unparse(nargs[0])
        # X, b = tee(X): one output goes straight back where the owner was
        direct = isinstance(tgt, ast.Tuple) and len(tgt.elts) == 2 and sum(1 for e in tgt.elts if unparse(e) == owner) == 1 \
            and all(isinstance(e, ast.Name) or unparse(e) == owner for e in tgt.elts)
        chk.require(direct or (isinstance(tgt, ast.Tuple) and len(tgt.elts) == 2 and all(isinstance(e, ast.Name) for e in tgt.elts)),
                    "%s: tee result is not unpacked into two names" % q)
        if direct:
            a, b = [e.id if isinstance(e, ast.Name) else "<owner>" for e in tgt.elts]
            chk.ok("C03.tee", W(q), "owner %s rebound to one tee output (in the unpacking itself)" % owner, node=t)
            kept = "<owner>"
        else:
            a, b = tgt.elts[0].id, tgt.elts[1].id
            rebinds = [n for n in own_nodes(fn) if isinstance(n, ast.Assign) and any(unparse(x) == owner for x in n.targets)
                       and isinstance(n.value, ast.Name) and n.value.id in (a, b)]
            chk.decide(len(rebinds) == 1, "C03.tee", W(q), "owner %s rebound to one tee output" % owner,
                       why="the original iterator keeps being consumed behind the tee: the copy misses items or sees "
                           "them twice", node=t)
            kept = rebinds[0].value.id if rebinds else None
        rets = [n for n in own_nodes(fn) if isinstance(n, ast.Return) and n.value is not None]
        good_ret = False
        for rnode in rets:
            v = rnode.value
            if isinstance(v, ast.Call) and base_name(canon(mod, v.func)) == "Stream" and len(v.args) == 1 \
                    and isinstance(v.args[0], ast.Name) and v.args[0].id in (a, b):
                good_ret = v.args[0].id != kept
                chk.decide(good_ret, "C03.tee", W(q), "returns " + short(v) + " with owner keeping " + str(kept),
                           why="the returned copy shares its iterator with the stream: they are not independent",
                           node=rnode)
        chk.require(rets, "%s: no return found" % q)
        # owner not used after the tee statement except for the rebind
        later = []
        for n in own_nodes(fn):
            if isinstance(n, (ast.Attribute, ast.Subscript)) and unparse(n) == owner and isinstance(n.ctx, ast.Load) \
                    and (n.lineno, n.col_offset) > (t.end_lineno, t.end_col_offset):
                later.append(n)
        chk.decide(not later, "C03.tee", W(q), "%s not read after being tee'd" % owner,
                   why="reading the tee'd iterator directly desynchronises the copies", node=t)

    # StreamTeeHub.copy: copies are made only while one is left; an exhausted hub raises like any other use
    from .c08 import leaves as _leaves2
    hc = repo.find(LS, "StreamTeeHub.copy")
    for lf in _leaves2(docstring_free(hc.body)):
        pol = None
        for c_, p_ in lf.conds:
            tx = unparse(c_)
            if tx in ("self._iters", "len(self._iters) > 0", "len(self._iters) != 0", "len(self._iters)"):
                pol = p_
            elif tx in ("not self._iters", "len(self._iters) == 0"):
                pol = not p_
            else:
                raise AnalysisError("StreamTeeHub.copy: guard not interpretable: %s" % tx)
        has_tee = any(isinstance(n, ast.Call) and canon_call(mod, n) == "itertools.tee" for s_ in lf.stmts for n in ast.walk(s_))
        raises_ = any(isinstance(s_, ast.Raise) or (isinstance(s_, ast.Expr) and unparse(s_.value) == "iter(self)")
                      or (isinstance(s_, ast.Return) and s_.value is not None and unparse(s_.value) in ("iter(self)", "Stream(iter(self))"))
                      for s_ in lf.stmts)
        if pol is False:
            # what runs before the statement that raises (iter(self) on a hub without copies is the IndexError)
            first_raise = [i_ for i_, s_ in enumerate(lf.stmts) if isinstance(s_, ast.Raise) or (
                isinstance(s_, ast.Expr) and unparse(s_.value) == "iter(self)")]
            if first_raise:
                has_tee = any(isinstance(n, ast.Call) and canon_call(mod, n) == "itertools.tee"
                              for s_ in lf.stmts[:first_raise[0]] for n in ast.walk(s_))
        if pol is True or (pol is None and has_tee):
            chk.decide(has_tee and isinstance(lf.stmts[-1], ast.Return), "C03.tee", W("StreamTeeHub.copy"),
                       "copies left: " + "; ".join(short(s_) for s_ in lf.stmts)[:120],
                       why="with a copy left, copy() must tee it and return the new Stream", node=hc)
        else:
            chk.decide(raises_ and not has_tee, "C03.tee", W("StreamTeeHub.copy"),
                       "no copy left: " + ("; ".join(short(s_) for s_ in lf.stmts)[:120] or "falls through"),
                       why="an exhausted hub must raise (iter(self) -> IndexError), not hand out None", node=hc)

    # ----------------------------------------------------------------- hub
    chk.rule("C03.hub", "StreamTeeHub.__init__ tees exactly its n; __iter__ pops one copy inside a try whose "
                        "IndexError handler raises IndexError; every Stream method that rebinds or reads self._data "
                        "is overridden by the hub; each re-wrapping override is Stream(self).<same method>(same args); "
                        "thub returns data itself on the non-Iterable arm and StreamTeeHub(data, n) otherwise")
    init = repo.find(LS, "StreamTeeHub.__init__")
    ip = [a.arg for a in init.args.args]
    chk.require(len(ip) == 3, "StreamTeeHub.__init__ signature unrecognised")
    tees = [n for n in own_nodes(init) if isinstance(n, ast.Call) and canon_call(mod, n) == "itertools.tee"]
    chk.require(len(tees) == 1, "StreamTeeHub.__init__: tee call not found")
    t = tees[0]
    good = len(t.args) == 2 and isinstance(t.args[1], ast.Name) and t.args[1].id == ip[2]
    chk.decide(good, "C03.hub", W("StreamTeeHub.__init__"), "tee count: " + short(t),
               why="a hub built for n uses must hold exactly n copies", node=t)
    stored = [n for n in own_nodes(init) if isinstance(n, ast.Assign) and unparse(n.targets[0]) == "self._iters"]
    def _single_use_arm(a_):
        """[source] stored under 'n == 1': one use needs no split - the source iterator is that use"""
        v_ = a_.value
        if not (isinstance(v_, ast.List) and len(v_.elts) == 1 and unparse(v_.elts[0]) == unparse(t.args[0])):
            return False
        par_ = getattr(a_, "_parent", None)
        if not isinstance(par_, ast.If):
            return False
        tx_ = unparse(par_.test)
        one, other = ("%s == 1" % ip[2], "1 == %s" % ip[2]), ("%s != 1" % ip[2], "1 != %s" % ip[2], "%s > 1" % ip[2])
        return (tx_ in one and a_ in par_.body) or (tx_ in other and a_ in par_.orelse)
    with_tee = [a_ for a_ in stored if t in list(ast.walk(a_.value))]
    chk.decide(len(with_tee) == 1 and all(a_ in with_tee or _single_use_arm(a_) for a_ in stored), "C03.hub",
               W("StreamTeeHub.__init__"),
               "self._iters holds the tee outputs: " + ("; ".join(short(a_) for a_ in stored) if stored else "<none>"),
               why="the copies handed out must be the tee outputs (for a single use: the source itself)", node=init)
    # the source of the tee is the raw iterator that Stream.__init__ built from data (super call first)
    ibody = docstring_free(init.body)

    def _is_super(e, attr):
        return isinstance(e, ast.Call) and isinstance(e.func, ast.Attribute) and e.func.attr == attr \
            and isinstance(e.func.value, ast.Call) and unparse(e.func.value.func) == "super" \
            and [unparse(a_) for a_ in e.func.value.args] in ([], ["StreamTeeHub", ip[0]]) and not e.func.value.keywords
    sup = [(i_, st_) for i_, st_ in enumerate(ibody) if isinstance(st_, ast.Expr) and (
        (_is_super(st_.value, "__init__") and [unparse(a_) for a_ in st_.value.args] == [ip[1]])
        or (isinstance(st_.value, ast.Call) and base_name(canon(mod, st_.value.func) or "") == "Stream.__init__"
            and [unparse(a_) for a_ in st_.value.args] == [ip[0], ip[1]]))]
    tee_stmt = [i_ for i_, st_ in enumerate(ibody) if t in list(ast.walk(st_))]
    chk.decide(len(sup) == 1 and tee_stmt and sup[0][0] < tee_stmt[0], "C03.hub", W("StreamTeeHub.__init__"),
               "Stream.__init__(data) runs before the tee: " + (short(sup[0][1]) if sup else "<missing>"),
               why="without it the hub has no source iterator to copy", node=init)
    src_e = t.args[0] if t.args else None
    if isinstance(src_e, ast.Name):
        defs_ = [st_ for st_ in ibody if isinstance(st_, ast.Assign) and unparse(st_.targets[0]) == src_e.id]
        src_e = defs_[-1].value if len(defs_) == 1 else None
    chk.decide(src_e is not None and (_is_super(src_e, "__iter__") and not src_e.args or _self_data(src_e)),
               "C03.hub", W("StreamTeeHub.__init__"), "tee source is the raw iterator: " + (unparse(src_e) if src_e is not None else "?"),
               why="iter(self) would already pop a copy; anything else is not the data given", node=t)
    src_ok = not any(_self_data(n) and isinstance(n.ctx, ast.Store) for n in own_nodes(init))
    chk.decide(src_ok, "C03.hub", W("StreamTeeHub.__init__"), "self._data set only by Stream.__init__ (super call)",
               why="hub source must be the iterator Stream.__init__ builds", node=init)

    it_ = repo.find(LS, "StreamTeeHub.__iter__")
    tries = [n for n in own_nodes(it_) if isinstance(n, ast.Try)]
    pops = [n for n in own_nodes(it_) if isinstance(n, ast.Call) and isinstance(n.func, ast.Attribute)
            and n.func.attr == "pop" and unparse(n.func.value) == "self._iters"]
    chk.require(len(pops) == 1, "StreamTeeHub.__iter__: pop of self._iters not found")
    good = False
    why = "exhausted hub must raise IndexError"
    if tries:
        tr = tries[0]
        inside = pops[0] in [x for s in tr.body for x in ast.walk(s)]
        hs = [h for h in tr.handlers if h.type is not None and "IndexError" in unparse(h.type)]
        raises = [n for h in hs for s in h.body for n in ast.walk(s) if isinstance(n, ast.Raise)]
        good = inside and bool(hs) and bool(raises) and all(
            n.exc is None or "IndexError" in unparse(n.exc) for n in raises)
    else:
        # no try at all: list.pop raises IndexError by itself
        good = True
        why = ""
    chk.decide(good, "C03.hub", W("StreamTeeHub.__iter__"), "pop inside try/except IndexError -> raise IndexError",
               why=why, node=it_)
    rets = [n for n in own_nodes(it_) if isinstance(n, ast.Return)]
    chk.decide(all(r.value is not None and pops[0] in list(ast.walk(r.value)) for r in rets) and rets,
               "C03.hub", W("StreamTeeHub.__iter__"), "returns the popped copy",
               why="each use of the hub must receive its own copy", node=it_)

    # methods touching self._data
    touching = []
    for fn in stream.body:
        if isinstance(fn, FuncTypes) and fn.name not in ("__init__", "__iter__"):
            if any(_self_data(n) for n in ast.walk(fn)):
                touching.append(fn.name)
    overridden = set()
    for st in hub.body:
        if isinstance(st, FuncTypes):
            overridden.add(st.name)
        elif isinstance(st, ast.Assign):
            for tg in st.targets:
                if isinstance(tg, ast.Name):
                    overridden.add(tg.id)
    advisory = {"__getattr__", "__call__"}
    chk.facts["stream_methods_touching__data"] = touching
    chk.facts["hub_overrides"] = sorted(overridden)
    for name in touching:
        if name in advisory:
            chk.note("C03.hub", W("Stream." + name), "reads self._data directly; on a StreamTeeHub this bypasses the "
                     "tee copies (hubs are not among the operand kinds of the property: advisory)")
            continue
        chk.decide(name in overridden, "C03.hub", W("StreamTeeHub"), "override of Stream.%s (touches self._data)" % name,
                   why="inherited method would rebind/consume the hub's raw iterator behind its tee copies",
                   node=hub)
    chk.floor("C03.hub", len([n for n in touching if n not in advisory]), 7, "Stream methods touching self._data")
    # re-wrapping lambdas
    for st in hub.body:
        if isinstance(st, ast.Assign) and len(st.targets) == 1 and isinstance(st.targets[0], ast.Name):
            name = st.targets[0].id
            lams = [n for n in ast.walk(st.value) if isinstance(n, ast.Lambda)]
            if not lams:
                continue
            lam = lams[0]
            body = lam.body
            lp = [a.arg for a in lam.args.args]
            good = isinstance(body, ast.Call) and isinstance(body.func, ast.Attribute) and body.func.attr == name \
                and isinstance(body.func.value, ast.Call) and base_name(canon(mod, body.func.value.func)) == "Stream" \
                and [unparse(a) for a in body.func.value.args] == lp[:1]
            if good:
                fwd = [unparse(a) for a in body.args]
                want = lp[1:] + (["*" + lam.args.vararg.arg] if lam.args.vararg else [])
                good = fwd == want
            chk.decide(good, "C03.hub", W("StreamTeeHub." + name), short(st),
                       why="the override must consume one copy via Stream(self) and apply the same method with the "
                           "same arguments", node=st)
    th = repo.find(LS, "thub")
    tp = [a.arg for a in th.args.args]
    r = docstring_free(th.body)[-1]
    good = False
    if isinstance(r, ast.Return) and isinstance(r.value, ast.IfExp):
        v = r.value
        test_ok = unparse(v.test) == "isinstance(%s, Iterable)" % tp[0]
        then_ok = isinstance(v.body, ast.Call) and base_name(canon(mod, v.body.func)) == "StreamTeeHub" \
            and [unparse(a) for a in v.body.args] == tp
        else_ok = isinstance(v.orelse, ast.Name) and v.orelse.id == tp[0]
        good = test_ok and then_ok and else_ok
    else:
        # statement form: if isinstance(data, Iterable): return StreamTeeHub(data, n) / return data
        txt = unparse(th)
        good = "return StreamTeeHub(%s, %s)" % tuple(tp) in txt and "return %s" % tp[0] in txt
    chk.decide(good, "C03.hub", W("thub"), short(r),
               why="thub must be StreamTeeHub(data, n) for iterables and the object itself otherwise", node=r)

    # ----------------------------------------------------- in-place methods
    chk.rule("C03.inplace", "skip/limit/append/map/filter rebind self._data to a lazy iterator derived from the old "
                            "self._data, with the documented argument order and a count that is n after rounding "
                            "only, and return self")
    for name in ("skip", "limit", "append", "map", "filter"):
        fn = repo.find(LS, "Stream." + name)
        body = docstring_free(fn.body)
        rets = [n for n in own_nodes(fn) if isinstance(n, ast.Return)]
        chk.decide(len(rets) == 1 and unparse(rets[0].value) == "self" and body[-1] is rets[0],
                   "C03.inplace", W("Stream." + name), "returns self", why="in-place method must return the stream",
                   node=fn)
        stores = [n for n in own_nodes(fn) if isinstance(n, ast.Assign) and any(_self_data(t) for t in n.targets)]
        chk.decide(len(stores) == 1, "C03.inplace", W("Stream." + name), "rebinds self._data exactly once",
                   why="method has no effect / effect applied twice", node=fn)
        if len(stores) != 1:
            continue
        st = stores[0]
        v = st.value
        par = [a.arg for a in fn.args.args][1:]
        if name in ("map", "filter"):
            want = name
            good = isinstance(v, ast.Call) and canon_call(mod, v) == want and len(v.args) == 2 \
                and isinstance(v.args[0], ast.Name) and v.args[0].id == par[0] and _self_data(v.args[1])
            chk.decide(good, "C03.inplace", W("Stream." + name), short(st),
                       why="must be the lazy builtin %s(func, self._data)" % want, node=st)
        elif name == "append":
            good = isinstance(v, ast.Call) and canon_call(mod, v) == "itertools.chain" and len(v.args) == 2 \
                and _self_data(v.args[0]) and fn.args.vararg is not None \
                and ("*" + fn.args.vararg.arg) in unparse(v.args[1]) and not _self_data(v.args[1])
            chk.decide(good, "C03.inplace", W("Stream.append"), short(st),
                       why="must chain the old contents first and the appended streams after", node=st)
        else:   # skip / limit
            # the old iterator must be what the new one reads from
            helper_args = []
            if isinstance(v, ast.Call) and isinstance(v.func, ast.Name):
                inner = [f for f in fn.body if isinstance(f, FuncTypes) and f.name == v.func.id]
                if not inner:
                    # the generator as a module-level helper that is handed the old iterator (and the count, under
                    # the same name)
                    mf_ = repo.find("lazy_stream", v.func.id, required=False)
                    if isinstance(mf_, FuncTypes) and any(isinstance(n_, (ast.Yield, ast.YieldFrom)) for n_ in ast.walk(mf_)):
                        inner = [mf_]
                if inner:
                    helper_args = [unparse(a) for a in v.args]
                    scope = inner[0]
                else:
                    scope = fn
            else:
                scope = fn
            counts = _count_exprs(scope, mod)
            chk.require(counts, "Stream.%s: no range()/islice() bound found - idiom not recognised" % name)
            for c in counts:
                chk.decide(_is_rounding_of(c, par[0]), "C03.inplace", W("Stream." + name), "count: " + unparse(c),
                           why="%s(n) must act on exactly n items (after rounding), no offset" % name, node=c)
                par_ = getattr(c, "_parent", None)
                if isinstance(par_, ast.Call) and canon_call(mod, par_) == "itertools.islice":
                    chk.decide(_clamped(c), "C03.inplace", W("Stream." + name), "count clamped at 0: " + unparse(c),
                               why="itertools.islice raises ValueError for a negative bound: %s(n) with n < 0 must "
                                   "behave as n = 0" % name, node=c)
            if name == "limit":
                good = isinstance(v, ast.Call) and canon_call(mod, v) == "itertools.islice" and len(v.args) == 2 \
                    and not v.keywords and _self_data(v.args[0])
                chk.decide(good, "C03.inplace", W("Stream.limit"), short(st),
                           why="limit(n) keeps the first n items: islice(self._data, n) with a stop bound only", node=st)
            elif scope is not fn:
                # skip through a nested generator g(data): [drop the first K items of data] ; pass every other item on
                gp = [a.arg for a in scope.args.args]
                gb = docstring_free(scope.body)
                ys = [n for n in own_nodes(scope) if isinstance(n, (ast.Yield, ast.YieldFrom))]
                passes_on = False
                if gb and len(gp) >= 1 and helper_args[:1] == ["self._data"] and helper_args[1:] == gp[1:] \
                        and len(helper_args) == len(gp):
                    lastst = gb[-1]
                    if isinstance(lastst, ast.For) and not lastst.orelse and isinstance(lastst.target, ast.Name) \
                            and unparse(lastst.iter) == gp[0] and len(lastst.body) == 1 \
                            and isinstance(lastst.body[0], ast.Expr) and isinstance(lastst.body[0].value, ast.Yield) \
                            and unparse(lastst.body[0].value.value) == lastst.target.id:
                        passes_on = True
                    elif isinstance(lastst, ast.Expr) and isinstance(lastst.value, ast.YieldFrom) \
                            and unparse(lastst.value.value) == gp[0]:
                        passes_on = True
                chk.decide(passes_on and len(ys) == 1, "C03.inplace", W("Stream.skip"),
                           "after the dropped items every item of the old iterator is passed on: %s"
                           % (short(gb[-1]) if gb else "-"),
                           why="skip(n) must yield exactly the items after the first n, each once, in order "
                               "(%d yield(s) in the generator)" % len(ys), node=scope)
                drops = [st_ for st_ in gb[:-1]]
                ok_drop = len(drops) == 1 and (
                    (isinstance(drops[0], ast.For) and not drops[0].orelse
                     and all(isinstance(b_, ast.Pass) for b_ in drops[0].body)
                     and isinstance(drops[0].iter, ast.Call) and canon_call(mod, drops[0].iter) == "itertools.islice"
                     and len(drops[0].iter.args) == 2 and unparse(drops[0].iter.args[0]) == (gp[0] if gp else "?"))
                    or (isinstance(drops[0], ast.Expr) and isinstance(drops[0].value, ast.Call)
                        and canon_call(mod, drops[0].value) in ("collections.deque", "deque")
                        and len(drops[0].value.args) >= 1 and isinstance(drops[0].value.args[0], ast.Call)
                        and canon_call(mod, drops[0].value.args[0]) == "itertools.islice"
                        and len(drops[0].value.args[0].args) == 2
                        and unparse(drops[0].value.args[0].args[0]) == (gp[0] if gp else "?")
                        and [unparse(k_.value) for k_ in drops[0].value.keywords if k_.arg == "maxlen"] == ["0"]))
                chk.decide(ok_drop, "C03.inplace", W("Stream.skip"),
                           "dropped prefix: %s" % ("; ".join(short(d_) for d_ in drops) or "nothing"),
                           why="the first n items of the old iterator are pulled and thrown away, once, inside the "
                               "generator (lazily)", node=scope)
            reads_old = any(_self_data(n) and isinstance(n.ctx, ast.Load) for n in own_nodes(fn)) \
                or "self._data" in helper_args
            chk.decide(reads_old, "C03.inplace", W("Stream." + name), "new iterator derived from old self._data",
                       why="items would come from somewhere else", node=st)

    # ------------------------------------------------------------ encapsulation
    chk.rule("C03.encapsulation", "the raw iterator of a Stream (attribute _data of anything but a Poly) is touched only "
                                  "inside the Stream classes of lazy_stream: everybody else goes through iter(), so that "
                                  "a StreamTeeHub hands out its own tee copies")
    nenc = 0
    for m in repo.modules.values():
        if m.name in ("lazy_poly",):
            continue            # Poly._data is a different store (coefficients), see C07
        for n in ast.walk(m.tree):
            if isinstance(n, ast.Attribute) and n.attr == "_data":
                cls_ = None
                p_ = getattr(n, "_parent", None)
                while p_ is not None:
                    if isinstance(p_, ast.ClassDef):
                        cls_ = p_.name
                        break
                    p_ = getattr(p_, "_parent", None)
                inside = m.name == LS and cls_ in ("Stream", "StreamTeeHub", "ControlStream", "Streamix")
                if m.name == "lazy_filters" and "poly" in unparse(n.value):
                    continue
                nenc += 1
                if not inside:
                    from ..core import enclosing_qual
                    chk.bad("C03.encapsulation", "%s:%s" % (m.relpath, enclosing_qual(n)), short(getattr(n, "_parent", n)),
                            "reaches into the raw iterator of a Stream from outside the class: on a StreamTeeHub this "
                            "bypasses __iter__ (the tee copies), so copies are no longer independent and the hub hands "
                            "out more than n uses", node=n)
    chk.ok_many("C03.encapsulation", W("Stream"), "_data accesses confined to the Stream classes", max(nenc, 1))

    # ------------------------------------------------------ lazy_itertools.tee
    chk.rule("C03.itee", "lazy_itertools.tee returns n Streams over itertools.tee(data, n) for Stream/Iterator "
                         "inputs and the object repeated n times otherwise")
    im = repo.mod("lazy_itertools")
    tee = repo.find("lazy_itertools", "tee")
    tpar = [a.arg for a in tee.args.args]
    calls = [n for n in own_nodes(tee) if isinstance(n, ast.Call) and canon_call(im, n) == "itertools.tee"]
    chk.require(len(calls) == 1, "lazy_itertools.tee: itertools.tee call not found")
    c = calls[0]
    chk.decide([unparse(a) for a in c.args] == tpar, "C03.itee", "%s:tee" % im.relpath, short(c),
               why="must tee the given data n times", node=c)
    wraps_stream = False
    p = getattr(c, "_parent", None)
    while p is not None and p is not tee:
        if isinstance(p, (ast.GeneratorExp, ast.ListComp)):
            e = p.elt
            wraps_stream = isinstance(e, ast.Call) and base_name(canon(im, e.func)) == "Stream" \
                and unparse(e.args[0]) == p.generators[0].target.id
        p = getattr(p, "_parent", None)
    chk.decide(wraps_stream, "C03.itee", "%s:tee" % im.relpath, "each tee output wrapped in its own Stream",
               why="outputs must be independent Streams", node=c)
    # which arm for which input, and the default count
    for lf in _leaves2(docstring_free(tee.body)):
        pol = None
        for c_, p_ in lf.conds:
            tx = unparse(c_)
            if tx in ("isinstance(%s, (Stream, Iterator))" % tpar[0], "isinstance(%s, (Iterator, Stream))" % tpar[0]):
                pol = p_
            elif tx in ("not isinstance(%s, (Stream, Iterator))" % tpar[0],):
                pol = not p_
            else:
                raise AnalysisError("lazy_itertools.tee: guard not interpretable: %s" % tx)
        uses_tee = any(n is c for s_ in lf.stmts for n in ast.walk(s_))
        chk.decide(pol is not None and uses_tee == pol, "C03.itee", "%s:tee" % im.relpath,
                   "%s input -> %s" % ("Stream/Iterator" if pol else "other", "itertools.tee copies" if uses_tee else "the object repeated"),
                   why="iterators must be tee'd (not shared); anything else is repeated as it is", node=tee)
    dflt = tee.args.defaults
    chk.decide(len(dflt) == 1 and isinstance(dflt[0], ast.Constant) and dflt[0].value == 2, "C03.itee",
               "%s:tee" % im.relpath, "default n = " + (unparse(dflt[0]) if dflt else "<none>"),
               why="tee(data) is a pair, like itertools.tee", node=tee)
    rng = [n for n in own_nodes(tee) if isinstance(n, ast.Call) and canon_call(im, n) == "range"]
    chk.decide(len(rng) == 1 and [unparse(a) for a in rng[0].args] == tpar[1:], "C03.itee", "%s:tee" % im.relpath,
               "non-iterator arm repeats the object n times: " + (short(rng[0]) if rng else "<none>"),
               why="must return n references", node=tee)
