"""C16  The mixer starts each event at its cumulative time and sums what plays."""
import ast

from ..core import (AnalysisError, FuncTypes, unparse, short, canon, canon_call, base_name, own_nodes,
                    docstring_free)
from ..ratfun import RF, Evaluator, Inconclusive
from ..e3 import E3, describe

EXPLANATION = (
    "Static analysis of Streamix and ControlStream (lazy_stream.py). add: the 'delta < 0 -> ValueError' guard dominates "
    "the enqueue of (delta, iter(data)) at the right end of the queue. data_generator: the time counter starts at 0.5 "
    "(nearest-sample rounding) and is afterwards only changed relatively - 'count -= delta' when an event starts and "
    "'count += 1' after each yield - never re-assigned, so fractional deltas cannot drift; events start while the queue "
    "is non-empty and count >= the first pending delta, taken from the left (FIFO); the output is zero plus next() of "
    "every playing iterator, each protected against StopIteration; finished iterators are collected and removed "
    "outside the loop that iterates the playing list (no list mutated while iterated); the stop test reads keep, the "
    "playing list and the pending queue and sits between summation and the single yield of the iteration. "
    "ControlStream yields an attribute load evaluated inside its loop (the value most recently assigned). Not decided: "
    "the numeric start sample of each event, the output length.")

UNDECIDED = ["numeric start times / output length (value-level consequences of the counter discipline)"]

LS = "lazy_stream"
MUTATORS = ("remove", "pop", "append", "insert", "extend", "clear", "popleft", "appendleft", "sort", "reverse")


def run(chk, repo):
    mod = repo.mod(LS)
    W = lambda q: "%s:%s" % (mod.relpath, q)

    chk.rule("C16.add", "Streamix.add: 'if delta < 0: raise ValueError' precedes (dominates) "
                        "self._not_playing.append((delta, iter(data)))")
    add = repo.find(LS, "Streamix.add")
    ab = docstring_free(add.body)
    ok = len(ab) >= 2 and isinstance(ab[0], ast.If) and unparse(ab[0].test) in ("delta < 0", "0 > delta") \
        and isinstance(ab[0].body[0], ast.Raise) and "ValueError" in unparse(ab[0].body[0]) and not ab[0].orelse
    chk.decide(ok, "C16.add", W("Streamix.add"), short(ab[0]) if ab else "?", why="a negative delta must be rejected "
               "before anything is queued", node=add)
    loc_ = {unparse(s_.targets[0]): unparse(s_.value) for s_ in ab[1:-1] if isinstance(s_, ast.Assign)
            and len(s_.targets) == 1 and isinstance(s_.targets[0], ast.Name)}
    lastc = ab[-1].value if ab and isinstance(ab[-1], ast.Expr) and isinstance(ab[-1].value, ast.Call) else None
    arg_ = None
    if lastc is not None and unparse(lastc.func) == "self._not_playing.append" and len(lastc.args) == 1:
        arg_ = unparse(lastc.args[0])
        arg_ = loc_.get(arg_, arg_)
    ok = arg_ == "(delta, iter(data))" and len(ab) - 2 == len(loc_)
    chk.decide(ok, "C16.add", W("Streamix.add"), short(ab[-1]), why="the event is queued last, as (delta, iterator)", node=add)

    chk.rule("C16.init", "queues: _not_playing = deque(), _playing = [], keep stored; the Stream wraps data_generator()")
    ini = repo.find(LS, "Streamix.__init__")
    it = {unparse(s.targets[0]): unparse(s.value) for s in docstring_free(ini.body) if isinstance(s, ast.Assign)}
    ok = it.get("self._not_playing") == "deque()" and it.get("self._playing") == "[]" and it.get("self.keep") == "keep"
    chk.decide(ok, "C16.init", W("Streamix.__init__"), str(it), why="pending queue, playing list and keep flag", node=ini)
    last = docstring_free(ini.body)[-1]
    chk.decide(unparse(last) in ("super(Streamix, self).__init__(data_generator())", "super().__init__(data_generator())"),
               "C16.init", W("Streamix.__init__"), short(last), why="mixer output is the generator", node=last)

    dg = repo.find(LS, "Streamix.__init__.data_generator")
    Wd = W("Streamix.__init__.data_generator")
    body = docstring_free(dg.body)
    chk.rule("C16.counter", "count = 0.5 once before the loop; inside the loop only 'count -= delta' (in the start loop) "
                            "and 'count += 1' (after the yield); never re-assigned")
    inits = [s for s in body if isinstance(s, ast.Assign) and unparse(s.targets[0]) == "count"]
    ok = len(inits) == 1 and Evaluator().ev(inits[0].value) == RF.const("1/2")
    chk.decide(ok, "C16.counter", Wd, short(inits[0]) if inits else "count init missing",
               why="0.5 makes 'count >= delta' round start times to the nearest sample", node=dg)
    main = [s for s in body if isinstance(s, ast.While)]
    chk.require(len(main) == 1 and isinstance(main[0].test, ast.Constant) and main[0].test.value is True,
                "data_generator: 'while True' not found")
    mw = main[0]
    writes = [n for n in ast.walk(mw) if (isinstance(n, ast.Assign) and any(unparse(t) == "count" for t in n.targets))
              or (isinstance(n, ast.AugAssign) and unparse(n.target) == "count")]
    assigns = [n for n in writes if isinstance(n, ast.Assign)]
    chk.decide(not assigns, "C16.counter", Wd, "count is never re-assigned inside the loop",
               why="an absolute re-assignment (%s) discards the fractional remainder: start times drift"
                   % [short(a) for a in assigns], node=mw)
    augs = sorted((type(n.op).__name__, unparse(n.value)) for n in writes if isinstance(n, ast.AugAssign))
    chk.decide(augs == [("Add", "1.0"), ("Sub", "delta")] or augs == [("Add", "1"), ("Sub", "delta")], "C16.counter", Wd,
               "relative updates: %s" % augs, why="exactly 'count -= delta' per started event and 'count += 1' per sample",
               node=mw)

    chk.rule("C16.start", "start loop: while self._not_playing and count >= self._not_playing[0][0]: (delta, newdata) = "
                          "popleft(); playing.append(newdata); count -= delta")
    inner = [s for s in mw.body if isinstance(s, ast.While)]
    if len(inner) > 1:
        # several queues may be drained by while loops: the start loop is the one that looks at the pending events
        inner = [s for s in inner if "_not_playing" in unparse(s.test) or "count" in unparse(s.test)]
    chk.require(len(inner) == 1, "data_generator: start loop not found")
    sw = inner[0]
    t = sw.test
    ok = isinstance(t, ast.BoolOp) and isinstance(t.op, ast.And) and len(t.values) == 2 \
        and unparse(t.values[0]) == "self._not_playing" \
        and unparse(t.values[1]) in ("count >= self._not_playing[0][0]", "self._not_playing[0][0] <= count")
    chk.decide(ok, "C16.start", Wd, "while " + unparse(t), why="an event starts as soon as (and not before) the counter "
               "reaches its delta; the queue must be non-empty", node=sw)
    st = [unparse(s) for s in sw.body]
    ok = st == ["delta, newdata = self._not_playing.popleft()", "self._playing.append(newdata)", "count -= delta"]
    chk.decide(ok, "C16.start", Wd, " ; ".join(st), why="first-in first-out start, the iterator joins the playing list, "
               "the counter is reduced by the event's own delta", node=sw)
    chk.decide(mw.body[0] is sw, "C16.start", Wd, "events are started before the sample is summed",
               why="an event due at n must contribute to sample n", node=mw)

    chk.rule("C16.sum", "data = zero; for snd in self._playing: try: data += next(snd) except StopIteration: remember; "
                        "finished iterators are removed outside that loop; no list is mutated while iterated")
    d0 = [s for s in mw.body if isinstance(s, ast.Assign) and unparse(s.targets[0]) == "data"]
    chk.decide(len(d0) == 1 and unparse(d0[0].value) == "zero", "C16.sum", Wd, short(d0[0]) if d0 else "data = zero missing",
               why="every sample starts from the zero value", node=mw)
    fl = [s for s in mw.body if isinstance(s, ast.For) and unparse(s.iter) == "self._playing"]
    chk.require(len(fl) == 1, "data_generator: summation loop not found")
    sl = fl[0]
    ok = len(sl.body) == 1 and isinstance(sl.body[0], ast.Try)
    if ok:
        tr = sl.body[0]
        ok = [unparse(s) for s in tr.body] == ["data += next(%s)" % unparse(sl.target)] and len(tr.handlers) == 1 \
            and unparse(tr.handlers[0].type) == "StopIteration" \
            and [unparse(s) for s in tr.handlers[0].body] == ["to_remove.append(%s)" % unparse(sl.target)]
    chk.decide(ok, "C16.sum", Wd, short(sl.body[0], 120), why="each playing iterator contributes its next item; an "
               "exhausted one is remembered for removal (and must not end the mixer)", node=sl)
    nloops = 0
    for loop in [n for n in ast.walk(dg) if isinstance(n, ast.For)]:
        nloops += 1
        target = unparse(loop.iter)
        muts = [n for n in ast.walk(loop) if isinstance(n, ast.Call) and isinstance(n.func, ast.Attribute)
                and n.func.attr in MUTATORS and unparse(n.func.value) == target]
        dels = [n for n in ast.walk(loop) if isinstance(n, ast.Delete) and any(target in unparse(t) for t in n.targets)]
        chk.decide(not muts and not dels, "C16.sum", Wd, "for ... in %s: body does not mutate %s" % (target, target),
                   why="mutating a list while iterating it skips elements: %s" % [short(m) for m in muts + dels], node=loop)
    # removal: every remembered iterator leaves the playing list after the summation loop, and the remembered list is
    # empty again when the next summation starts (reset after the removal, or created anew before each summation)
    rm = [s for s in mw.body if isinstance(s, ast.If) and unparse(s.test) == "to_remove"]
    rm_block = rm[0].body if rm else list(mw.body)
    rloops = [s for s in rm_block if isinstance(s, ast.For) and unparse(s.iter) == "to_remove"]
    resets = ("to_remove = []", "del to_remove[:]", "to_remove[:] = []", "to_remove.clear()")
    okloop = len(rloops) == 1 and [unparse(s) for s in rloops[0].body] == ["self._playing.remove(%s)" % unparse(rloops[0].target)]
    anchor = rm[0] if rm else (rloops[0] if rloops else None)
    after_sum = anchor is not None and mw.body.index(anchor) > mw.body.index(sl)
    reset_after = any(unparse(s) in resets for s in (rm[0].body if rm else mw.body[mw.body.index(anchor) + 1:] if anchor is not None else [])
                      if not isinstance(s, ast.For))
    fresh_before = any(unparse(s) == "to_remove = []" for s in mw.body[:mw.body.index(sl)])
    init_before = any(isinstance(s, ast.Assign) and unparse(s) == "to_remove = []" for s in body)
    ok = okloop and after_sum and (fresh_before or (reset_after and init_before))
    if not rloops:
        # the remembered iterators drained from a queue:  while to_remove: snd = to_remove.popleft() ; playing.remove(snd)
        dl = [s for s in mw.body if isinstance(s, ast.While) and unparse(s.test) == "to_remove" and not s.orelse]
        if len(dl) == 1 and len(dl[0].body) == 2 and isinstance(dl[0].body[0], ast.Assign) \
                and isinstance(dl[0].body[0].targets[0], ast.Name) \
                and unparse(dl[0].body[0].value) in ("to_remove.popleft()", "to_remove.pop(0)", "to_remove.pop()"):
            x_ = dl[0].body[0].targets[0].id
            anchor = dl[0]
            init_q = any(isinstance(s_, ast.Assign) and unparse(s_.targets[0]) == "to_remove"
                         and unparse(s_.value) in ("deque()", "[]", "collections.deque()") for s_ in body + list(mw.body[:mw.body.index(sl)]))
            ok = unparse(dl[0].body[1]) == "self._playing.remove(%s)" % x_ and mw.body.index(dl[0]) > mw.body.index(sl) and init_q
    chk.decide(ok, "C16.sum", Wd, short(anchor, 120) if anchor is not None else "removal block missing",
               why="finished iterators leave the playing list after the summation loop, and the list is reset", node=mw)
    if not rm and anchor is not None:
        rm = [anchor]

    chk.rule("C16.stop", "stop test 'not (self.keep or self._playing or self._not_playing)' -> break, placed after the "
                         "removal and before the single 'yield data' of the iteration")
    brk = [s for s in mw.body if isinstance(s, ast.If) and not s.orelse and len(s.body) == 1 and (
        isinstance(s.body[0], ast.Break) or (isinstance(s.body[0], ast.Return) and s.body[0].value is None))]
    ok = len(brk) == 1
    if ok:
        # true exactly when keep, the playing list and the pending queue are all false (any spelling)
        atoms = ["self.keep", "self._playing", "self._not_playing"]

        def tv(e, asg):
            if isinstance(e, ast.UnaryOp) and isinstance(e.op, ast.Not):
                return not tv(e.operand, asg)
            if isinstance(e, ast.BoolOp):
                vals = [tv(v, asg) for v in e.values]
                return all(vals) if isinstance(e.op, ast.And) else any(vals)
            if unparse(e) in asg:
                return asg[unparse(e)]
            raise KeyError(unparse(e))
        import itertools as _it
        try:
            ok = all(tv(brk[0].test, dict(zip(atoms, vals))) == (not any(vals))
                     for vals in _it.product((True, False), repeat=3))
        except KeyError:
            ok = False
    chk.decide(ok, "C16.stop", Wd, short(brk[0]) if brk else "stop test missing",
               why="the mixer ends exactly when nothing plays, nothing is pending and keep is off", node=mw)
    ys = [s for s in mw.body if isinstance(s, ast.Expr) and isinstance(s.value, ast.Yield)]
    all_y = [n for n in ast.walk(dg) if isinstance(n, ast.Yield)]
    ok = len(ys) == 1 and len(all_y) == 1 and unparse(ys[0].value.value) == "data"
    chk.decide(ok, "C16.stop", Wd, "one 'yield data' per iteration", why="exactly one output sample per time step", node=mw)
    if ok and brk and rm:
        order = [mw.body.index(sw), mw.body.index(d0[0]) if d0 else -1, mw.body.index(sl), mw.body.index(rm[0]),
                 mw.body.index(brk[0]), mw.body.index(ys[0])]
        incs = [s for s in mw.body if isinstance(s, ast.AugAssign) and unparse(s.target) == "count"]
        ok2 = order == sorted(order) and incs and mw.body.index(incs[0]) > mw.body.index(ys[0])
        chk.decide(ok2, "C16.stop", Wd, "order: start, sum, remove, stop test, yield, count += 1",
               why="the stop test must see the lists after finished events were removed and before the sample is "
                   "emitted; time advances after the yield", node=mw)
    e3 = E3([(m.name, m.tree) for m in repo.modules.values()])
    for s in [s for s in e3.scan(dg) if s.in_generator]:
        chk.decide(not s.escapes, "E3", Wd, describe(s), why="an exhausted event would raise RuntimeError in the mixer", node=s.node)

    chk.rule("C16.control", "ControlStream: stores value; its generator yields the attribute self.value loaded inside the "
                            "endless loop")
    cs = repo.find(LS, "ControlStream.__init__")
    cb = docstring_free(cs.body)
    chk.decide(unparse(cb[0]) == "self.value = value", "C16.control", W("ControlStream.__init__"), short(cb[0]),
               why="initial value stored as attribute", node=cs)
    inits_ = [st for st in cb if isinstance(st, ast.Expr) and isinstance(st.value, ast.Call)
              and isinstance(st.value.func, ast.Attribute) and st.value.func.attr == "__init__"]
    ok_i = len(inits_) == 1 and cb[-1] is inits_[0] and len(inits_[0].value.args) == 1 and (
        unparse(inits_[0].value.func.value) in ("super(ControlStream, self)", "super()")
        or unparse(inits_[0].value.func) == "Stream.__init__")
    chk.decide(ok_i, "C16.control", W("ControlStream.__init__"), short(inits_[0]) if inits_ else "no base constructor call",
               why="the stream's data must be the generator that reads the attribute", node=cs)
    sx = repo.find(LS, "Streamix.__init__")
    sd = [unparse(d) for d in sx.args.defaults]
    chk.decide(sd == ["False", "0.0"], "C16.init", W("Streamix.__init__"), "defaults (keep, zero) = %s" % sd,
               why="a mixer ends with its last sound unless keep; silence is 0.", node=sx)
    g = repo.find(LS, "ControlStream.__init__.data_generator", required=False)
    if g is not None:
        gb = docstring_free(g.body)
        ok = len(gb) == 1 and isinstance(gb[0], ast.While) and isinstance(gb[0].test, ast.Constant) and gb[0].test.value is True \
            and [unparse(s) for s in gb[0].body] == ["yield self.value"]
        chk.decide(ok, "C16.control", W("ControlStream.__init__.data_generator"), "; ".join(unparse(s) for s in gb),
                   why="the attribute must be read at every step (a value hoisted out of the loop never changes)", node=g)
    else:
        # an endless generator expression whose element is the attribute load: evaluated at every step as well
        ci = repo.find(LS, "ControlStream.__init__")
        gens = [n for n in ast.walk(ci) if isinstance(n, ast.GeneratorExp)]
        sent = [n for n in ast.walk(ci) if isinstance(n, ast.Call) and isinstance(n.func, ast.Name) and n.func.id == "iter"
                and len(n.args) == 2 and not n.keywords]
        if not gens and sent:
            # iter(callable, sentinel) ends for good the first time the callable returns the sentinel
            chk.bad("C16.control", W("ControlStream.__init__"), short(sent[0]),
                    "iter(f, sentinel) stops as soon as f() == sentinel: once %s is the current value the stream ends "
                    "(a ControlStream yields, at every sample and for ever, the value most recently assigned - whatever "
                    "that value is)" % unparse(sent[0].args[1]), node=sent[0])
            gens = None
        if gens is not None:
            chk.require(len(gens) == 1, "ControlStream.__init__: neither data_generator nor a generator expression found")
            ge = gens[0]
            src_ = unparse(ge.generators[0].iter)
            for a_ in ast.walk(ci):
                if isinstance(a_, ast.Assign) and len(a_.targets) == 1 and unparse(a_.targets[0]) == src_:
                    src_ = unparse(a_.value)
            endless = src_ in ("it.repeat(None)", "it.count()", "it.repeat(0)", "it.cycle([None])") \
                and len(ge.generators) == 1 and not ge.generators[0].ifs
            chk.decide(unparse(ge.elt) == "self.value" and endless, "C16.control", W("ControlStream.__init__"), short(ge),
                       why="the attribute must be read at every step, endlessly", node=ge)
