"""C19  Signal generators produce their closed-form sequences and lengths."""
import ast
import copy

from ..core import (AnalysisError, FuncTypes, unparse, short, canon, canon_call, base_name, own_nodes,
                    docstring_free)
from ..ratfun import RF, Evaluator, Inconclusive, opaque
from ..e3 import E3, describe
from ..segments import summarise, NotSimple
from ..cond import norm_cmp, same_cond, parse_cond

EXPLANATION = (
    "Static analysis of lazy_synth.py and resample (lazy_poly.py). modulo_counter: every loop leaf of its decision "
    "tree is simulated for one iteration in normal form; with L = c + n*step - lastp the logical accumulator, each leaf "
    "yields (L + current start) reduced twice by the current modulo, and advances L by exactly the current step "
    "(checked modulo `modulo`, including the batched fast path where n == steps is applied as a substitution), starts "
    "from L0 = start (or 0 with a start stream), so the yielded value is start_n + sum of earlier steps mod modulo on "
    "every leaf; the 12 leaves are also cross-checked as siblings after role renaming. line/fadein/fadeout/ones/zeros/"
    "impulse/white_noise/gauss_noise/adsr/attack are summarised into yield segments whose counts and values are "
    "compared with the documented closed forms in normal form (adsr segment lengths sum to int(dur + .5)). sinusoid "
    "binds start=phase, modulo=2*pi, step=freq and yields sin(n); karplus_strong is comb.tau(2*pi/freq, tau)."
    "linearize()(zeros(), memory=memory); TableLookup interpolation weights sum to one over int(idx)/ceil(idx) cyclic "
    "indices with step = len/(cycles*2*pi)*freq. resample: no StopIteration escape (ends with its input), deque of "
    "order+1 zeros, Lagrange over enumerate(data) at idx, idx advanced by old/new, one new sample per unit of idx; "
    "its two arms are siblings. Not decided: floating-point drift, the numeric value of int()/rint() roundings."
    " Also: Each modulo_counter leaf must treat every argument according to the kind its guards select (iterated iff iterable); loops over numbers only are endless; the endless-duration guards of the generators are evaluated for None, +-inf and finite values; documented defaults (C19.defaults). ")

UNDECIDED = ["closed-form values in floating point", "rounding of fractional durations beyond the int(dur + .5) shape"]

LS = "lazy_synth"


# ----------------------------------------------------------------- helpers
def loop_leaves(stmts, conds=()):
    for s in stmts:
        if isinstance(s, ast.If):
            for x in loop_leaves(s.body, conds + ((s.test, True),)):
                yield x
            for x in loop_leaves(s.orelse, conds + ((s.test, False),)):
                yield x
        elif isinstance(s, (ast.For, ast.While)):
            yield conds, s, stmts


class Ren(ast.NodeTransformer):
    def __init__(self, m):
        self.m = m

    def visit_Name(self, n):
        return ast.copy_location(ast.Name(id=self.m.get(n.id, n.id), ctx=n.ctx), n)


def run(chk, repo):
    mod = repo.mod(LS)
    W = lambda q: "%s:%s" % (mod.relpath, q)

    # ------------------------------------------------------- modulo_counter
    chk.rule("C19.modulo", "every loop leaf of modulo_counter, simulated for one iteration: yield = (L + start_item) "
                           "% m % m with m the current modulo; L' = L + step_item (mod modulo) on every branch of the "
                           "leaf (n == steps applied as substitution); L0 = start or 0; roles taken from the zip position")
    chk.rule("C19.siblings", "advisory cross-check: after renaming loop targets to their roles the leaves of one kind "
                             "have identical bodies (a difference is a note, the semantic rule decides)")
    mc = repo.find(LS, "modulo_counter")
    par = [a.arg for a in mc.args.args]
    chk.require(par == ["start", "modulo", "step"], "modulo_counter signature changed: %s" % par)
    body = docstring_free(mc.body)
    mdef = [unparse(d) for d in mc.args.defaults]
    chk.decide(mdef == ["0.0", "256.0", "1.0"], "C19.modulo", W("modulo_counter"), "defaults (start, modulo, step) = %s" % mdef,
               why="documented defaults 0., 256., 1.", node=mc)
    nleaves = 0
    canon_bodies = {}
    for conds, loop, ctx in loop_leaves(body):
        nleaves += 1
        ctxt = " and ".join(("" if p else "not ") + unparse(c) for c, p in conds)
        # roles
        roles = {}
        if isinstance(loop, ast.For):
            it = loop.iter
            if isinstance(it, ast.Call) and canon_call(mod, it) == "zip":
                srcs = [unparse(a) for a in it.args]
                tg = [unparse(t) for t in loop.target.elts]
            else:
                srcs, tg = [unparse(it)], [unparse(loop.target)]
            for t, s in zip(tg, srcs):
                roles[s] = t
            if not set(srcs) <= set(par):
                raise AnalysisError("modulo_counter: loop over %s is not over its parameters" % srcs)
        if isinstance(loop, ast.While):
            chk.decide(isinstance(loop.test, ast.Constant) and bool(loop.test.value) is True and not loop.orelse, "C19.modulo",
                       W("modulo_counter"), "leaf [%s]: while %s" % (ctxt[:80], unparse(loop.test)),
                       why="a counter over numbers only is endless", node=loop)
        # the leaf reached for an iterable argument iterates it; the leaf reached for a number does not
        for a_ in par:
            kind_ = None
            for c_, p_ in conds:
                t_ = c_
                while isinstance(t_, ast.UnaryOp) and isinstance(t_.op, ast.Not):
                    t_, p_ = t_.operand, not p_
                if unparse(t_) == "isinstance(%s, Iterable)" % a_:
                    kind_ = p_
                elif unparse(t_) == "isinstance(Iterable, %s)" % a_:
                    chk.bad("C19.modulo", W("modulo_counter"), "leaf [%s]: %s" % (ctxt[:80], unparse(t_)),
                            "isinstance with its arguments swapped is a TypeError for every call", node=loop)
            if kind_ is None:
                continue
            chk.decide((a_ in roles) == kind_, "C19.modulo", W("modulo_counter"),
                       "leaf [%s]: %s is %s and is %s" % (ctxt[:80], a_, "an iterable" if kind_ else "a number",
                                                          "iterated" if a_ in roles else "used as a number"),
                       why="each of the eight numbers-vs-streams combinations must reach the loop written for it", node=loop)
        cur = {r: RF.sym("<%s>" % r) for r in par}          # current value of each role
        # pre-loop statements of this leaf's block (assignments before the loop in ctx)
        env = {}
        pre = []
        # collect assignments on the path from function start to this loop
        pre = _path_assigns(body, loop)
        start_iter = "start" in roles
        sim = {}
        try:
            for st in pre:
                if isinstance(st, ast.Assign) and isinstance(st.targets[0], ast.Name):
                    sim[st.targets[0].id] = Evaluator(dict(sim, **{p: cur[p] for p in par if p not in roles}),
                                                      mod_identity=True).ev(st.value)
        except Inconclusive as ex:
            raise AnalysisError("modulo_counter: cannot interpret prologue of leaf [%s]: %s" % (ctxt, ex))
        scal = {p: cur[p] for p in par if p not in roles}
        itemv = {roles[p]: cur[p] for p in roles}
        c0 = sim.get("c", RF.const(0))
        n0 = sim.get("n", RF.const(0))
        lastp0 = sim.get("lastp", RF.const(0))
        step_now = cur["step"]
        # L0
        stepsym = scal.get("step", RF.sym("<step>"))
        L0 = c0 + n0 * stepsym - lastp0
        want_L0 = RF.const(0) if start_iter else cur["start"]
        label = "leaf [%s] %s" % (ctxt, short(loop)[:50])
        zero_step = any(same_cond(norm_cmp(c), parse_cond("step == 0")) and p for c, p in conds)
        if zero_step:
            stepsym_eff = RF.const(0)
        else:
            stepsym_eff = None
        chk.decide(L0 == want_L0, "C19.modulo", W("modulo_counter"), "%s: L0 = %s" % (label, L0.key()),
                   why="accumulator must start at %s" % want_L0.key(), node=loop)
        # one iteration from a generic state
        used = {n.id for st_ in list(loop.body) + pre for n in ast.walk(st_) if isinstance(n, ast.Name)}
        state = {"c": RF.sym("C"),
                 "n": RF.sym("N") if "n" in used else RF.const(0),
                 "lastp": RF.sym("LASTP") if "lastp" in used else RF.const(0)}
        state.update(scal)
        state.update(itemv)
        if "steps" in sim:
            state["steps"] = RF.sym("STEPS")
        # loop-invariant locals of the prologue (a batch increment computed once ...) in terms of the generic state
        for st_ in pre:
            if isinstance(st_, ast.Assign) and len(st_.targets) == 1 and isinstance(st_.targets[0], ast.Name) \
                    and st_.targets[0].id not in state and st_.targets[0].id not in ("c", "n", "lastp", "steps"):
                try:
                    state[st_.targets[0].id] = Evaluator(state, mod_identity=True).ev(st_.value)
                except Inconclusive:
                    pass
        Lpre = state["c"] + state["n"] * stepsym - state["lastp"]
        outcomes = _simulate(loop.body, state, mod)
        chk.decide(bool(outcomes), "C19.modulo", W("modulo_counter"), "%s: one value per iteration" % label,
                   why="the loop of this leaf yields nothing", node=loop)
        for yexpr, ynode, post, subs in outcomes:
            startv = cur["start"] if start_iter else RF.const(0)
            stepv = cur["step"]
            if zero_step:
                # c is constant; L' = L
                stepv = RF.const(0)
            Lpost = post["c"] + post["n"] * stepsym - post["lastp"]
            # apply substitutions from branch conditions (N + 1 == STEPS  =>  STEPS := N + 1)
            yv, Lp, Lq = yexpr, Lpost, Lpre
            for k, v in subs.items():
                yv, Lp, Lq = yv.subst({k: v}), Lp.subst({k: v}), Lq.subst({k: v})
            if zero_step and not start_iter:
                ok_y = (yv == Lq + startv) or (yv == cur["start"])
            elif zero_step and start_iter:
                ok_y = yv == cur["start"]
            else:
                ok_y = yv == Lq + startv
            chk.decide(ok_y, "C19.modulo", W("modulo_counter"), "%s: yields %s" % (label, unparse(ynode)),
                       why="yielded value is %s but start + accumulated steps is %s (mod modulo)"
                           % (yv.key(), (Lq + startv).key()), node=ynode)
            if not zero_step:
                chk.decide(Lp == Lq + stepv, "C19.modulo", W("modulo_counter"),
                           "%s: accumulator advances by the current step%s" % (label, " [n == steps branch]" if subs else ""),
                           why="L' - L = %s, expected %s" % ((Lp - Lq).key(), stepv.key()), node=loop)
            # reduced twice by the current modulo
            mname = roles.get("modulo", "modulo")
            red = isinstance(ynode, ast.BinOp) and isinstance(ynode.op, ast.Mod) and unparse(ynode.right) == mname \
                and isinstance(ynode.left, ast.BinOp) and isinstance(ynode.left.op, ast.Mod) \
                and unparse(ynode.left.right) == mname
            if not red and isinstance(ynode, ast.Name):
                # yielded name: the value it holds AT the yield must be a double reduction by the current modulo:
                # either its last write before the yield inside the iteration, or (none there) its value at loop
                # entry and every write after the yield
                def is_red(a):
                    v_ = a.value
                    return isinstance(a, ast.Assign) and isinstance(v_, ast.BinOp) and isinstance(v_.op, ast.Mod) \
                        and unparse(v_.right) == mname and isinstance(v_.left, ast.BinOp) \
                        and isinstance(v_.left.op, ast.Mod) and unparse(v_.left.right) == mname
                ystmt = ynode
                while not isinstance(ystmt, ast.stmt):
                    ystmt = ystmt._parent
                flat = list(loop.body)
                if ystmt in flat:
                    yi = flat.index(ystmt)
                    w_before = [s_ for s_ in flat[:yi] if isinstance(s_, (ast.Assign, ast.AugAssign)) and
                                unparse(s_.targets[0] if isinstance(s_, ast.Assign) else s_.target) == ynode.id]
                    w_after = [s_ for s_ in flat[yi + 1:] if isinstance(s_, (ast.Assign, ast.AugAssign)) and
                               unparse(s_.targets[0] if isinstance(s_, ast.Assign) else s_.target) == ynode.id]
                    if w_before:
                        red = is_red(w_before[-1])
                    else:
                        entry = [s_ for s_ in pre if isinstance(s_, ast.Assign) and unparse(s_.targets[0]) == ynode.id]
                        red = bool(entry) and is_red(entry[-1]) and all(is_red(w) for w in w_after)
                else:
                    red = False
            chk.decide(red, "C19.modulo", W("modulo_counter"), "%s: output reduced as v %% %s %% %s" % (label, mname, mname),
                       why="output must lie in [0, modulo): reduce by the current modulo (twice, for negative values)",
                       node=ynode)
        # siblings
        m = {r: "<%s>" % r for r in par}
        for p, t in roles.items():
            m[t] = "<%s>" % p
        cb = [unparse(Ren(m).visit(copy.deepcopy(s))) for s in loop.body]
        core = tuple(b for b in cb if "lastp" not in b)
        fast = any("n * <step>" in b for b in cb)
        kind = ("start-iter" if start_iter else "start-scalar", "fast" if fast else "zero" if zero_step else "slow")
        canon_bodies.setdefault(kind, []).append((tuple(cb), core, loop))
    chk.floor("C19.modulo", nleaves, 12, "loop leaves of modulo_counter")
    for kind, items in sorted(canon_bodies.items()):
        bodies = {b for b, _, _ in items}
        if len(bodies) == 1:
            chk.ok("C19.siblings", W("modulo_counter"),
                   "%d %s/%s leaves have one canonical body" % (len(items), kind[0], kind[1]), node=items[0][2])
        else:   # textual difference only: each leaf is judged semantically by C19.modulo
            chk.note("C19.siblings", W("modulo_counter"), "%s/%s leaves are written differently after role renaming "
                     "(advisory; semantics decided per leaf): %s" % (kind[0], kind[1], sorted(bodies)[:2]))
    if ("start-iter", "slow") in canon_bodies and ("start-scalar", "slow") in canon_bodies:
        a = {c for _, c, _ in canon_bodies[("start-iter", "slow")]}
        b = {c for _, c, _ in canon_bodies[("start-scalar", "slow")]}
        if a == b:
            chk.ok("C19.siblings", W("modulo_counter"),
                   "start-stream leaves minus their lastp statements equal the start-scalar leaves", node=mc)
        else:
            chk.note("C19.siblings", W("modulo_counter"), "start-stream and start-scalar leaves are written differently "
                     "(advisory)")
    # steps
    st_asg = [n for n in ast.walk(mc) if isinstance(n, ast.Assign) and unparse(n.targets[0]) == "steps"]
    for s in st_asg:
        chk.decide(unparse(s.value) == "int(modulo / step)", "C19.modulo", W("modulo_counter"), short(s),
                   why="batch length must be the number of steps in one modulo", node=s)

    # ------------------------------------------------------ simple generators
    chk.rule("C19.defaults", "documented parameter names and default values of the generators (the closed forms of the "
                             "property are stated in terms of them): line(dur, begin=0, end=1, finish=False), ones/zeros"
                             "(dur=None), white_noise(dur=None, low=-1, high=1), gauss_noise(dur=None, mu=0, sigma=1), "
                             "impulse(dur=None, one=1, zero=0), sinusoid(freq, phase=0), TableLookup(table, cycles=1), "
                             "TableLookup.__call__(freq, phase=0), resample(sig, old=1, new=1, order=3, zero=0)")
    DEFAULTS = [(LS, "line", ["dur", "begin", "end", "finish"], [0.0, 1.0, False]),
                (LS, "ones", ["dur"], [None]), (LS, "zeros", ["dur"], [None]),
                (LS, "white_noise", ["dur", "low", "high"], [None, -1.0, 1.0]),
                (LS, "gauss_noise", ["dur", "mu", "sigma"], [None, 0.0, 1.0]),
                (LS, "impulse", ["dur", "one", "zero"], [None, 1.0, 0.0]),
                (LS, "sinusoid", ["freq", "phase"], [0.0]),
                (LS, "TableLookup.__init__", ["self", "table", "cycles"], [1]),
                (LS, "TableLookup.__call__", ["self", "freq", "phase"], [0.0]),
                ("lazy_poly", "resample", ["sig", "old", "new", "order", "zero"], [1, 1, 3, 0.0])]
    for mn_, q_, names_, dv_ in DEFAULTS:
        fn_ = repo.find(mn_, q_)
        got_n = [a.arg for a in fn_.args.args]
        got_d = []
        for d in fn_.args.defaults:
            try:
                got_d.append(ast.literal_eval(d))
            except Exception:
                got_d.append(unparse(d))
        same = got_n == names_ and len(got_d) == len(dv_) and all(
            (a is None and b is None) or (a is not None and b is not None and type(a) is not str and a == b
                                          and isinstance(a, bool) == isinstance(b, bool)) for a, b in zip(got_d, dv_))
        chk.decide(same, "C19.defaults", "%s:%s" % (repo.mod(mn_).relpath, q_), "%s(%s) defaults %s" % (q_, ", ".join(got_n), got_d),
                   why="documented: (%s) with defaults %s" % (", ".join(names_), dv_), node=fn_)
    chk.rule("C19.segments", "yield segments (count, value) of line, ones, zeros, impulse, white_noise, gauss_noise, "
                             "adsr, attack equal the documented closed forms in normal form")
    _segments(chk, repo, mod, W)

    # ------------------------------------------------------------- sinusoid
    chk.rule("C19.bind", "sinusoid iterates modulo_counter(start=phase, modulo=2*pi, step=freq) and yields sin(n); "
                         "karplus_strong is comb.tau(2*pi/freq, tau).linearize()(zeros(), memory=memory); "
                         "fadein/fadeout are line(dur) / line(dur, 1, 0)")
    sn = repo.find(LS, "sinusoid")
    try:
        paths = summarise(sn)
    except NotSimple as ex:
        raise AnalysisError("sinusoid: %s" % ex)
    ok = len(paths) == 1 and len(paths[0][1]) == 1 and paths[0][1][0].kind == "source"
    if ok:
        seg = paths[0][1][0]
        c = seg.source
        ok = isinstance(c, ast.Call) and unparse(c.func) == "modulo_counter"
        if ok:
            mpar = ["start", "modulo", "step"]
            bound = {}
            for i, a in enumerate(c.args):
                bound[mpar[i]] = a
            for k in c.keywords:
                bound[k.arg] = k.value
            try:
                ok = set(bound) == set(mpar) and unparse(bound["start"]) == "phase" and unparse(bound["step"]) == "freq" \
                    and Evaluator().ev(bound["modulo"]) == 2 * RF.sym("pi") \
                    and unparse(seg.value) == "sin(%s)" % seg.var
            except Inconclusive:
                ok = False
    chk.decide(ok, "C19.bind", W("sinusoid"), short(docstring_free(sn.body)[-1]),
               why="sinusoid must be sin of a phase counter starting at phase, stepping freq, modulo 2*pi", node=sn)
    ks = repo.find(LS, "karplus_strong")
    r = docstring_free(ks.body)[-1]
    ok = False
    v = r.value
    if isinstance(v, ast.Call) and isinstance(v.func, ast.Call) and isinstance(v.func.func, ast.Attribute) \
            and v.func.func.attr == "linearize" and isinstance(v.func.func.value, ast.Call) \
            and unparse(v.func.func.value.func) == "comb.tau":
        a = v.func.func.value.args
        try:
            ok = len(a) == 2 and Evaluator().ev(a[0]) == 2 * RF.sym("pi") / RF.sym("freq") and unparse(a[1]) == "tau" \
                and [unparse(x) for x in v.args] == ["zeros()"] and [(k.arg, unparse(k.value)) for k in v.keywords] == [("memory", "memory")]
        except Inconclusive:
            ok = False
    chk.decide(ok, "C19.bind", W("karplus_strong"), short(r),
               why="must run the linearised feedback comb of lag 2*pi/freq on silence with the given memory", node=r)
    d = ks.args.defaults
    chk.decide(len(d) == 2 and unparse(d[1]) == "white_noise", "C19.bind", W("karplus_strong"),
               "default memory is white_noise", why="documented default", node=ks)
    for name, want in (("fadein", "return line(dur)"), ("fadeout", None)):
        fn = repo.find(LS, name)
        r = docstring_free(fn.body)[-1]
        if want:
            ok = unparse(r) == want
        else:
            c = r.value
            ok = isinstance(c, ast.Call) and unparse(c.func) == "line" and unparse(c.args[0]) == "dur" and len(c.args) == 3
            if ok:
                ok = Evaluator().ev(c.args[1]) == 1 and Evaluator().ev(c.args[2]) == 0
        chk.decide(ok, "C19.bind", W(name), short(r), why="fade must be the unit line in the right direction", node=r)

    # ----------------------------------------------------------- TableLookup
    chk.rule("C19.table", "TableLookup.__call__: step = len/(cycles*2*pi)*freq, start = len/(cycles*2*pi)*phase, modulo "
                          "len; output tbl[int(idx)]*(1-f) + tbl[int(ceil(idx)) - len]*f with f = idx - int(idx); "
                          "__getitem__ likewise with indices modulo len")
    tc = repo.find(LS, "TableLookup.__call__")
    env = {}
    try:
        for st in docstring_free(tc.body):
            if isinstance(st, ast.Assign) and isinstance(st.targets[0], ast.Name) and not (
                    isinstance(st.value, ast.Call) and unparse(st.value.func) == "modulo_counter"):
                h = lambda ev, name, node: (RF.sym("LEN") if name in ("len", "float") and node.args and
                                            unparse(node.args[0]) in ("self", "total_length") else None)
                env[st.targets[0].id] = Evaluator(env, call_hook=h,
                                                  attr_hook=lambda ev, n: RF.sym(unparse(n))).ev(st.value)
        L = RF.sym("LEN")
        cl = L / (RF.sym("self.cycles") * 2 * RF.sym("pi"))
        mcs = [n for n in ast.walk(tc) if isinstance(n, ast.Call) and unparse(n.func) == "modulo_counter"]
        chk.require(len(mcs) == 1, "TableLookup.__call__: modulo_counter call not found")
        a = [Evaluator(env).ev(x) for x in mcs[0].args]
        ok = len(a) == 3 and a[0] == cl * RF.sym("phase") and a[1] == L and a[2] == cl * RF.sym("freq")
        chk.decide(ok, "C19.table", W("TableLookup.__call__"), short(mcs[0]) + " with " + ", ".join(x.key() for x in a),
                   why="index counter must start at len/(cycles*2*pi)*phase, wrap at len and step len/(cycles*2*pi)*freq",
                   node=mcs[0])
    except Inconclusive as ex:
        raise AnalysisError("TableLookup.__call__ not interpretable: %s" % ex)
    for q, wrap in (("TableLookup.__call__", "sub"), ("TableLookup.__getitem__", "mod")):
        fn = repo.find(LS, q)
        r = max((n for n in own_nodes(fn) if isinstance(n, ast.Return)), key=lambda n: n.lineno)
        e = r.value
        def resolved(expr_node, assigns):
            """the expression with the loop-body temporaries replaced by what they were bound to (in order)"""
            envs = {}

            class R(ast.NodeTransformer):
                def visit_Name(self, n):
                    if isinstance(n.ctx, ast.Load) and n.id in envs:
                        return ast.parse(unparse(envs[n.id]), mode="eval").body
                    return n
            for a_ in assigns:
                envs[a_.targets[0].id] = R().visit(ast.parse(unparse(a_.value), mode="eval").body)
            return R().visit(ast.parse(unparse(expr_node), mode="eval").body)
        if isinstance(e, ast.Call) and base_name(canon(mod, e.func)) == "Stream":
            a0 = e.args[0] if e.args else None
            if isinstance(a0, (ast.GeneratorExp, ast.ListComp)):
                e = a0.elt
            elif isinstance(a0, ast.Call) and isinstance(a0.func, ast.Name) and not a0.args:
                gdef = [f_ for f_ in ast.walk(fn) if isinstance(f_, FuncTypes) and f_.name == a0.func.id]
                gb = docstring_free(gdef[0].body) if gdef else []
                if not (len(gb) == 1 and isinstance(gb[0], ast.For)):
                    raise AnalysisError("%s: interpolating generator not recognised" % q)
                lpb = gb[0].body
                ys_ = [s_ for s_ in lpb if isinstance(s_, ast.Expr) and isinstance(s_.value, ast.Yield)]
                as_ = [s_ for s_ in lpb if isinstance(s_, ast.Assign) and len(s_.targets) == 1 and isinstance(s_.targets[0], ast.Name)]
                if len(ys_) != 1 or len(ys_) + len(as_) != len(lpb):
                    raise AnalysisError("%s: interpolating generator not recognised" % q)
                e = resolved(ys_[0].value.value, as_)
            else:
                raise AnalysisError("%s: the interpolated samples are not a generator expression (%s)" % (q, short(e)))
        else:
            # plain return: temporaries of the function body resolved as well
            pre_ = [s_ for s_ in docstring_free(fn.body) if isinstance(s_, ast.Assign) and len(s_.targets) == 1
                    and isinstance(s_.targets[0], ast.Name) and s_.targets[0].id not in ("total_length",)]
            if pre_:
                e = resolved(e, pre_)
        ok = isinstance(e, ast.BinOp) and isinstance(e.op, ast.Add)
        detail = ""
        if ok:
            terms = []
            for t in (e.left, e.right):
                if isinstance(t, ast.BinOp) and isinstance(t.op, ast.Mult) and isinstance(t.left, ast.Subscript):
                    terms.append((t.left, t.right))
            ok = len(terms) == 2
            if ok:
                try:
                    ev = Evaluator()
                    w1, w2 = ev.ev(terms[0][1]), ev.ev(terms[1][1])
                    f = RF.sym("idx") - opaque("int", RF.sym("idx"))
                    i1, i2 = unparse(terms[0][0].slice), unparse(terms[1][0].slice)
                    if wrap == "sub":
                        idx_ok = i1 == "int(idx)" and i2 == "int(ceil(idx)) - total_length"
                    else:
                        idx_ok = i1 == "int(idx) % total_length" and i2 == "int(ceil(idx)) % total_length"
                    ok = (w1 + w2 == 1) and w2 == f and idx_ok
                    detail = "weights %s, %s ; indices %s, %s" % (w1.key(), w2.key(), i1, i2)
                except Inconclusive:
                    ok = False
        chk.decide(ok, "C19.table", W(q), short(r)[:100], why="expected cyclic linear interpolation: weights (1-f, f) with "
                   "f = idx - int(idx) on the samples at int(idx) and ceil(idx) (wrapped)", detail=detail, node=r)

    # --------------------------------------------------------------- resample
    chk.rule("E3", "no unprotected StopIteration raiser in a generator frame of resample (it ends when its input does)")
    chk.rule("C19.resample", "resample: window of order+1 zeros (maxlen order+1) pre-filled with rint(threshold) "
                             "samples, threshold = (order+1)/2; yields lagrange(enumerate(data))(idx); idx += old/new "
                             "(or the next step); while idx > threshold: one new sample in, idx -= 1; both arms siblings")
    pm = repo.mod("lazy_poly")
    WP = lambda q: "%s:%s" % (pm.relpath, q)
    rs = repo.find("lazy_poly", "resample")
    e3 = E3([(m.name, m.tree) for m in repo.modules.values()])
    sites = [s for s in e3.scan(rs) if s.in_generator]
    for s in sites:
        chk.decide(not s.escapes, "E3", WP("resample"), describe(s),
                   why="when the input (or the step stream) ends the generator raises RuntimeError instead of stopping "
                       "(PEP 479)", node=s.node)
    chk.floor("E3", len(sites), 2, "next() sites in resample")
    at = repo.find(LS, "attack")
    for s in [s for s in e3.scan(at) if s.in_generator and s.escapes]:
        chk.note("E3", W("attack"), "%s - an empty sustain iterable raises RuntimeError; the property states nothing about "
                 "that input (advisory)" % describe(s))
    rb = docstring_free(rs.body)
    env = {}
    facts = {}
    for st in rb:
        if isinstance(st, ast.Assign) and isinstance(st.targets[0], ast.Name):
            nm = st.targets[0].id
            facts[nm] = st
            try:
                env[nm] = Evaluator(env).ev(st.value)
            except Inconclusive:
                pass
    order = RF.sym("order")
    chk.decide("threshold" in env and env["threshold"] == (order + 1) / 2, "C19.resample", WP("resample"),
               short(facts.get("threshold")), why="interpolation centre must be (order + 1) / 2", node=rs)
    chk.decide("step" in env and env["step"] == RF.sym("old") / RF.sym("new"), "C19.resample", WP("resample"),
               short(facts.get("step")), why="input position advances old/new per output", node=rs)
    d = facts.get("data")
    ok = d is not None and isinstance(d.value, ast.Call) and unparse(d.value.func) == "deque"
    if ok:
        c = d.value
        kws = {k.arg: k.value for k in c.keywords}
        try:
            a0_ = c.args[0]
            rep_ok = False
            if isinstance(a0_, ast.BinOp) and isinstance(a0_.op, ast.Mult):
                lst_, cnt_ = (a0_.left, a0_.right) if isinstance(a0_.left, ast.List) else (a0_.right, a0_.left)
                rep_ok = isinstance(lst_, ast.List) and [unparse(e_) for e_ in lst_.elts] == ["zero"] \
                    and Evaluator(env).ev(cnt_) == order + 1
            ok = rep_ok and Evaluator(env).ev(kws["maxlen"]) == order + 1
        except (Inconclusive, KeyError):
            ok = False
    chk.decide(ok, "C19.resample", WP("resample"), short(d), why="window must be order+1 zero-valued samples "
               "(zero extension on the left) with maxlen order+1", node=rs)
    ext = [s for s in rb if isinstance(s, ast.Expr) and isinstance(s.value, ast.Call) and unparse(s.value.func) == "data.extend"]
    chk.decide(len(ext) == 1 and unparse(ext[0].value.args[0]) == "sig.take(rint(threshold))", "C19.resample",
               WP("resample"), short(ext[0]) if ext else "data.extend missing",
               why="window is pre-filled with the first rint(threshold) samples", node=rs)
    chk.decide("idx" in facts and unparse(facts["idx"].value) == "int(threshold)", "C19.resample", WP("resample"),
               short(facts.get("idx")), why="first output sits on the first input sample", node=rs)
    whiles = [n for n in ast.walk(rs) if isinstance(n, ast.While) and isinstance(n.test, ast.Constant)]
    chk.require(len(whiles) in (1, 2), "resample: main loop(s) not found")
    for w_ in whiles:
        chk.decide(bool(w_.test.value) is True and not w_.orelse, "C19.resample", WP("resample"), "main loop: while %s" % unparse(w_.test),
                   why="output goes on until the input (or the step stream) ends", node=w_)
    if len(whiles) == 2:
        from ..dtable import Facts, walk as _walk
        trys = [n for n in rb if isinstance(n, ast.Try)]
        blk = trys[0].body if trys else rb
        for it_ in (True, False):
            try:
                w2 = _walk(blk, Facts(kinds={"step": {"Stream", "Iterable"} if it_ else {"float"}}, types={"Iterable"}),
                           "resample step dispatch", rebind=lambda n, v, F_: None)
                loops_ = [st for st in w2.ran if isinstance(st, ast.While)]
                uses_next = bool(loops_) and "next(step)" in unparse(loops_[0])
                chk.decide(w2.end != "raise" and len(loops_) == 1 and uses_next == it_, "C19.resample", WP("resample"),
                           "%s step -> position advanced by %s" % ("stream" if it_ else "number", "next(step)" if uses_next else "step"),
                           why="a step stream is consumed item by item, a number is added as it is", node=rs)
            except AnalysisError as ex:
                chk.defer(str(ex))
    if len(whiles) == 1:
        # one loop for both kinds of step: the step source must be the step stream itself or the constant repeated
        aug = whiles[0].body[1] if len(whiles[0].body) > 1 else None
        src_ok = False
        if isinstance(aug, ast.AugAssign) and isinstance(aug.value, ast.Call) and unparse(aug.value.func) == "next" \
                and len(aug.value.args) == 1 and isinstance(aug.value.args[0], ast.Name):
            nm_ = aug.value.args[0].id
            # what the step source is bound to for each kind of step (guards evaluated, conditional expressions resolved)
            from ..dtable import Facts, walk as _walk
            trys = [n for n in rb if isinstance(n, ast.Try)]
            blk = trys[0].body if trys else rb
            src_ok = True
            try:
                for it_ in (True, False):
                    w2 = _walk(blk, Facts(kinds={"step": {"Stream", "Iterable"} if it_ else {"float"}}, types={"Iterable"}),
                               "resample step source", rebind=lambda n, v, F_: None)
                    vals_ = [st_.value for st_ in w2.ran if isinstance(st_, ast.Assign) and len(st_.targets) == 1
                             and unparse(st_.targets[0]) == nm_]
                    got_ = unparse(vals_[-1]) if vals_ else None
                    want_ = ("iter(step)",) if it_ else ("it.repeat(step)", "repeat(step)", "itertools.repeat(step)")
                    src_ok = src_ok and len(vals_) == 1 and got_ in want_ and w2.end != "raise"
            except AnalysisError as ex:
                chk.defer(str(ex))
                src_ok = None
        if src_ok is not None:
            chk.decide(src_ok, "C19.resample", WP("resample"), "single loop fed by %s" % (short(aug) if aug is not None else "?"),
                       why="the position must advance by the next item of a step stream, or by the constant step every time",
                       node=whiles[0])
    canon_w = []
    for w in whiles:
        txt = [unparse(s) for s in w.body]
        canon_w.append([t.replace("next(step)", "<step>").replace("idx += step", "idx += <step>") for t in txt])
        ok = len(w.body) == 3 and unparse(w.body[0]) == "yield lagrange(enumerate(data))(idx)" \
            and isinstance(w.body[1], ast.AugAssign) and isinstance(w.body[1].op, ast.Add) and unparse(w.body[1].target) == "idx" \
            and isinstance(w.body[2], ast.While) and same_cond(norm_cmp(w.body[2].test), parse_cond("idx > threshold")) \
            and [unparse(s) for s in w.body[2].body] == ["data.append(next(isig))", "idx -= 1"]
        chk.decide(ok, "C19.resample", WP("resample"), "loop: " + " ; ".join(txt)[:120],
                   why="each output is the Lagrange interpolation of the window at idx; idx advances by the step; while "
                       "idx > threshold one sample enters and idx decreases by one", node=w)
    if len(canon_w) == 1:
        pass
    elif canon_w[0] == canon_w[1]:
        chk.ok("C19.siblings", WP("resample"), "constant-step and stream-step loops agree", node=rs)
    else:
        chk.note("C19.siblings", WP("resample"), "the two loops are written differently (advisory; each is checked)")


def _path_assigns(body, target_loop):
    """Assignments executed on the path from the start of ``body`` to ``target_loop``."""
    def rec(stmts, acc):
        for s in stmts:
            if s is target_loop:
                return acc
            if isinstance(s, ast.If):
                for br in (s.body, s.orelse):
                    r = rec(br, list(acc))
                    if r is not None:
                        return r
            elif isinstance(s, ast.Assign):
                acc.append(s)
        return None
    r = rec(body, [])
    if r is None:
        raise AnalysisError("modulo_counter: loop not reachable in path search")
    return r


def _simulate(stmts, state, mod):
    """Simulate a leaf body from ``state``; returns [(yield_value RF, yield node, post state, substitutions)].
    An ``if n == steps`` inside the body forks: the true branch records the substitution STEPS := N'."""
    outs = []

    def run(stmts, st, ys, subs):
        stmts = list(stmts)
        while stmts:
            s = stmts.pop(0)
            if isinstance(s, ast.Assign) and isinstance(s.targets[0], ast.Name):
                st = dict(st)
                st[s.targets[0].id] = Evaluator(st, mod_identity=True).ev(s.value)
            elif isinstance(s, ast.AugAssign) and isinstance(s.target, ast.Name):
                st = dict(st)
                v = Evaluator(st, mod_identity=True).ev(s.value)
                cur = st.get(s.target.id)
                if cur is None:
                    raise AnalysisError("modulo_counter: '%s' updated before being set" % s.target.id)
                if isinstance(s.op, ast.Add):
                    st[s.target.id] = cur + v
                elif isinstance(s.op, ast.Sub):
                    st[s.target.id] = cur - v
                else:
                    raise AnalysisError("modulo_counter: operator in '%s'" % unparse(s))
            elif isinstance(s, ast.Expr) and isinstance(s.value, ast.Yield):
                ys = ys + [(Evaluator(st, mod_identity=True).ev(s.value.value), s.value.value)]
            elif isinstance(s, ast.If):
                t = s.test
                c = norm_cmp(t, st)
                if c is not None and c[0] == "==" and "STEPS" in c[1].symbols():
                    # n == steps: solve for STEPS
                    diff = c[1]
                    cp = diff.coeff_poly("STEPS")
                    if set(cp) <= {0, 1} and 1 in cp:
                        sol = -(cp.get(0, RF.const(0))) / cp[1]
                        run(list(s.body) + stmts, st, ys, dict(subs, STEPS=sol))
                        run(list(s.orelse) + stmts, st, ys, subs)
                        return
                # any other test: both outcomes are followed (each has to keep the invariant and yield a reduced value)
                run(list(s.body) + stmts, st, ys, subs)
                run(list(s.orelse) + stmts, st, ys, subs)
                return
            elif isinstance(s, ast.Pass):
                continue
            else:
                raise AnalysisError("modulo_counter: statement '%s' inside a leaf not understood" % unparse(s))
        for yv, yn in ys:
            post = dict(st)
            for k in ("c", "n", "lastp"):
                post.setdefault(k, RF.const(0))
            outs.append((yv, yn, post, subs))
    try:
        run(stmts, state, [], {})
    except Inconclusive as ex:
        raise AnalysisError("modulo_counter: leaf not interpretable: %s" % ex)
    return outs


def _segments(chk, repo, mod, W):
    half = RF.const("1/2")
    dur = RF.sym("dur")
    intdur = opaque("int", dur + half)

    def get(name, **kw):
        fn = repo.find(LS, name)
        try:
            return fn, summarise(fn, **kw)
        except NotSimple as ex:
            raise AnalysisError("%s is no longer a sequence of single-yield loops: %s" % (name, ex))

    # line
    for fin, finv in ((True, 1), (False, 0)):
        fn, paths = get("line", ifexp_hook=lambda t, fin=fin: fin if unparse(t) == "finish" else None)
        ok = len(paths) == 1 and len(paths[0][1]) == 1 and paths[0][1][0].kind == "range"
        detail = ""
        if ok:
            seg = paths[0][1][0]
            try:
                cnt = seg.count_rf()
                val = Evaluator(dict(seg.env, **{seg.var: RF.sym("i")})).ev(seg.value)
                want = RF.sym("begin") + RF.sym("i") * (RF.sym("end") - RF.sym("begin")) / (dur - finv)
                ok = cnt == intdur and val == want
                detail = "count %s, value %s" % (cnt.key(), val.key())
            except Inconclusive as ex:
                raise AnalysisError("line not interpretable: %s" % ex)
        chk.decide(ok, "C19.segments", W("line"), "finish=%s: %s" % (fin, detail or "shape"),
                   why="line must have int(dur + .5) samples begin + i*(end-begin)/(dur - finish)", node=fn)
    from ..dtable import Facts, holds, RAISE
    inf_ = float("inf")

    def endless_guard(cond):
        """the guard holds exactly for dur None and dur +inf (evaluated, not read): None / message"""
        for dv in (None, inf_, -inf_, 3.0, 0.2, 0, 7):
            if dv is None:
                F = Facts(none=["dur"], raising=["isinf(dur)", "dur > 0", "dur >= 0", "dur < 0", "0 < dur"])
            else:
                F = Facts(values={"dur": dv}, kinds={"dur": {"float"}}, truths={"isinf(dur)": dv in (inf_, -inf_),
                                                                               "math.isinf(dur)": dv in (inf_, -inf_)})
            r = holds(cond, F)
            if r is None:
                raise AnalysisError("duration guard not interpretable: %s" % unparse(cond))
            want = dv is None or dv == inf_
            if r is RAISE or bool(r) != want:
                return "dur=%r takes the %s arm" % (dv, "guard raises" if r is RAISE else ("endless" if r else "finite"))
        return None

    # ones / zeros / noises
    for name, value, cntf in (("ones", "1.0", "int"), ("zeros", "0.0", "int"),
                              ("white_noise", "random.uniform(low, high)", "rint"),
                              ("gauss_noise", "random.gauss(mu, sigma)", "rint")):
        fn, paths = get(name)
        ok = len(paths) == 2
        if ok:
            (c1, s1), (c2, s2) = paths
            endless, finite = (s1, s2) if c1 and c1[0][1] else (s2, s1)
            cpol = (c1 or c2)[0]
            gtest = cpol[0] if (c1 and c1[0][1]) or (not c1 and c2[0][1]) else ast.UnaryOp(op=ast.Not(), operand=cpol[0])
            if not ((c1 and c1[0][1]) or (c2 and c2[0][1])):
                gtest = cpol[0]
            bad_guard = endless_guard(cpol[0])
            chk.decide(bad_guard is None, "C19.segments", W(name), "endless exactly for dur None / +inf: " + unparse(cpol[0]),
                       why=bad_guard or "-", node=fn)
            ok = len(endless) == 1 and endless[0].kind == "forever" \
                and unparse(endless[0].value) == value and len(finite) == 1 and finite[0].kind == "range" \
                and unparse(finite[0].value) == value
            if ok:
                cnt = finite[0].count_rf()
                ok = cnt == (opaque("int", dur + half) if cntf == "int" else opaque("rint", dur))
        chk.decide(ok, "C19.segments", W(name), "endless when dur is None/+inf, else %s(dur%s) x %s"
                   % (cntf, " + .5" if cntf == "int" else "", value),
                   why="documented duration / value shape not met", node=fn)
    # impulse
    fn, paths = get("impulse")
    ok = len(paths) == 3
    if ok:
        descr = []
        for conds, segs in paths:
            descr.append((" and ".join(("" if p else "not ") + unparse(c) for c, p in conds), [repr(s) for s in segs]))
        endless = [s for c, s in paths if c and c[0][1]]
        finite = [s for c, s in paths if len(c) == 2 and not c[0][1] and c[1][1]]
        empty = [s for c, s in paths if len(c) == 2 and not c[0][1] and not c[1][1]]
        ok = len(endless) == 1 and len(finite) == 1 and len(empty) == 1 and empty[0] == []
        g0 = [c for c, s_ in paths if c][0][0][0]
        bad_guard = endless_guard(g0)
        chk.decide(bad_guard is None, "C19.segments", W("impulse"), "endless exactly for dur None / +inf: " + unparse(g0),
                   why=bad_guard or "-", node=fn)
        if ok:
            e, f = endless[0], finite[0]
            ok = [s.kind for s in e] == ["single", "forever"] and unparse(e[0].value) == "one" and unparse(e[1].value) == "zero" \
                and [s.kind for s in f] == ["single", "range"] and unparse(f[0].value) == "one" and unparse(f[1].value) == "zero" \
                and f[1].count_rf() == opaque("int", dur - half)
            c2 = [c for c, s in paths if len(c) == 2 and c[1][1]][0][1][0]
            ok = ok and same_cond(norm_cmp(c2), parse_cond("dur >= .5"))
    chk.decide(ok, "C19.segments", W("impulse"), "one then zeros: endless, or 1 + int(dur - .5) samples when dur >= .5, "
               "else nothing", why="impulse shape/duration not met", node=fn)
    # adsr
    fn, paths = get("adsr")
    ok = len(paths) == 1 and [s.kind for s in paths[0][1]] == ["range"] * 4
    if ok:
        segs = paths[0][1]
        try:
            cnts = [s.count_rf() for s in segs]
            tot = cnts[0] + cnts[1] + cnts[2] + cnts[3]
            i = RF.sym("i")
            vals = [Evaluator(dict(s.env, **{s.var: i})).ev(s.value) for s in segs]
            a, d, sv, r = RF.sym("a"), RF.sym("d"), RF.sym("s"), RF.sym("r")
            want = [i / a, 1 + i * (sv - 1) / d, sv, sv - i * sv / r]
            wantc = [opaque("int", a + half), opaque("int", d + half), None, opaque("int", r + half)]
            ok = tot == intdur and all(v == w for v, w in zip(vals, want)) \
                and all(w is None or c == w for c, w in zip(cnts, wantc))
            if not ok:
                why = "counts %s (sum %s), values %s" % ([c.key() for c in cnts], tot.key(), [v.key() for v in vals])
        except Inconclusive as ex:
            raise AnalysisError("adsr not interpretable: %s" % ex)
    chk.decide(ok, "C19.segments", W("adsr"), "attack i/a x int(a+.5), decay 1+i(s-1)/d x int(d+.5), sustain s, release "
               "s - i*s/r x int(r+.5); lengths sum to int(dur + .5)", why="adsr segments differ from the documented "
               "piecewise-linear shape" + (": " + why if not ok and 'why' in dir() else ""), node=fn)
    # attack
    at = repo.find(LS, "attack")
    # the two counted ramps (the sustain loop, when it is a top-level ``for`` over the sustain iterator, is not one of them)
    loops = [s for s in docstring_free(at.body) if isinstance(s, ast.For) and unparse(s.iter) != "it_s"]
    ok = len(loops) == 2
    if ok:
        env = {}
        for st in docstring_free(at.body):
            if isinstance(st, ast.Assign) and isinstance(st.targets[0], ast.Name):
                try:
                    env[st.targets[0].id] = Evaluator(env).ev(st.value)
                except Inconclusive:
                    pass
        try:
            i = RF.sym("i")
            c = [Evaluator(env).ev(l.iter.args[0]) for l in loops]
            v = [Evaluator(dict(env, **{unparse(l.target): i})).ev(l.body[0].value.value) for l in loops]
            a, d, sv = RF.sym("a"), RF.sym("d"), RF.sym("s")
            ok = c[0] == opaque("int", a + half) and c[1] == opaque("int", d + half) and v[0] == i / a \
                and v[1] == 1 + i * (sv - 1) / d
        except (Inconclusive, AttributeError, IndexError):
            ok = False
    # which sustain for which kind of s (decision table)
    try:
        ab_ = docstring_free(at.body)
        from ..dtable import walk as _dwalk
        for it_ in (True, False):
            F_ = Facts(kinds={"s": {"Stream", "Iterable"} if it_ else {"float"}}, types={"Iterable"})

            def rba(name, value, F2, it_=it_):
                F2.forget(name)
                if name == "it_s":
                    if unparse(value) == "None":
                        F2.none.add("it_s")
                    else:
                        F2.kinds["it_s"] = {"iterator"}
                if name == "s":
                    F2.kinds["s"] = {"float"}
            w_ = _dwalk(ab_, F_, "attack", rebind=rba, strict=False)
            t_ = w_.texts()
            took = "it_s = iter(s)" in t_ and "s = next(it_s)" in t_ and t_.index("it_s = iter(s)") < t_.index("s = next(it_s)")
            sustain = [x for x in t_ if x.startswith("while True:") or x.startswith("for s in it_s:") or x.startswith("for ") and "it_s" in x]
            if it_:
                okk = took and len(sustain) == 1 and "it_s" in sustain[0]
            else:
                okk = not took and "it_s = None" in t_ and len(sustain) == 1 and sustain[0].startswith("while True:") and "yield s" in sustain[0]
                if not okk:
                    # the number repeated for ever, read by the same loop as a sustain stream
                    rep_ = [x for x in t_ if x in ("it_s = it.repeat(s)", "it_s = repeat(s)", "it_s = itertools.repeat(s)")]
                    loops_ = [st_ for st_ in w_.ran if isinstance(st_, ast.For) and unparse(st_.iter) == "it_s"]
                    okk = not took and len(rep_) == 1 and len(sustain) == 1 and len(loops_) == 1 and not loops_[0].orelse \
                        and [unparse(b_) for b_ in loops_[0].body] == ["yield %s" % unparse(loops_[0].target)]
            chk.decide(okk and w_.end == "fall", "C19.segments", W("attack"),
                       "sustain given as %s -> %s" % ("an iterable" if it_ else "a number", (sustain[0].replace("\n", " ") if sustain else "?")[:70]),
                       why="a sustain stream gives its first value to the decay and the rest to the sustain part; a number "
                           "is held for ever", node=at)
    except AnalysisError as ex:
        chk.defer(str(ex))
    tail = docstring_free(at.body)[-1]
    ok2 = isinstance(tail, ast.If) and unparse(tail.test) == "it_s is None" \
        and unparse(tail.body[0]) == "while True:\n    yield s" and isinstance(tail.orelse[0], ast.For) \
        and unparse(tail.orelse[0].iter) == "it_s"
    if not ok2 and isinstance(tail, ast.For) and unparse(tail.iter) == "it_s" and not tail.orelse:
        # one loop for both kinds of sustain (the per-kind rule above says what it_s is)
        ok2 = [unparse(b_) for b_ in tail.body] == ["yield %s" % unparse(tail.target)]
    chk.decide(ok and ok2, "C19.segments", W("attack"), "attack i/a x int(a+.5), decay 1+i(s-1)/d x int(d+.5), then "
               "sustain forever (or the rest of the sustain stream)", why="attack shape differs", node=at)
