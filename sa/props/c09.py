"""C09  Overlap-add is the windowed hop-shifted sum and inverts blocking."""
import ast

from ..core import (AnalysisError, FuncTypes, unparse, short, canon, canon_call, base_name, own_nodes,
                    docstring_free)
from ..ratfun import RF, Evaluator, Inconclusive, opaque
from ..e3 import E3, describe
from .c02 import _resolve

EXPLANATION = (
    "Static analysis of overlap_add.list / .numpy and the stft wrapper (lazy_analysis.py). Slices of the length-`size` "
    "memory are normalised to (start, stop) in linear normal form over size/hop: the shift-add writes mem[:size-hop] from "
    "mem[hop:] (equal lengths), the rest of the block iterator fills mem[size-hop:], each block emits mem[:hop] and the "
    "final flush emits mem[hop:] - complementary at one split point, so m blocks give m*hop + size - hop samples; the "
    "blocks are consumed as iterators (the second slice assignment must receive the *remaining* items); window and "
    "block are multiplied with operator.mul, sums use operator.add; normalisation gain is max over the column sums of "
    "the hop-blocked |w| (1/ceil(size/hop) without window) applied as w / gain. Routing in the stft wrapper: ola_params "
    "is copied from blk_params while it holds exactly size and hop; other options reach the overlap-add only under "
    "startswith('ola_') with exactly that prefix stripped, anything else raises TypeError; hop > size raises. Order: "
    "block * window first, then before, transform, func, inverse_transform, after (None skipped, numpy defaults only "
    "under 'is NotSpecified'). E3: peek() for size detection cannot leak StopIteration out of the generator. Not "
    "decided: the numeric sums themselves."
    " Also: C09.dispatch (decision tables): window preparation of both overlap_add strategies and of blk_gen for every kind of wnd, numpy defaults per unspecified stage, normalisation arms, wrapper guards and keyword routing, emit loops, defaults. ")

UNDECIDED = ["numeric values of the overlap sums and of the normalisation gain"]

LA = "lazy_analysis"


class SliceError(Exception):
    pass


def norm_slice(sub, env, length):
    """(start, stop) RF of a Subscript with a step-less Slice over a sequence of the given length."""
    if not (isinstance(sub, ast.Subscript) and isinstance(sub.slice, ast.Slice) and sub.slice.step is None):
        raise SliceError("not a simple slice: %s" % unparse(sub))

    def bound(e, default):
        if e is None:
            return default
        v = Evaluator(env).ev(e)
        neg = isinstance(e, ast.UnaryOp) and isinstance(e.op, ast.USub)
        return length + v if neg else v
    return bound(sub.slice.lower, RF.const(0)), bound(sub.slice.upper, length)


def run(chk, repo):
    mod = repo.mod(LA)
    W = lambda q: "%s:%s" % (mod.relpath, q)
    size, hop = RF.sym("size"), RF.sym("hop")
    e3 = E3([(m.name, m.tree) for m in repo.modules.values()])

    chk.rule("E3", "no unprotected StopIteration raiser (incl. peek()/take() without n) in the overlap_add generator frames")
    chk.rule("C09.slices", "memory slices in (start, stop) normal form: shift-add target and source have length "
                           "size-hop; emitted prefix [0, hop) and flushed suffix [hop, size) are complementary")
    chk.rule("C09.ops", "blocks are consumed through iter(); products use operator.mul, sums operator.add; window length "
                        "is checked against size")
    chk.rule("C09.gain", "normalisation: gain = max of the column sums of |w| blocked by hop, window divided by gain when "
                         "non-zero; without window [1/ceil(size/hop)] * size")
    chk.rule("C09.memo", "a result kept between calls of an stft processor / overlap_add (``if key not in cache: ... "
                         "cache[key] = value``) is keyed by everything it was computed from: every argument of the call "
                         "that the guarded computation reads is part of the key")
    from ..core import memo_dict_sites
    nmemo = 0
    for sname_, dname_ in (("rfft", "stft"), ("list", "overlap_add"), ("numpy", "overlap_add")):
        fnm = repo.strategy(LA, dname_, sname_).node
        for ifn, cache, key, reads, encl in memo_dict_sites(fnm):
            nmemo += 1
            varying = {a.arg for a in encl.args.args + encl.args.kwonlyargs} - {"self"}
            # locals computed before the test from the arguments vary with them
            for st_ in ast.walk(encl):
                if isinstance(st_, ast.Assign) and getattr(st_, "lineno", 0) < ifn.lineno and any(
                        isinstance(x, ast.Name) and x.id in varying for x in ast.walk(st_.value)):
                    for t_ in st_.targets:
                        if isinstance(t_, ast.Name):
                            varying.add(t_.id)
            in_key = {x.id for x in ast.walk(key) if isinstance(x, ast.Name)}
            missing = sorted((reads & varying) - in_key)
            chk.decide(not missing, "C09.memo", W("%s[%s]" % (dname_, sname_)),
                       "%s[%s] computed from %s" % (cache, unparse(key), sorted(reads & varying)),
                       why="the kept value depends on %s, which the key %s does not contain: a later call with another %s "
                           "gets the value computed for the first one (e.g. the analysis window of an earlier call)"
                           % (", ".join(missing), unparse(key), missing[0] if missing else ""), node=ifn)
    if nmemo == 0:
        chk.ok("C09.memo", W("stft / overlap_add"), "nothing is kept between calls", node=repo.strategy(LA, "stft", "rfft").node)
    chk.rule("C09.fresh", "a window that is modified in place (slice store / augmented assignment) was bound, on every path, "
                          "to a newly built container (list(..), [..], np.array(..), ...): the caller's window object and "
                          "whatever a window callable returns are never written to")
    chk.rule("C09.detect", "the look-ahead on the block stream (peek) and the early return for an empty input happen only "
                           "when the size has to be detected (under 'if size is None')")
    FRESH_CALLS = ("list", "np.array", "np.hstack", "np.ones", "np.zeros", "array", "tuple", "sorted", "np.asarray_chkfinite")

    def _fresh_value(v):
        if isinstance(v, (ast.ListComp, ast.List, ast.BinOp)):
            return True
        return isinstance(v, ast.Call) and unparse(v.func) in FRESH_CALLS

    def _refine(test, vals, taken):
        """abstract values of wnd ('param', 'none', 'fresh', 'other') that can make `test` come out as `taken`"""
        t = unparse(test)
        if isinstance(test, ast.UnaryOp) and isinstance(test.op, ast.Not):
            return _refine(test.operand, vals, not taken)
        if t == "wnd is None":
            return {("none" if v == "param" else v) for v in vals if v in ("param", "none")} if taken else \
                {v for v in vals if v != "none"}
        if t == "wnd is not None":
            return _refine(ast.parse("wnd is None", mode="eval").body, vals, not taken)
        if t == "wnd":
            return {v for v in vals if v != "none"} if taken else set(vals)
        if isinstance(test, ast.BoolOp) and isinstance(test.op, ast.And) and taken:
            for v_ in test.values:
                vals = _refine(v_, vals, True)
            return vals
        if isinstance(test, ast.BoolOp) and isinstance(test.op, ast.Or) and not taken:
            for v_ in test.values:
                vals = _refine(v_, vals, False)
            return vals
        return set(vals)

    def _fresh_flow(stmts, state, out):
        """state: set of abstract values wnd may hold; None when the block always leaves"""
        for st in stmts:
            if state is None:
                return None
            if isinstance(st, ast.Assign) and any(isinstance(t, ast.Name) and t.id == "wnd" for t in st.targets):
                state = {"fresh"} if _fresh_value(st.value) else ({"none"} if unparse(st.value) == "None" else {"other"})
            elif isinstance(st, ast.Assign) and any(isinstance(t, ast.Subscript) and unparse(t.value) == "wnd" for t in st.targets):
                out.append((st, set(state)))
            elif isinstance(st, ast.AugAssign) and unparse(st.target) == "wnd":
                out.append((st, set(state)))
            elif isinstance(st, ast.Expr) and isinstance(st.value, ast.Call) and isinstance(st.value.func, ast.Attribute) \
                    and unparse(st.value.func.value) == "wnd" and st.value.func.attr in ("append", "extend", "insert", "pop",
                                                                                          "reverse", "sort", "clear", "remove"):
                out.append((st, set(state)))
            elif isinstance(st, ast.If):
                a = _fresh_flow(st.body, _refine(st.test, state, True), out)
                b = _fresh_flow(st.orelse, _refine(st.test, state, False), out)
                state = b if a is None else a if b is None else (a | b)
            elif isinstance(st, (ast.For, ast.While)):
                a = _fresh_flow(st.body, set(state), out)
                state = state if a is None else (state | a)
            elif isinstance(st, ast.Try):
                a = _fresh_flow(st.body, set(state), out)
                for h in st.handlers:
                    b = _fresh_flow(h.body, set(state), out)
                    a = b if a is None else a if b is None else (a | b)
                state = a
            elif isinstance(st, ast.With):
                state = _fresh_flow(st.body, state, out)
            elif isinstance(st, (ast.Return, ast.Raise)):
                return None
        return state
    nfresh = 0
    for sname in ("list", "numpy"):
        fn_ = repo.strategy(LA, "overlap_add", sname).node
        sites = []
        _fresh_flow(docstring_free(fn_.body), {"param"}, sites)
        for st, state in sites:
            nfresh += 1
            chk.decide(state <= {"fresh"}, "C09.fresh", W("overlap_add[%s]" % sname), short(st),
                       why="on some path wnd is still the caller's object (or the object a window callable returned) when it "
                           "is written to: the caller's window is changed / shared between calls", node=st)
        npk = 0
        for n in ast.walk(fn_):
            is_peek = isinstance(n, ast.Call) and isinstance(n.func, ast.Attribute) and n.func.attr in ("peek", "take") \
                and "blk_sig" in unparse(n.func.value)
            is_ret = isinstance(n, ast.Return) and n.value is None
            if not (is_peek or is_ret):
                continue
            npk += 1
            p_, guarded = n, False
            while p_ is not None and p_ is not fn_:
                par = getattr(p_, "_parent", None)
                if isinstance(par, ast.If) and any(p_ is x for x in par.body) and unparse(par.test) in ("size is None",):
                    guarded = True
                    break
                if isinstance(par, ast.If) and any(p_ is x for x in par.orelse) and unparse(par.test) in ("size is not None",):
                    guarded = True
                    break
                p_ = par
            chk.decide(guarded, "C09.detect", W("overlap_add[%s]" % sname), "%s at line %d" % (short(n), n.lineno),
                       why="with a given size nothing is read ahead and an empty input still flushes the (zero) memory; "
                           "outside 'if size is None' the first block is always peeked / the generator may end early", node=n)
        chk.floor("C09.detect", npk, 2, "peek / bare return sites in overlap_add[%s]" % sname)
    if nfresh == 0:
        chk.ok("C09.fresh", W("overlap_add"), "the window is never written in place (re-bound instead)")
    for sname in ("list", "numpy"):
        fn = repo.strategy(LA, "overlap_add", sname).node
        Wn = W("overlap_add[%s]" % sname)
        par = [a.arg for a in fn.args.args]
        chk.require(par == ["blk_sig", "size", "hop", "wnd", "normalize"], "overlap_add.%s signature changed" % sname)
        decos = [unparse(d) for d in fn.decorator_list]
        chk.decide("tostream" in decos, "C09.ops", Wn, "decorated @tostream", why="result must be a lazy Stream", node=fn)
        sites = [s for s in e3.scan(fn) if s.in_generator]
        for s in sites:
            chk.decide(not s.escapes, "E3", Wn, describe(s),
                       why="with no blocks the size detection raises RuntimeError (PEP 479) instead of an empty output",
                       node=s.node)
        chk.floor("E3", len(sites), 1, "raiser sites in overlap_add.%s" % sname)
        body = docstring_free(fn.body)
        # defaults
        hd = [s for s in body if isinstance(s, ast.If) and unparse(s.test) == "hop is None"]
        chk.decide(len(hd) == 1 and unparse(hd[0].body[0]) == "hop = size", "C09.slices", Wn, "hop defaults to size",
                   why="without hop blocks do not overlap", node=fn)
        loops = [s for s in body if isinstance(s, ast.For)]
        chk.require(len(loops) == 2, "overlap_add.%s: main loop and flush loop not found" % sname)
        main, flush = loops
        env = {}
        for s in body:
            if isinstance(s, ast.Assign) and isinstance(s.targets[0], ast.Name):
                try:
                    env[s.targets[0].id] = Evaluator(env).ev(s.value)
                except Inconclusive:
                    pass
        try:
            if sname == "list":
                _list_variant(chk, mod, Wn, fn, body, main, flush, env, size, hop)
            else:
                _numpy_variant(chk, mod, Wn, fn, body, main, flush, env, size, hop)
        except (SliceError, Inconclusive) as ex:
            raise AnalysisError("overlap_add.%s: %s" % (sname, ex))

    # --------------------------------------------------------------- stft
    chk.rule("C09.routing", "stft wrapper: size required, hop > size rejected; ola_params = blk_params.copy() while "
                            "blk_params holds exactly {size, hop}; remaining keywords reach ola_params only under "
                            "k.startswith('ola_') with key k[len('ola_'):], otherwise TypeError; result is "
                            "ola(blk_gen(**blk_params), **ola_params) or blk_gen(**blk_params) when ola is None")
    chk.rule("C09.order", "blk_gen: window applied to the block first; funcs = [before, trans, func, itrans, after] "
                          "without the None entries, folded left to right; trans/itrans call transform/"
                          "inverse_transform(blk, size); numpy defaults only under 'is NotSpecified'")
    wr = _resolve(repo, LA, "stft[rfft].wrapper")
    Ww = W("stft[rfft].wrapper")
    wb = docstring_free(wr.body)
    # a dict filled in the loop and merged afterwards by ola_params.update(T) stands for ola_params itself
    ola_names = {"ola_params"}
    for st in wb:
        if isinstance(st, ast.Expr) and isinstance(st.value, ast.Call) and unparse(st.value.func) == "ola_params.update" \
                and len(st.value.args) == 1 and isinstance(st.value.args[0], ast.Name) and not st.value.keywords:
            tname = st.value.args[0].id
            inits_ = [x for x in wb if isinstance(x, ast.Assign) and unparse(x.targets[0]) == tname]
            if len(inits_) == 1 and unparse(inits_[0].value) in ("{}", "dict()") and wb.index(inits_[0]) < wb.index(st):
                ola_names.add(tname)
    keys_before_copy = []
    copy_seen = False
    keys_after = []
    ola_writes = []
    for st in wb:
        if isinstance(st, ast.Assign):
            t = st.targets[0]
            if unparse(t) == "blk_params" and isinstance(st.value, ast.Dict):
                keys_before_copy += [k.value for k in st.value.keys if isinstance(k, ast.Constant)]
            elif isinstance(t, ast.Subscript) and unparse(t.value) == "blk_params" and isinstance(t.slice, ast.Constant):
                (keys_after if copy_seen else keys_before_copy).append(t.slice.value)
            elif unparse(t) == "ola_params":
                copy_seen = True
                chk.decide(unparse(st.value) in ("blk_params.copy()", "dict(blk_params)", "dict(**blk_params)"), "C09.routing", Ww, short(st),
                           why="overlap-add options must start as a copy of the block options", node=st)
        elif isinstance(st, ast.For):
            for n in ast.walk(st):
                if isinstance(n, ast.Assign) and isinstance(n.targets[0], ast.Subscript) \
                        and unparse(n.targets[0].value) == "blk_params" and isinstance(n.targets[0].slice, ast.Name):
                    it = st.iter
                    if isinstance(it, (ast.List, ast.Tuple)):
                        (keys_after if copy_seen else keys_before_copy).extend(
                            e.value for e in it.elts if isinstance(e, ast.Constant))
                if isinstance(n, ast.Assign) and isinstance(n.targets[0], ast.Subscript) \
                        and unparse(n.targets[0].value) in ola_names:
                    ola_writes.append((n, st))
    chk.require(copy_seen, "stft wrapper: ola_params = blk_params.copy() not found")
    chk.decide(sorted(keys_before_copy) == ["hop", "size"], "C09.routing", Ww,
               "blk_params holds %s when ola_params is copied" % sorted(keys_before_copy),
               why="only size and hop may be shared with the overlap-add (the analysis window, transforms and hooks "
                   "must not be passed on)", node=wr)
    chk.decide(sorted(keys_after) == sorted(["wnd", "transform", "inverse_transform", "before", "after"]), "C09.routing",
               Ww, "analysis-only keys set after the copy: %s" % sorted(keys_after),
               why="blk_gen needs wnd, transform, inverse_transform, before, after", node=wr)
    chk.decide(len(ola_writes) == 1, "C09.routing", Ww, "%d write(s) into ola_params besides the copy" % len(ola_writes),
               why="options must be forwarded in exactly one place", node=wr)
    if len(ola_writes) == 1:
        n, loop = ola_writes[0]
        kv = unparse(loop.target.elts[0]) if isinstance(loop.target, ast.Tuple) else "k"
        guards = []
        p = n._parent
        while p is not None and p is not loop:
            if isinstance(p, ast.If):
                guards.append(p)
            p = getattr(p, "_parent", None)
        prefix = None
        for g in guards:
            t = g.test
            if isinstance(t, ast.Call) and unparse(t.func) == "%s.startswith" % kv and isinstance(t.args[0], ast.Constant):
                prefix = t.args[0].value
        key = n.targets[0].slice
        strip_ok = prefix is not None and unparse(key) in ("%s[len(%r):]" % (kv, prefix), "%s[%d:]" % (kv, len(prefix or "")))
        chk.decide(prefix == "ola_" and strip_ok and unparse(n.value) == unparse(loop.target.elts[1]), "C09.routing", Ww,
                   "under %s.startswith(%r): %s" % (kv, prefix, short(n)),
                   why="only ola_-prefixed options are forwarded, with exactly the prefix removed and their own value",
                   node=n)
        chk.decide(unparse(loop.iter) in ("kws.items()", "iteritems(kws)"), "C09.routing", Ww,
                   "left-over keywords come from " + unparse(loop.iter), why="must loop over the remaining keywords", node=loop)
        raises = [r for r in ast.walk(loop) if isinstance(r, ast.Raise)]
        chk.decide(len(raises) == 2 and all("TypeError" in unparse(r) for r in raises), "C09.routing", Ww,
                   "%d TypeError path(s) for unknown / unusable options" % len(raises),
                   why="an option without the prefix, or a prefixed one when ola is None, must raise TypeError", node=loop)
    # validation
    txt = [unparse(s) for s in wb]
    chk.decide(any(t.startswith("if 'size' not in kws:") and "TypeError" in t for t in txt), "C09.routing", Ww,
               "missing size raises TypeError", why="size is mandatory", node=wr)
    hv = [s for s in wb if isinstance(s, ast.If) and "'hop' in kws" in unparse(s.test)]
    ok = len(hv) == 1 and "kws['hop'] > kws['size']" in unparse(hv[0].test) and "ValueError" in unparse(hv[0].body[0])
    chk.decide(ok, "C09.routing", Ww, "hop > size raises ValueError: " + (unparse(hv[0].test) if hv else "?"),
               why="blocks would skip samples: no reconstruction", node=wr)
    tail = wb[-1]
    ok = isinstance(tail, ast.If) and unparse(tail.test) == "ola is None" \
        and unparse(tail.body[0]) == "return blk_gen(**blk_params)" \
        and unparse(tail.orelse[0]) == "return ola(blk_gen(**blk_params), **ola_params)"
    chk.decide(ok, "C09.routing", Ww, short(tail)[:100], why="wrapper must return the block generator, overlap-added "
               "with exactly ola_params when an overlap-add strategy is set", node=tail)
    od = [s for s in wb if isinstance(s, ast.Assign) and unparse(s.targets[0]) == "ola"]
    chk.decide(len(od) == 1 and unparse(od[0].value) == "kws.pop('ola', overlap_add)", "C09.routing", Ww,
               short(od[0]) if od else "ola missing", why="default overlap-add strategy", node=wr)

    chk.rule("C09.merge", "keyword precedence: in the partial/decorator style (func is None) newly given keywords "
                          "override the stored ones; in the wrapper call-time keywords override both")
    sf = repo.strategy(LA, "stft", "rfft").node
    arm = [s_ for s_ in docstring_free(sf.body) if isinstance(s_, ast.If) and unparse(s_.test) == "func is None"]
    chk.require(len(arm) == 1, "stft: 'if func is None' arm not found")
    lam = [n for n in ast.walk(arm[0]) if isinstance(n, ast.Lambda) and n.args.kwarg is not None
           and any(isinstance(c, ast.Call) and unparse(c.func) == "stft" for c in ast.walk(n.body))]
    ok = False
    detail = "?"
    if len(lam) == 1:
        new_kw = lam[0].args.kwarg.arg
        call = [c for c in ast.walk(lam[0].body) if isinstance(c, ast.Call) and unparse(c.func) == "stft"][0]
        star = [k.value for k in call.keywords if k.arg is None]
        detail = short(call)
        if len(star) == 1:
            m = star[0]
            if isinstance(m, ast.Call) and unparse(m.func) == "mix_dict" and [unparse(a) for a in m.args] == ["kwparams", new_kw]:
                md = [n for n in ast.walk(arm[0]) if isinstance(n, ast.Assign) and unparse(n.targets[0]) == "mix_dict"]
                ok = len(md) == 1 and unparse(md[0].value) == "lambda *dicts: dict(cfi((iteritems(d) for d in dicts)))"
                if len(md) == 1 and not ok and isinstance(md[0].value, ast.Lambda) and md[0].value.args.vararg is not None \
                        and isinstance(md[0].value.body, ast.DictComp) and len(md[0].value.body.generators) == 2:
                    # {k: v for d in dicts for k, v in d.items()}: the dictionaries in the order given, a later one wins
                    dc_, va_ = md[0].value.body, md[0].value.args.vararg.arg
                    g0_, g1_ = dc_.generators
                    ok = unparse(g0_.iter) == va_ and not g0_.ifs and not g1_.ifs and isinstance(g0_.target, ast.Name) \
                        and unparse(g1_.iter) in ("%s.items()" % g0_.target.id, "iteritems(%s)" % g0_.target.id) \
                        and isinstance(g1_.target, ast.Tuple) and len(g1_.target.elts) == 2 \
                        and [unparse(dc_.key), unparse(dc_.value)] == [unparse(t_) for t_ in g1_.target.elts]
                mdef = [n for n in ast.walk(arm[0]) if isinstance(n, FuncTypes) and n.name == "mix_dict"]
                if not md and len(mdef) == 1 and mdef[0].args.vararg is not None:
                    # def mix_dict(*dicts): r = {} ; for d in dicts: (r.update(d) | for k, v in items(d): r[k] = v) ; return r
                    va_ = mdef[0].args.vararg.arg
                    b_ = docstring_free(mdef[0].body)
                    ok = len(b_) == 3 and isinstance(b_[0], ast.Assign) and unparse(b_[0].value) in ("{}", "dict()") \
                        and isinstance(b_[1], ast.For) and unparse(b_[1].iter) == va_ and isinstance(b_[2], ast.Return) \
                        and unparse(b_[2].value) == unparse(b_[0].targets[0])
                    if ok:
                        r_ = unparse(b_[0].targets[0])
                        d_ = unparse(b_[1].target)
                        inner_ = b_[1].body
                        ok = len(inner_) == 1 and (
                            unparse(inner_[0]) == "%s.update(%s)" % (r_, d_) or
                            (isinstance(inner_[0], ast.For) and unparse(inner_[0].iter) in ("iteritems(%s)" % d_, "%s.items()" % d_)
                             and isinstance(inner_[0].target, ast.Tuple) and len(inner_[0].body) == 1
                             and unparse(inner_[0].body[0]) == "%s[%s] = %s" % (r_, unparse(inner_[0].target.elts[0]),
                                                                               unparse(inner_[0].target.elts[1]))))
            elif isinstance(m, ast.Call) and unparse(m.func) == "dict" and len(m.args) == 1 and unparse(m.args[0]) == "kwparams" \
                    and [unparse(k.value) for k in m.keywords if k.arg is None] == [new_kw]:
                ok = True           # dict(kwparams, **new_kws): the later (new) keywords win
    chk.decide(ok, "C09.merge", W("stft[rfft]"), "partial style merges stored then new keywords: " + detail,
               why="a keyword given again in the partial/decorator style (wnd, hop, ola_*) must replace the stored one; "
                   "here the stored value wins or the merge is not recognised as 'stored first, new last'", node=arm[0])
    kw0 = [unparse(s_) for s_ in wb[:2]]
    chk.decide(kw0 == ["kws = kwparams.copy()", "kws.update(kwargs)"] or kw0[:1] == ["kws = dict(kwparams, **kwargs)"],
               "C09.merge", Ww, " ; ".join(kw0),
               why="call-time keywords must override the stored ones", node=wr)

    bg = _resolve(repo, LA, "stft[rfft].wrapper.blk_gen")
    Wb = W("stft[rfft].wrapper.blk_gen")
    bb = docstring_free(bg.body)
    # numpy defaults
    nd = [s for s in bb if isinstance(s, ast.If) and isinstance(s.body[0], ast.ImportFrom)]
    ok = len(nd) == 4 and all(unparse(s.test).endswith("is NotSpecified") for s in nd)
    chk.decide(ok, "C09.order", Wb, "%d numpy defaults, each under 'is NotSpecified'" % len(nd),
               why="None must mean 'no such stage', not 'numpy default'", node=bg)
    for nm, fnm in (("trans", "transform"), ("itrans", "inverse_transform")):
        a = [s for s in bb if isinstance(s, ast.Assign) and unparse(s.targets[0]) == nm]
        ok = len(a) == 1 and isinstance(a[0].value, ast.BoolOp) and isinstance(a[0].value.op, ast.And) \
            and unparse(a[0].value.values[0]) == fnm and isinstance(a[0].value.values[1], ast.Lambda) \
            and unparse(a[0].value.values[1].body) == "%s(%s, size)" % (fnm, a[0].value.values[1].args.args[0].arg)
        chk.decide(ok, "C09.order", Wb, short(a[0]) if a else nm + " missing",
                   why="%s must call %s(block, size) (and stay None when %s is None)" % (nm, fnm, fnm), node=bg)
    fa = [s for s in bb if isinstance(s, ast.Assign) and unparse(s.targets[0]) == "funcs"]
    ok = False
    if len(fa) == 1 and isinstance(fa[0].value, ast.ListComp):
        lc = fa[0].value
        g = lc.generators[0]
        ok = unparse(g.iter) == "[before, trans, func, itrans, after]" and unparse(lc.elt) == unparse(g.target) \
            and len(g.ifs) == 1 and unparse(g.ifs[0]) == "%s is not None" % unparse(g.target)
    chk.decide(ok, "C09.order", Wb, short(fa[0]) if fa else "funcs missing",
               why="processing order must be before, transform, func, inverse transform, after; None stages skipped",
               node=bg)
    pa = [s for s in bb if isinstance(s, ast.Assign) and unparse(s.targets[0]) == "process"]
    ok = len(pa) == 1 and unparse(pa[0].value) == "lambda blk: reduce(lambda data, f: f(data), funcs, blk)"
    pdef = [s for s in bb if isinstance(s, FuncTypes) and s.name == "process"]
    if not pa and len(pdef) == 1 and len(pdef[0].args.args) == 1:
        # def process(data): for f in funcs: data = f(data) ; return data      (the same left fold)
        dn_ = pdef[0].args.args[0].arg
        pb_ = docstring_free(pdef[0].body)
        ok = len(pb_) == 2 and isinstance(pb_[0], ast.For) and unparse(pb_[0].iter) == "funcs" and len(pb_[0].body) == 1 \
            and unparse(pb_[0].body[0]) == "%s = %s(%s)" % (dn_, unparse(pb_[0].target), dn_) \
            and unparse(pb_[1]) == "return %s" % dn_
        pa = pdef
    chk.decide(ok, "C09.order", Wb, short(pa[0]) if pa else "process missing",
               why="stages must be applied left to right to the running data", node=bg)
    wi = [s for s in bb if isinstance(s, ast.If) and unparse(s.test) == "wnd is None"]
    if len(wi) > 1:
        # the test may also guard the preparation of the window; the emitting one is what is read here
        wi = [s for s in wi if any(isinstance(n_, (ast.Yield, ast.YieldFrom)) for n_ in ast.walk(s))
              or (isinstance(s.body[-1], ast.Return) and s.body[-1].value is None)]
    chk.require(len(wi) == 1, "blk_gen: 'if wnd is None' not found")
    nowin, win = wi[0].body, wi[0].orelse
    if not win and nowin and isinstance(nowin[-1], ast.Return) and nowin[-1].value is None:
        # guard-clause form: the windowed loop is what follows the ``if``
        nowin, win = nowin[:-1], bb[bb.index(wi[0]) + 1:]

    def blocks_of(e):
        """the loop source, through a local bound once (before the window test) to the block stream"""
        if isinstance(e, ast.Name):
            defs_ = [s_ for s_ in ast.walk(bg) if isinstance(s_, ast.Assign) and any(
                isinstance(t_, ast.Name) and t_.id == e.id for t_ in s_.targets)]
            uses_ = [n_ for n_ in ast.walk(wi[0]) if isinstance(n_, ast.For) and isinstance(n_.iter, ast.Name) and n_.iter.id == e.id]
            if len(defs_) == 1 and defs_[0] in bb and bb.index(defs_[0]) < bb.index(wi[0]) \
                    and sum(1 for a_ in (nowin, win) if any(u_ in list(ast.walk(ast.Module(body=a_, type_ignores=[]))) for u_ in uses_)) \
                    == len(uses_):
                return unparse(defs_[0].value)
        return unparse(e)
    l0 = [s for s in nowin if isinstance(s, ast.For)]
    ok = len(l0) == 1 and blocks_of(l0[0].iter) == "Stream(sig).blocks(size=size, hop=hop)" \
        and [unparse(s) for s in l0[0].body] == ["yield process(%s)" % unparse(l0[0].target)]
    chk.decide(ok, "C09.order", Wb, "no window: " + (short(l0[0]) if l0 else "?"),
               why="each block of the signal (size, hop) is processed once", node=bg)
    l1 = [s for s in win if isinstance(s, ast.For)]
    ok = len(l1) == 1 and blocks_of(l1[0].iter) == "Stream(sig).blocks(size=size, hop=hop)" and len(l1[0].body) == 2
    if ok:
        b0, b1 = l1[0].body
        blkv = unparse(l1[0].target)
        ok = isinstance(b0, ast.Assign) and isinstance(b0.value, ast.Call) and canon_call(mod, b0.value) == "map" \
            and sorted(unparse(a) for a in b0.value.args[1:]) == sorted([blkv, "wnd"]) \
            and isinstance(b1, ast.Expr) and isinstance(b1.value, ast.Yield) \
            and unparse(b1.value.value) == "process(%s)" % unparse(b0.targets[0].value if isinstance(b0.targets[0], ast.Subscript) else b0.targets[0])
        mulname = unparse(b0.value.args[0]) if ok else None
        if ok:
            md = [s for s in win if isinstance(s, ast.Assign) and unparse(s.targets[0]) == mulname]
            ok = (len(md) == 1 and canon(mod, md[0].value) == "operator.mul") or canon(mod, b0.value.args[0]) == "operator.mul"
        elif isinstance(b0, ast.Assign) and isinstance(b0.value, (ast.ListComp, ast.GeneratorExp)) \
                and len(b0.value.generators) == 1 and not b0.value.generators[0].ifs:
            # [el * w for el, w in zip(blk, wnd)]: the same element-wise product
            g_ = b0.value.generators[0]
            e_ = b0.value.elt
            okz = isinstance(g_.iter, ast.Call) and unparse(g_.iter.func) in ("xzip", "zip") \
                and sorted(unparse(a) for a in g_.iter.args) == sorted([blkv, "wnd"]) and isinstance(g_.target, ast.Tuple) \
                and len(g_.target.elts) == 2 and isinstance(e_, ast.BinOp) and isinstance(e_.op, ast.Mult) \
                and sorted([unparse(e_.left), unparse(e_.right)]) == sorted(unparse(t_) for t_ in g_.target.elts)
            ok = okz and isinstance(b1, ast.Expr) and isinstance(b1.value, ast.Yield) \
                and unparse(b1.value.value) == "process(%s)" % unparse(b0.targets[0].value if isinstance(b0.targets[0], ast.Subscript) else b0.targets[0])
    chk.decide(ok, "C09.order", Wb, "window: " + (" ; ".join(unparse(s) for s in l1[0].body) if l1 else "?"),
               why="the block must be multiplied by the analysis window (operator.mul, element by element) before any "
                   "user stage sees it", node=bg)
    wl = [n for n in ast.walk(bg) if isinstance(n, ast.If) and any(unparse(c_) in ("len(wnd) != size", "size != len(wnd)")
                                                                   for c_ in ast.walk(n.test))]
    chk.decide(len(wl) == 1 and "ValueError" in unparse(wl[0].body[0]), "C09.order", Wb, "window length checked against size",
               why="a window of another length would silently truncate the blocks (which windows are refused: C09.dispatch)",
               node=bg)
    _dispatch(chk, repo, mod, W, wr, bg)


def _dispatch(chk, repo, mod, W, wr, bg):
    """which preparation for which kind of window / option (decision tables, sa/dtable.py)"""
    from ..dtable import Facts, walk
    chk.rule("C09.dispatch", "decision tables: how overlap_add (both strategies) and stft's blk_gen prepare the window for "
                             "every kind of wnd (None, callable, list, Stream, anything else), which numpy defaults are "
                             "imported for which unspecified stage, which normalisation for which (normalize, window) "
                             "pair, which keyword goes where in the stft wrapper - the statements that run must be the "
                             "documented ones, whatever the order and spelling of the tests")
    n_tab = 0
    WK = {"None": None, "callable": {"function"}, "list": {"list", "Sequence", "Iterable"}, "Stream": {"Stream", "Iterable"},
          "number": {"float"}, "callable container": {"Iterable", "Mapping", "dict"}}

    def wnd_facts(wk, extra_truths=None, **kw):
        tr = {"callable(wnd)": wk in ("callable", "Stream", "callable container")}
        tr.update(extra_truths or {})
        return Facts(kinds={} if wk == "None" else {"wnd": WK[wk]}, none=["wnd"] if wk == "None" else [], truths=tr,
                     types={"Stream", "Iterable", "Sequence"}, **kw)

    def wnd_rebind(name, value, F_):
        F_.forget(name)
        if name == "wnd":
            tx = unparse(value)
            if tx == "wnd(size)":
                F_.kinds["wnd"] = {"list", "Sequence", "Iterable"}
                F_.truths["callable(wnd)"] = False
                F_.lens["wnd"] = 4
            elif tx.startswith(("list(", "np.array(", "np.hstack(", "np.ones(", "[")):
                F_.kinds["wnd"] = {"list", "Sequence", "Iterable", "ndarray"}
                F_.truths["callable(wnd)"] = False
                F_.lens["wnd"] = 4
            elif tx == "None":
                F_.none.add("wnd")
                F_.truths["callable(wnd)"] = False

    def sec_ola():
        nonlocal n_tab
        for sname in ("list", "numpy"):
            fn = repo.strategy(LA, "overlap_add", sname).node
            body = docstring_free(fn.body)
            # the statements between the defaults and the normalisation: window resolution
            start = [i for i, st in enumerate(body) if isinstance(st, ast.If) and unparse(st.test) in ("hop is None",)]
            chk.require(start, "overlap_add.%s: 'hop is None' default not found" % sname)
            stop = [i for i, st in enumerate(body) if isinstance(st, ast.If) and unparse(st.test) in ("normalize", "not normalize")]
            chk.require(stop and stop[0] > start[0], "overlap_add.%s: normalisation block not found" % sname)
            res = body[start[0] + 1:stop[0]]
            for wk in ("None", "callable", "callable container", "list", "Stream", "number"):
                w = walk(res, wnd_facts(wk), "overlap_add.%s window" % sname, rebind=wnd_rebind)
                n_tab += 1
                t = w.texts()
                called = "wnd = wnd(size)" in t
                if sname == "list":
                    conv = [x for x in t if x == "wnd = list(wnd)"]
                    want_conv = wk in ("callable", "callable container", "list", "Stream")
                    unit = False
                    want_unit = False
                else:
                    conv = [x for x in t if x in ("wnd = np.array(wnd)", "wnd = np.hstack(wnd)")]
                    want_conv = wk != "number"
                    unit = "wnd = np.ones(size)" in t
                    want_unit = wk == "None"
                    if wk == "Stream":
                        want_conv = conv == ["wnd = np.hstack(wnd)"]
                if wk == "number":
                    ok = w.end == "raise" and w.last is not None and "TypeError" in unparse(w.last) and not called
                else:
                    ok = w.end == "fall" and called == (wk in ("callable", "callable container")) and (len(conv) == 1) == bool(want_conv) and unit == want_unit
                    if ok and called:
                        ok = t.index("wnd = wnd(size)") < t.index(conv[0])
                chk.decide(ok, "C09.dispatch", W("overlap_add[%s]" % sname), "wnd=<%s>: %s" % (wk, "; ".join(t)[:110] or "left as it is"),
                           why="None -> no window (ones); a callable that is not a Stream (a function, or a callable container such as the "
                               "window StrategyDict) is called with size; lists, Streams "
                               "and call results are materialised; anything else is a TypeError", node=fn)
            # normalisation and application (list strategy: explicit arms)
            if sname == "list":
                rest = body[stop[0]:]
                rest = [st for st in rest if not isinstance(st, ast.For)]
                for norm in (True, False):
                    for has in (True, False):
                        F = Facts(truths={"normalize": norm, "gain": True}, lens={"wnd": 4 if has else 0},
                                  none=[] if has else ["wnd"], kinds={"wnd": {"list"}} if has else {}, values={"size": 4})

                        def rb2(name, value, F_):
                            F_.forget(name)
                            if name == "wnd":
                                F_.kinds["wnd"] = {"list"}
                                F_.lens["wnd"] = 4
                                F_.none.discard("wnd")
                            if name == "gain":
                                F_.truths["gain"] = True
                        w = walk(rest, F, "overlap_add.list normalisation", rebind=rb2, strict=False)
                        n_tab += 1
                        t = w.texts()
                        gain = any(x.startswith("gain = ") for x in t)
                        scaled = any((x.startswith("wnd[:] = ") or x.startswith("wnd = ")) and "/ gain" in x for x in t)
                        rect = [x for x in t if x.startswith("wnd = [1 / ceil(size / hop)] * size") or x.startswith("wnd = [1.0 / ceil(size / hop)] * size")]
                        applied = any("blk_sig = " in x and "wnd" in x for x in t)
                        want = dict(gain=norm and has, scaled=norm and has, rect=norm and not has, applied=has or norm)
                        got = dict(gain=gain, scaled=scaled, rect=bool(rect), applied=applied)
                        chk.decide(got == want and w.end == "fall", "C09.dispatch", W("overlap_add[list]"),
                                   "normalize=%s, %s: %s" % (norm, "window given" if has else "no window",
                                                               ", ".join(k for k, v in sorted(got.items()) if v) or "nothing"),
                                   why="normalisation divides a given window by its overlap gain, or builds the constant "
                                       "1/ceil(size/hop) window; a window (given or built) is applied to every block", node=fn)

    def sec_emit():
        nonlocal n_tab
        for sname in ("list", "numpy"):
            fn = repo.strategy(LA, "overlap_add", sname).node
            dflt = [unparse(d) for d in fn.args.defaults]
            chk.decide(dflt == ["None", "None", "None", "True"], "C09.dispatch", W("overlap_add[%s]" % sname),
                       "defaults (size, hop, wnd, normalize) = %s" % dflt,
                       why="size and hop are found from the data, no window, normalised output", node=fn)
            body = docstring_free(fn.body)
            emits = []
            for lp in [n for n in ast.walk(fn) if isinstance(n, ast.For)]:
                if isinstance(lp.iter, ast.Subscript) and isinstance(lp.iter.slice, ast.Slice) and isinstance(lp.target, ast.Name):
                    emits.append(lp)
            chk.require(len(emits) == 2, "overlap_add.%s: the two emitting loops not found" % sname)
            for lp in emits:
                okb = len(lp.body) == 1 and isinstance(lp.body[0], ast.Expr) and isinstance(lp.body[0].value, ast.Yield) \
                    and unparse(lp.body[0].value.value) == lp.target.id and not lp.orelse
                chk.decide(okb, "C09.dispatch", W("overlap_add[%s]" % sname), "for %s in %s: %s" % (lp.target.id, unparse(lp.iter),
                                                                                                 "; ".join(unparse(b) for b in lp.body)),
                           why="every sample of the finished part is handed out, once, as it is", node=lp)
            if sname == "list":
                main = [st for st in body if isinstance(st, ast.For)][0]
                inner_ifs = [st for st in main.body if isinstance(st, ast.If)]
                for wrong in (False, True):
                    F = Facts(truths={"len(mem) != size": wrong, "len(mem) == size": not wrong})
                    w = walk(inner_ifs, F, "overlap_add.list block size check")
                    n_tab += 1
                    ok = (w.end == "raise" and "ValueError" in unparse(w.last)) if wrong else w.end == "fall"
                    chk.decide(ok, "C09.dispatch", W("overlap_add[list]"), "block of the %s size -> %s"
                               % ("wrong" if wrong else "declared", unparse(w.last) if w.last is not None else "accepted"),
                               why="a block of another size is refused, a good one is not", node=main)

    def sec_blkgen():
        nonlocal n_tab
        body = docstring_free(bg.body)
        # from the first statement that looks at the window (after the numpy defaults) to the padded transforms
        lo = [i for i, st in enumerate(body) if any(isinstance(n_, ast.Name) and n_.id == "wnd" for n_ in ast.walk(st))]
        hi = [i for i, st in enumerate(body) if isinstance(st, ast.Assign) and unparse(st.targets[0]) == "trans"]
        chk.require(lo and hi and lo[0] < hi[0], "blk_gen: window resolution not found")
        res = body[lo[0]:hi[0]]
        for wk in ("None", "callable", "callable container", "list", "Stream", "number"):
            for fits in (True, False):
                F = wnd_facts(wk, lens={"wnd": 4} if wk in ("list", "Stream") else {}, values={"size": 4 if fits else 5})
                w = walk(res, F, "blk_gen window", rebind=wnd_rebind)
                n_tab += 1
                t = w.texts()
                last = unparse(w.last) if w.last is not None else ""
                if wk == "number":
                    ok = w.end == "raise" and "TypeError" in last
                elif wk == "None":
                    ok = w.end == "fall" and set(t) <= {"wnd = None"}
                elif not fits:
                    ok = w.end == "raise" and "ValueError" in last
                else:
                    ok = w.end == "fall" and ("wnd = wnd(size)" in t) == (wk in ("callable", "callable container")) and "wnd = list(wnd)" in t
                chk.decide(ok, "C09.dispatch", W("stft[rfft].wrapper.blk_gen"),
                           "wnd=<%s>%s: %s" % (wk, "" if fits else " of another length", "; ".join(t)[:90] or "left as it is"),
                           why="as in overlap_add, plus ValueError when the window length is not the block size", node=bg)
        # numpy defaults
        want_imp = {"transform": "rfft", "inverse_transform": "irfft", "before": "ifftshift", "after": "fftshift"}
        head = body[:lo[0]]
        for unspecified in ([], ["transform"], ["inverse_transform"], ["before"], ["after"], list(want_imp)):
            F = Facts(truths=dict(("%s is NotSpecified" % k, k in unspecified) for k in want_imp))
            F.truths.update(dict(("%s is not NotSpecified" % k, k not in unspecified) for k in want_imp))
            w = walk(head, F, "blk_gen defaults")
            n_tab += 1
            got = {}
            for st in w.ran:
                if isinstance(st, ast.ImportFrom) and st.module == "numpy.fft":
                    for al in st.names:
                        got[al.asname or al.name] = al.name
            chk.decide(got == dict((k, want_imp[k]) for k in unspecified), "C09.dispatch", W("stft[rfft].wrapper.blk_gen"),
                       "unspecified %s -> numpy.fft %s" % (unspecified or "nothing", sorted(got.items()) or "nothing imported"),
                       why="a stage that was given (even None) is never replaced; an unspecified one gets its numpy default", node=bg)
        # with / without window
        tailb = [st for st in body[hi[0]:] if isinstance(st, ast.If)]
        # the window test and whatever follows it (guard-clause form: the windowed loop comes after the ``if``)
        emit = body[body.index(tailb[-1]):] if tailb else []
        for has in (False, True):
            F = Facts(none=[] if has else ["wnd"], kinds={"wnd": {"list"}} if has else {}, lens={"wnd": 4} if has else {})
            w = walk(emit, F, "blk_gen emit", strict=False)
            n_tab += 1
            allt = "\n".join(w.texts())
            uses = "wnd" in allt
            chk.decide(uses == has and "yield process(" in allt, "C09.dispatch", W("stft[rfft].wrapper.blk_gen"),
                       "%s window -> blocks %s" % ("with" if has else "without", "multiplied by it" if uses else "processed as they are"),
                       why="blocks are windowed exactly when a window was given", node=bg)

    def sec_wrapper():
        nonlocal n_tab
        wb = docstring_free(wr.body)
        guards = []
        for st in wb:
            if isinstance(st, ast.Assign) and unparse(st.targets[0]) == "blk_params":
                break
            if isinstance(st, ast.If):
                guards.append(st)
        for has_size in (True, False):
            for hopk in ("absent", "small", "large"):
                F = Facts(truths={"'size' not in kws": not has_size, "'size' in kws": has_size,
                                  "'hop' in kws": hopk != "absent", "'hop' not in kws": hopk == "absent",
                                  "kws['hop'] > kws['size']": hopk == "large", "kws['hop'] <= kws['size']": hopk == "small",
                                  "kws['size'] < kws['hop']": hopk == "large"},
                          raising=["kws['hop'] > kws['size']", "kws['hop'] <= kws['size']", "kws['size'] < kws['hop']"] if hopk == "absent" else [])
                w = walk(guards, F, "stft wrapper guards")
                n_tab += 1
                last = unparse(w.last) if w.last is not None else ""
                if not has_size:
                    ok = w.end == "raise" and "TypeError" in last
                elif hopk == "large":
                    ok = w.end == "raise" and "ValueError" in last
                else:
                    ok = w.end == "fall"
                chk.decide(ok, "C09.dispatch", W("stft[rfft].wrapper"),
                           "size %s, hop %s -> %s" % ("given" if has_size else "missing", hopk, last[:60] or ("accepted" if w.end == "fall" else "guard raises")),
                           why="size is required; a hop larger than size is refused; anything else is accepted", node=wr)
        for st in ast.walk(wr):
            if isinstance(st, ast.Assign) and len(st.targets) == 1 and isinstance(st.targets[0], ast.Subscript) \
                    and isinstance(st.value, ast.Call) and unparse(st.value.func) == "kws.pop" and unparse(st.targets[0].value) == "blk_params":
                chk.decide(len(st.value.args) >= 1 and unparse(st.value.args[0]) == unparse(st.targets[0].slice), "C09.dispatch",
                           W("stft[rfft].wrapper"), short(st), why="each option is popped under its own name", node=st)
        loops = [st for st in wb if isinstance(st, ast.For) and "kws" in unparse(st.iter) and isinstance(st.target, ast.Tuple)]
        chk.require(len(loops) == 1, "stft wrapper: loop over the remaining keywords not found")
        kname = unparse(loops[0].target.elts[0])
        for is_ola in (True, False):
            for has_ola in (True, False):
                F = Facts(truths={"%s.startswith('ola_')" % kname: is_ola, "ola is not None": has_ola, "ola is None": not has_ola},
                          none=[] if has_ola else ["ola"], kinds={"ola": {"function"}} if has_ola else {})
                w = walk(loops[0].body, F, "stft wrapper keywords")
                n_tab += 1
                t = w.texts()
                if is_ola and has_ola:
                    ok = w.end == "fall" and len(t) == 1 and t[0].startswith("ola_params[") or (w.end == "fall" and len(t) == 1 and "[%s[len('ola_'):]] = " % kname in t[0])
                else:
                    ok = w.end == "raise" and "TypeError" in unparse(w.last)
                chk.decide(ok, "C09.dispatch", W("stft[rfft].wrapper"),
                           "%s keyword, ola %s -> %s" % ("ola_*" if is_ola else "other", "given" if has_ola else "None", "; ".join(t)[:80]),
                           why="ola_* options reach the overlap-add strategy when there is one; every other leftover is a TypeError", node=wr)
    for sec in (sec_ola, sec_emit, sec_blkgen, sec_wrapper):
        try:
            sec()
        except AnalysisError as ex:
            chk.defer(str(ex))
    chk.floor("C09.dispatch", n_tab, 40, "scenarios walked")


def _list_variant(chk, mod, Wn, fn, body, main, flush, env, size, hop):
    mem = [s for s in body if isinstance(s, ast.Assign) and unparse(s.targets[0]) == "mem"]
    ok = len(mem) == 1 and unparse(mem[0].value) in ("[0.0] * size", "size * [0.0]")
    chk.decide(ok, "C09.slices", Wn, short(mem[0]) if mem else "mem missing", why="memory must be `size` zeros", node=fn)
    chk.decide(env.get("s_h") is not None and env["s_h"] == size - hop, "C09.slices", Wn,
               "s_h = %s" % (env["s_h"].key() if env.get("s_h") is not None else "?"),
               why="split point of the shift-add must be size - hop", node=fn)
    it = main.iter
    ok = isinstance(it, ast.Call) and canon_call(mod, it) == "map" and unparse(it.args[0]) == "iter" \
        and unparse(it.args[1]) == "blk_sig"
    chk.decide(ok, "C09.ops", Wn, "blocks consumed as iterators: for %s in %s" % (unparse(main.target), unparse(it)),
               why="the second slice assignment must receive the items the shift-add left in the block iterator; with a "
                   "list the whole block would be appended", node=main)
    blk = unparse(main.target)
    b = main.body
    asg = [s for s in b if isinstance(s, ast.Assign) and isinstance(s.targets[0], ast.Subscript)]
    chk.require(len(asg) == 2, "overlap_add.list: the two slice assignments not found")
    a1, a2 = asg
    t1 = norm_slice(a1.targets[0], env, size)
    ok = isinstance(a1.value, ast.Call) and canon_call(mod, a1.value) == "map" and len(a1.value.args) == 3
    src = None
    if ok:
        addn, srcs, blkarg = a1.value.args
        addok = canon(mod, addn) == "operator.add" or any(
            isinstance(s, ast.Assign) and unparse(s.targets[0]) == unparse(addn) and canon(mod, s.value) == "operator.add"
            for s in body)
        src = norm_slice(srcs, env, size)
        ok = addok and unparse(blkarg) == blk and unparse(srcs.value) == "mem"
    chk.decide(ok, "C09.ops", Wn, short(a1), why="shift-add must be map(operator.add, mem[hop:], block iterator)", node=a1)
    if src is not None:
        l_t, l_s = t1[1] - t1[0], src[1] - src[0]
        chk.decide(t1[0] == 0 and t1[1] == size - hop and src[0] == hop and src[1] == size and l_t == l_s, "C09.slices",
                   Wn, "shift-add: mem[%s:%s] <- mem[%s:%s] + block" % (t1[0].key(), t1[1].key(), src[0].key(), src[1].key()),
                   why="target must be [0, size-hop) and source [hop, size): the old tail moves to the front and meets "
                       "the head of the new block", node=a1)
    t2 = norm_slice(a2.targets[0], env, size)
    chk.decide(t2[0] == size - hop and t2[1] == size and unparse(a2.value) == blk, "C09.slices", Wn,
               "rest of the block: mem[%s:%s] <- remaining items" % (t2[0].key(), t2[1].key()),
               why="the remaining hop items of the block must fill [size-hop, size)", node=a2)
    order_ok = b.index(a1) < b.index(a2)
    chk.decide(order_ok, "C09.slices", Wn, "shift-add precedes the tail assignment",
               why="the tail assignment exhausts the block iterator", node=main)
    em = [s for s in b if isinstance(s, ast.For)]
    chk.require(len(em) == 1, "overlap_add.list: emit loop not found")
    e1 = norm_slice(em[0].iter, env, size)
    f1 = norm_slice(flush.iter, env, size)
    chk.decide(unparse(em[0].iter.value) == "mem" and unparse(flush.iter.value) == "mem" and e1[0] == 0 and e1[1] == hop
               and f1[0] == hop and f1[1] == size, "C09.slices", Wn,
               "emit mem[%s:%s] per block, flush mem[%s:%s] at the end" % (e1[0].key(), e1[1].key(), f1[0].key(), f1[1].key()),
               why="emitted prefix and flushed suffix must be [0, hop) and [hop, size): m blocks give m*hop + size - hop "
                   "samples, none lost or repeated", node=flush)
    chk.decide([unparse(s) for s in em[0].body] == ["yield %s" % unparse(em[0].target)]
               and [unparse(s) for s in flush.body] == ["yield %s" % unparse(flush.target)]
               and b.index(em[0]) > b.index(a2), "C09.slices", Wn, "samples are yielded unchanged, after the block was added",
               why="emit after accumulate", node=main)
    # window
    wi = [s for s in body if isinstance(s, ast.If) and unparse(s.test) == "wnd" and any(
        isinstance(n, ast.Assign) and unparse(n.targets[0]) == "blk_sig" for n in ast.walk(s))]
    chk.require(len(wi) == 1, "overlap_add.list: window application block not found")
    ba = [n for n in ast.walk(wi[0]) if isinstance(n, ast.Assign) and unparse(n.targets[0]) == "blk_sig"][0]
    ok = isinstance(ba.value, ast.GeneratorExp) and unparse(ba.value.generators[0].iter) == "blk_sig"
    if ok:
        e = ba.value.elt
        bv = unparse(ba.value.generators[0].target)
        ok = isinstance(e, ast.Call) and canon_call(mod, e) == "map" and sorted(unparse(a) for a in e.args[1:]) == sorted(["wnd", bv])
        if ok:
            mn = e.args[0]
            ok = canon(mod, mn) == "operator.mul" or any(
                isinstance(s, ast.Assign) and unparse(s.targets[0]) == unparse(mn) and canon(mod, s.value) == "operator.mul"
                for s in ast.walk(wi[0]))
    chk.decide(ok, "C09.ops", Wn, short(ba), why="each block must be multiplied element-wise by the window", node=ba)
    lc = [n for n in ast.walk(wi[0]) if isinstance(n, ast.If) and unparse(n.test) == "len(wnd) != size"]
    if not lc:
        # the same test on its own, just before the window is applied: ``if wnd and len(wnd) != size: raise``
        before_ = body[:body.index(wi[0])]
        lc = [n for n in before_[-1:] if isinstance(n, ast.If) and not n.orelse
              and unparse(n.test) in ("wnd and len(wnd) != size", "wnd and size != len(wnd)")]
    chk.decide(len(lc) == 1 and "ValueError" in unparse(lc[0].body[0]), "C09.ops", Wn, "window length must equal size",
               why="a shorter window would truncate the blocks silently", node=wi[0])
    # gain
    ni = [s for s in body if isinstance(s, ast.If) and unparse(s.test) == "normalize"]
    chk.require(len(ni) == 1, "overlap_add.list: normalisation block not found")
    inner = ni[0].body[0]
    ok = isinstance(inner, ast.If) and unparse(inner.test) == "wnd"
    if ok:
        tb = [unparse(s) for s in inner.body]
        ok = tb[0] == "steps = Stream(wnd).map(abs).blocks(hop).map(tuple)" and tb[1] in (
            "gain = max(xmap(sum, xzip(*steps)))", "gain = max(map(sum, zip(*steps)))") \
            and isinstance(inner.body[2], ast.If) and unparse(inner.body[2].test) == "gain" \
            and unparse(inner.body[2].body[0]) in ("wnd[:] = (w / gain for w in wnd)", "wnd[:] = [w / gain for w in wnd]",
                                                   "wnd = [w / gain for w in wnd]")
        chk.decide(ok, "C09.gain", Wn, " ; ".join(tb)[:160], why="gain must be the largest hop-strided sum of |w| and the "
                   "window must be divided by it", node=inner)
        eb = inner.orelse
        try:
            v = eb[0].value
            okn = isinstance(v, ast.BinOp) and isinstance(v.op, ast.Mult) and isinstance(v.left, ast.List) \
                and unparse(v.right) == "size" and Evaluator().ev(v.left.elts[0]) == 1 / opaque("ceil", size / hop)
        except (Inconclusive, AttributeError, IndexError):
            okn = False
        chk.decide(okn, "C09.gain", Wn, "no window: " + (short(eb[0]) if eb else "?"),
                   why="without window the gain is 1/ceil(size/hop) on every sample", node=inner)
    else:
        chk.bad("C09.gain", Wn, "normalisation block", "expected 'if wnd:' inside 'if normalize:'", node=ni[0])


def _numpy_variant(chk, mod, Wn, fn, body, main, flush, env, size, hop):
    old = [s for s in body if isinstance(s, ast.Assign) and unparse(s.targets[0]) == "old"]
    chk.decide(len(old) == 1 and unparse(old[0].value) == "np.zeros(size)", "C09.slices", Wn,
               short(old[0]) if old else "old missing", why="memory must be `size` zeros", node=fn)
    it = main.iter
    ok = isinstance(it, ast.GeneratorExp) and unparse(it.generators[0].iter) == "blk_sig" \
        and isinstance(it.elt, ast.BinOp) and isinstance(it.elt.op, ast.Mult) \
        and sorted([unparse(it.elt.left), unparse(it.elt.right)]) == sorted(["wnd", unparse(it.generators[0].target)])
    chk.decide(ok, "C09.ops", Wn, "for %s in %s" % (unparse(main.target), unparse(it)),
               why="each block must be multiplied by the window", node=main)
    blk = unparse(main.target)
    b = main.body
    aug = [s for s in b if isinstance(s, ast.AugAssign)]
    chk.require(len(aug) == 1, "overlap_add.numpy: shift-add not found")
    t = norm_slice(aug[0].target, env, size)
    s = norm_slice(aug[0].value, env, size)
    chk.decide(isinstance(aug[0].op, ast.Add) and unparse(aug[0].target.value) == blk and unparse(aug[0].value.value) == "old"
               and t[0] == 0 and t[1] == size - hop and s[0] == hop and s[1] == size, "C09.slices", Wn,
               "shift-add: %s[%s:%s] += old[%s:%s]" % (blk, t[0].key(), t[1].key(), s[0].key(), s[1].key()),
               why="head of the new block [0, size-hop) must receive the old tail [hop, size)", node=aug[0])
    em = [x for x in b if isinstance(x, ast.For)]
    chk.require(len(em) == 1, "overlap_add.numpy: emit loop not found")
    e1 = norm_slice(em[0].iter, env, size)
    f1 = norm_slice(flush.iter, env, size)
    chk.decide(unparse(em[0].iter.value) == blk and unparse(flush.iter.value) == "old" and e1[0] == 0 and e1[1] == hop
               and f1[0] == hop and f1[1] == size, "C09.slices", Wn,
               "emit %s[%s:%s] per block, flush old[%s:%s] at the end" % (blk, e1[0].key(), e1[1].key(), f1[0].key(), f1[1].key()),
               why="emitted prefix and flushed suffix must be complementary at hop", node=flush)
    last = b[-1]
    chk.decide(unparse(last) == "old = %s" % blk and b.index(aug[0]) < b.index(em[0]) < b.index(last), "C09.slices", Wn,
               "block becomes the memory after being emitted: " + unparse(last),
               why="the un-emitted tail must be kept for the next block", node=main)
    ni = [s for s in body if isinstance(s, ast.If) and unparse(s.test) == "normalize"]
    chk.require(len(ni) == 1, "overlap_add.numpy: normalisation block not found")
    tb = [unparse(s) for s in ni[0].body]
    ok = tb[0] == "steps = Stream(wnd).blocks(hop).map(np.array)" and tb[1] == "gain = np.sum(np.abs(np.vstack(steps)), 0).max()" \
        and isinstance(ni[0].body[2], ast.If) and unparse(ni[0].body[2].test) == "gain" \
        and unparse(ni[0].body[2].body[0]) == "wnd = wnd / gain"
    chk.decide(ok, "C09.gain", Wn, " ; ".join(tb)[:160], why="gain must be the largest hop-strided sum of |w|; window "
               "divided by it", node=ni[0])
