"""C08  Blocks are the hop-spaced windows of the input, padded only at the end."""
import ast

from ..core import AnalysisError, FuncTypes, unparse, short, canon, canon_call, base_name, own_nodes, docstring_free
from ..ratfun import RF, Evaluator, Inconclusive, opaque
from .. import e2
from ..segments import summarise, NotSimple

EXPLANATION = (
    "Static analysis of blocks / zero_pad (lazy_misc.py) and Stream.blocks. zero_pad is summarised into its yield "
    "segments: `left` copies of zero, every item of the sequence, `right` copies of zero, in this order (complete for "
    "that sentence of the property). blocks is analysed as a counter automaton: the loop bodies are decision trees "
    "over idx whose leaves either increment idx by one (appending the pulled item, or skipping it while idx < 0) or "
    "yield the deque and reset idx; with symbolic size/hop (linear normal forms) the checker derives that the first "
    "block is yielded after exactly `size` appended items and every later one after exactly `hop` pulled items - of "
    "which hop-size are skipped and size appended when hop > size - which with deque(maxlen=size) is 'block k = items "
    "k*hop .. k*hop+size-1'; that the item appended is the pulled one, before the yield; that both loops reset idx to "
    "size-hop; that at exit idx counts the real items of the pending block, the tail test is idx > max(size-hop, 0) "
    "(strict), and the padding appends size-idx pad values and yields once. Pulls happen only in the for headers "
    "(R2.3). Stream.blocks forwards iter(self) and all arguments. Not decided: nothing about values (blocks are "
    "views of the same deque by design).")

UNDECIDED = ["contents of a block after the caller mutates the shared deque (documented behaviour)"]

M = "lazy_misc"


class Leaf(object):
    def __init__(self, conds, stmts):
        self.conds, self.stmts = conds, stmts


def leaves(stmts, conds=()):
    """Decision-tree leaves of a statement list (ifs may be followed by more statements)."""
    if not stmts:
        return [Leaf(list(conds), [])]
    st, rest = stmts[0], stmts[1:]
    if isinstance(st, ast.If):
        out = []
        for arm, taken in ((st.body, True), (st.orelse, False)):
            for l in leaves(list(arm), conds + ((st.test, taken),)):
                if getattr(l, "left", False):
                    out.append(l)           # the arm left the block (continue / break / return / raise)
                    continue
                for l2 in leaves(rest, tuple(l.conds)):
                    nl = Leaf(l2.conds, l.stmts + l2.stmts)
                    nl.left = getattr(l2, "left", False)
                    out.append(nl)
        return out
    if isinstance(st, ast.Continue):
        # in a loop body: the same as reaching the end of the body
        l = Leaf(list(conds), [])
        l.left = True
        return [l]
    if isinstance(st, (ast.Break, ast.Return, ast.Raise)):
        l = Leaf(list(conds), [st])
        l.left = True
        return [l]
    tail = leaves(rest, conds)
    out = []
    for l in tail:
        nl = Leaf(l.conds, [st] + l.stmts)
        nl.left = getattr(l, "left", False)
        out.append(nl)
    return out


def run(chk, repo):
    mod = repo.mod(M)
    W = lambda q: "%s:%s" % (mod.relpath, q)

    # ---------------------------------------------------------------- zero_pad
    chk.rule("C08.zero_pad", "zero_pad yields exactly: `left` times the zero value, then every item of seq, then "
                             "`right` times the zero value")
    zp = repo.find(M, "zero_pad")
    par = [a.arg for a in zp.args.args]
    chk.require(par[:4] == ["seq", "left", "right", "zero"], "zero_pad signature changed: %s" % par)
    zd = [unparse(d) for d in zp.args.defaults]
    chk.decide(zd == ["0", "0", "0.0"], "C08.zero_pad", W("zero_pad"), "defaults (left, right, zero) = %s" % zd,
               why="no padding unless asked for; the zero value is 0.", node=zp)
    try:
        paths = summarise(zp)
    except NotSimple as ex:
        raise AnalysisError("zero_pad is no longer a sequence of single-yield loops: %s" % ex)
    chk.require(len(paths) == 1, "zero_pad: branching body not expected")
    segs = paths[0][1]
    desc = [repr(s) for s in segs]
    good = len(segs) == 3 and segs[0].kind == "range" and segs[1].kind == "source" and segs[2].kind == "range"
    if good:
        try:
            good = segs[0].count_rf() == RF.sym("left") and segs[2].count_rf() == RF.sym("right") \
                and unparse(segs[0].value) == "zero" and unparse(segs[2].value) == "zero" \
                and unparse(segs[1].source) == "seq" and unparse(segs[1].value) == segs[1].var
        except Inconclusive:
            good = False
    chk.decide(good, "C08.zero_pad", W("zero_pad"), "segments: " + " ; ".join(desc),
               why="expected [zero] * left, then the items of seq, then [zero] * right", node=zp)
    alt = e2.Alternation(zp, ["seq"], True, True, "sample")
    v = alt.check()
    chk.decide(not v, "R2.2", W("zero_pad"), "one output per pulled item between the pads",
               why="; ".join(w for w, _ in v), node=zp)

    # ------------------------------------------------------------------ blocks
    chk.rule("C08.blocks.counter", "counter automaton of blocks: leaves of each loop body are increment-by-one leaves "
                                   "or yield-and-reset leaves; first yield after `size` appended items; period `hop` "
                                   "pulled items (hop-size skipped + size appended when hop > size); reset value "
                                   "size-hop in both loops; the pulled item is appended before the yield")
    chk.rule("C08.blocks.tail", "after the loops: if idx > max(size - hop, 0): append size-idx pad values, yield once")
    bl = repo.find(M, "blocks")
    par = [a.arg for a in bl.args.args]
    chk.require(par[:4] == ["seq", "size", "hop", "padval"], "blocks signature changed: %s" % par)
    body = docstring_free(bl.body)
    # the source belongs to the caller and the generator is suspended at every yield: what was read from the source
    # container itself (its length, an item, a slice) before a yield says nothing about it afterwards
    chk.rule("C08.live-source", "blocks keeps nothing read from the source container (len(seq), seq[i], seq[a:b]) in a "
                                "local across a yield: a block holds the items the source has when the block is produced")
    from ..aliases import _suspended_before_use
    nlive = 0
    for blk_, i_, st_ in [(b_, k_, s_) for n_ in ast.walk(bl) for b_ in [getattr(n_, f_, None) for f_ in ("body", "orelse")]
                          if isinstance(b_, list) for k_, s_ in enumerate(b_)]:
        if isinstance(st_, ast.Assign) and len(st_.targets) == 1 and isinstance(st_.targets[0], ast.Name) and any(
                (isinstance(x_, ast.Call) and isinstance(x_.func, ast.Name) and x_.func.id == "len" and x_.args
                 and unparse(x_.args[0]) == "seq") or (isinstance(x_, ast.Subscript) and unparse(x_.value) == "seq")
                for x_ in ast.walk(st_.value)):
            nlive += 1
            v_ = st_.targets[0].id
            # (everything after the binding in the function: the enclosing blocks, innermost first)
            stale = _suspended_before_use(blk_[i_ + 1:], v_)
            chk.decide(not stale, "C08.live-source", W("blocks"), short(st_),
                       why="%s is read from the caller's container once and used again after a yield: if the sequence "
                           "changes (a list that grows while its blocks are consumed) complete blocks are missed and "
                           "padding appears in mid-data" % v_, node=st_)
    if nlive == 0:
        chk.ok("C08.live-source", W("blocks"), "the source is only iterated (nothing read by length or index)", node=bl)
    # one loop for both regimes, told apart inside by a test of hop against size (possibly kept in a flag): read as the
    # two loops it stands for - the body is specialised for hop <= size and for hop > size (guards resolved, dtable)
    seq_loop = lambda s_: isinstance(s_, ast.For) and unparse(s_.iter) == "seq"
    top_for = [s_ for s_ in body if seq_loop(s_)]
    if len(top_for) == 1 and not any(isinstance(s_, ast.If) and any(seq_loop(n_) for n_ in ast.walk(s_)) for s_ in body):
        from ..dtable import specialise, Facts as _F
        from ..core import set_parents
        i0 = body.index(top_for[0])
        flags = [s_ for s_ in body[:i0] if isinstance(s_, ast.Assign) and len(s_.targets) == 1 and isinstance(s_.targets[0], ast.Name)
                 and isinstance(s_.value, (ast.Compare, ast.UnaryOp, ast.BoolOp))
                 and {n_.id for n_ in ast.walk(s_.value) if isinstance(n_, ast.Name)} <= {"hop", "size"}]
        fnames = {s_.targets[0].id for s_ in flags}

        def arm(le):
            F_ = _F(truths={"hop <= size": le, "size >= hop": le, "hop > size": not le, "size < hop": not le})
            sp = specialise(flags + [top_for[0]], F_)
            return [s_ for s_ in sp if not (isinstance(s_, ast.Assign) and isinstance(s_.targets[0], ast.Name)
                                            and s_.targets[0].id in fnames)]
        synth = ast.If(test=ast.parse("hop <= size", mode="eval").body, body=arm(True), orelse=arm(False))
        ast.copy_location(synth, top_for[0])
        for n_ in ast.walk(synth):
            if not hasattr(n_, "lineno"):
                n_.lineno = top_for[0].lineno
        ast.fix_missing_locations(synth)
        set_parents(synth)
        synth._parent = getattr(top_for[0], "_parent", None)
        body = [synth if s_ is top_for[0] else s_ for s_ in body if s_ not in flags]
    env = {}
    size, hop = RF.sym("size"), RF.sym("hop")
    dq = None
    main_if = None
    tail_if = None
    clamped = {}
    for st in body:
        if isinstance(st, ast.Assign) and len(st.targets) == 1 and isinstance(st.targets[0], ast.Name):
            nm = st.targets[0].id
            if nm == "hop" and unparse(st.value) in ("size if hop is None else hop", "hop if hop is not None else size"):
                chk.ok("C08.blocks.counter", W("blocks"), "default hop: " + short(st), node=st)
                continue
            if isinstance(st.value, ast.Call) and unparse(st.value.func) == "deque":
                dq = (nm, st)
                continue
            try:
                env[nm] = Evaluator(env).ev(st.value)
            except Inconclusive as ex:
                raise AnalysisError("blocks: cannot interpret '%s' (%s)" % (unparse(st), ex))
        elif isinstance(st, ast.If) and unparse(st.test) == "hop is None":
            ok = len(st.body) == 1 and unparse(st.body[0]) == "hop = size" and not st.orelse
            chk.decide(ok, "C08.blocks.counter", W("blocks"), "default hop: " + short(st),
                       why="hop defaults to size (non-overlapping blocks)", node=st)
        elif isinstance(st, ast.If) and not st.orelse and len(st.body) == 1 and isinstance(st.body[0], ast.Assign) \
                and isinstance(st.body[0].targets[0], ast.Name) and unparse(st.body[0].value) == "0" \
                and unparse(st.test) in ("0 > %s" % st.body[0].targets[0].id, "%s < 0" % st.body[0].targets[0].id) \
                and st.body[0].targets[0].id in env:
            clamped[st.body[0].targets[0].id] = env[st.body[0].targets[0].id]      # x = max(x, 0)
        elif isinstance(st, ast.If) and any(isinstance(n, ast.For) and unparse(n.iter) == "seq" for n in ast.walk(st)) \
                and main_if is None:
            main_if = st
        elif isinstance(st, ast.If) and main_if is not None and tail_if is None:
            tail_if = st
        elif isinstance(st, ast.If) and main_if is None and "hop" in unparse(st.test):
            pass            # a differently worded hop default: decided by the table below
        elif isinstance(st, ast.For) and unparse(st.iter) == "seq" and main_if is not None and not main_if.orelse \
                and main_if.body and isinstance(main_if.body[-1], ast.Return):
            # one regime written as an early exit: ``if <regime>: <its loop> ; return`` followed by the other loop and the
            # padding of the last block - which that regime then never reaches, unless it pads by itself
            own_tail = any(isinstance(y_, (ast.Yield, ast.YieldFrom)) for s2_ in main_if.body
                           if not isinstance(s2_, (ast.For, ast.While)) for y_ in ast.walk(s2_))
            if own_tail:
                raise AnalysisError("blocks: regimes written as an early exit with a tail of its own (not read)")
            chk.bad("C08.blocks.tail", W("blocks"), "if %s: <loop> ; return" % unparse(main_if.test),
                    "this regime leaves the generator right after its loop: the padding of an incomplete last block, "
                    "written once after both loops, is skipped for it", node=main_if.body[-1])
            raise AnalysisError("blocks: the other regime follows an early exit (rest of the function not read)")
        else:
            raise AnalysisError("blocks: unexpected statement '%s'" % short(st))
    # the default of hop, whatever its wording (decision table)
    from ..dtable import Facts, walk as _dwalk
    pro = body[:body.index(main_if)] if main_if is not None else body
    for given in (False, True):
        w_ = _dwalk(pro, Facts(none=[] if given else ["hop"], kinds={"hop": {"int"}} if given else {}, values={}),
                    "blocks prologue", strict=False)
        hs = [x for x in w_.texts() if x.startswith("hop = ")]
        chk.decide(hs == ([] if given else ["hop = size"]) or (not given and hs == ["hop = size if hop is None else hop"]) or
                   (given and hs in (["hop = hop"],)), "C08.blocks.counter", W("blocks"),
                   "hop %s -> %s" % ("given" if given else "None", "; ".join(hs) or "kept"),
                   why="hop defaults to size (non-overlapping blocks) and is kept when given", node=bl)
    dfl = [unparse(d) for d in bl.args.defaults]
    chk.decide(dfl == ["None", "None", "0.0"], "C08.blocks.counter", W("blocks"), "defaults (size, hop, padval) = %s" % dfl,
               why="documented defaults: size None, hop None (= size), padval 0.", node=bl)
    chk.require(dq is not None and main_if is not None and tail_if is not None,
                "blocks: deque / main loops / tail not all found")
    resname = dq[0]
    kws = {k.arg: unparse(k.value) for k in dq[1].value.keywords}
    chk.decide(kws.get("maxlen") == "size" and not dq[1].value.args, "C08.blocks.counter", W("blocks"),
               short(dq[1]), why="the window must be an (initially empty) circular queue of exactly `size` items",
               node=dq[1])
    idx0 = env.get("idx")
    chk.require(idx0 is not None, "blocks: idx initialisation not found")
    # which branch is hop <= size ?
    t = unparse(main_if.test)
    if t in ("hop <= size", "size >= hop"):
        loopA, loopB = main_if.body, main_if.orelse
    elif t in ("hop > size", "size < hop"):
        loopB, loopA = main_if.body, main_if.orelse
    else:
        raise AnalysisError("blocks: main test '%s' not recognised" % t)
    # the source may be a container, not an iterator: it is iterated by one construct only (a second iter(seq) /
    # islice(seq, ..) / for .. in seq would start from its beginning again), unless it was turned into an iterator first
    made_iter = any(isinstance(st_, ast.Assign) and unparse(st_.targets[0]) == "seq" and unparse(st_.value) in ("iter(seq)", "Stream(seq)")
                    for st_ in pro)
    for label_, stmts_ in (("hop<=size", loopA), ("hop>size", loopB)):
        uses_ = [n_ for st_ in stmts_ for n_ in ast.walk(st_) if isinstance(n_, ast.Name) and n_.id == "seq" and isinstance(n_.ctx, ast.Load)]
        chk.decide(len(uses_) == 1 or made_iter, "R2.3", W("blocks"), "[%s] the source is iterated by one construct (%d use(s) of seq)" % (label_, len(uses_)),
                   why="a list / tuple / range source is read again from its start by the second consumer: items are "
                       "repeated instead of skipped", node=uses_[1] if len(uses_) > 1 else bl)
    results = {}
    for label, stmts, has_skip in (("hop<=size", loopA, False), ("hop>size", loopB, True)):
        fors = [s for s in stmts if isinstance(s, ast.For)]
        chk.require(len(fors) == 1 and len(stmts) == 1, "blocks[%s]: expected exactly one for loop" % label)
        loop = fors[0]
        chk.decide(unparse(loop.iter) == "seq" and isinstance(loop.target, ast.Name), "R2.3", W("blocks"),
                   "[%s] pulls in the for header: %s" % (label, short(loop)[:60]),
                   why="source must be pulled only by the loop header", node=loop)
        el = unparse(loop.target)
        T = None
        R = None
        inc_ok = True
        skip_seen = False
        problems = []
        lv = leaves(list(loop.body))
        for leaf in lv:
            cond_txt = " and ".join(("" if pol else "not ") + unparse(c) for c, pol in leaf.conds) or "always"
            ys = [s for s in leaf.stmts if isinstance(s, ast.Expr) and isinstance(s.value, ast.Yield)]
            appends = [s for s in leaf.stmts if isinstance(s, ast.Expr) and isinstance(s.value, ast.Call)
                       and unparse(s.value.func) == "%s.append" % resname]
            idx_sets = [s for s in leaf.stmts if isinstance(s, ast.Assign) and unparse(s.targets[0]) == "idx"]
            idx_incs = [s for s in leaf.stmts if isinstance(s, ast.AugAssign) and unparse(s.target) == "idx"]
            other = [s for s in leaf.stmts if s not in ys + appends + idx_sets + idx_incs]
            if other:
                problems.append("leaf [%s] has statements outside the automaton: %s" % (cond_txt, short(other[0])))
            skipping = any(unparse(c) in ("idx < 0", "0 > idx") and pol for c, pol in leaf.conds)
            if skipping:
                skip_seen = True
                if appends or ys:
                    problems.append("skip leaf [%s] appends or yields" % cond_txt)
            else:
                if len(appends) != 1 or [unparse(a) for a in appends[0].value.args] != [el]:
                    problems.append("leaf [%s] must append the pulled item exactly once" % cond_txt)
            if ys:
                if len(ys) != 1 or unparse(ys[0].value.value) != resname:
                    problems.append("leaf [%s] must yield the deque once" % cond_txt)
                eqs = [(c, pol if isinstance(c.ops[0], ast.Eq) else not pol) for c, pol in leaf.conds
                       if isinstance(c, ast.Compare) and isinstance(c.ops[0], (ast.Eq, ast.NotEq))
                       and "idx" in (unparse(c.left), unparse(c.comparators[0]))]
                if len(eqs) != 1 or not eqs[0][1]:
                    problems.append("yield leaf [%s] is not guarded by idx == <constant>" % cond_txt)
                else:
                    c = eqs[0][0]
                    other_side = c.comparators[0] if unparse(c.left) == "idx" else c.left
                    T = Evaluator(env).ev(other_side)
                if len(idx_sets) != 1 or idx_incs:
                    problems.append("yield leaf [%s] must reset idx by assignment" % cond_txt)
                else:
                    R = Evaluator(env).ev(idx_sets[0].value)
                # order: append < yield < reset
                order = [s for s in leaf.stmts if s in appends + ys + idx_sets]
                kinds = ["a" if s in appends else "y" if s in ys else "r" for s in order]
                if kinds != ["a", "y", "r"]:
                    problems.append("yield leaf [%s] order is %s, expected append, yield, reset" % (cond_txt, kinds))
            else:
                if idx_sets or len(idx_incs) != 1 or not isinstance(idx_incs[0].op, ast.Add) \
                        or unparse(idx_incs[0].value) != "1":
                    problems.append("leaf [%s] must increment idx by exactly one" % cond_txt)
        if has_skip and not skip_seen:
            problems.append("no 'idx < 0' skip leaf in the hop > size loop")
        if not has_skip and skip_seen:
            problems.append("unexpected skip leaf in the hop <= size loop")
        chk.decide(not problems, "C08.blocks.counter", W("blocks"),
                   "[%s] %d leaves form an increment / yield-and-reset automaton over idx" % (label, len(lv)),
                   why="; ".join(problems), node=loop)
        if T is None or R is None:
            chk.bad("C08.blocks.counter", W("blocks"), "[%s] threshold / reset value" % label,
                    "could not find 'idx == T' guard and 'idx = R' reset on the yield leaf", node=loop)
            continue
        results[label] = (T, R)
        first = T - idx0 + 1
        chk.decide(first == size, "C08.blocks.counter", W("blocks"),
                   "[%s] first block after T - idx0 + 1 = %s appended items" % (label, first.key()),
                   why="first block must be yielded exactly when the size-th item arrives (needs %s == size)" % first.key(),
                   node=loop)
        period = T - R + 1
        chk.decide(period == hop, "C08.blocks.counter", W("blocks"),
                   "[%s] period T - R + 1 = %s pulled items per block" % (label, period.key()),
                   why="consecutive blocks must start hop items apart (period %s != hop)" % period.key(), node=loop)
        chk.decide(R == size - hop, "C08.blocks.counter", W("blocks"),
                   "[%s] reset value R = %s = size - hop" % (label, R.key()),
                   why="idx must restart at size - hop: the number of items the next block keeps (negative = items "
                       "to skip)", node=loop)
        if has_skip:
            # appended per period = T + 1 (indices 0..T), skipped = -R
            chk.decide(T + 1 == size and (-R) == hop - size, "C08.blocks.counter", W("blocks"),
                       "[hop>size] per period %s items skipped and %s appended" % ((-R).key(), (T + 1).key()),
                       why="with hop > size each block must skip hop-size items then take size fresh ones", node=loop)
    chk.floor("C08.blocks.counter", len(results), 2, "loops whose automaton was derived")

    # tail
    t = tail_if.test
    good = isinstance(t, ast.Compare) and len(t.ops) == 1 and isinstance(t.ops[0], ast.Gt) and unparse(t.left) == "idx"
    rhs_ok = False
    if good:
        r = t.comparators[0]
        if isinstance(r, ast.Name) and r.id in clamped:
            rhs_ok = clamped[r.id] == size - hop
        if isinstance(r, ast.Call) and unparse(r.func) == "max" and len(r.args) == 2:
            vals = []
            for a in r.args:
                try:
                    vals.append(Evaluator(env).ev(a))
                except Inconclusive:
                    vals.append(None)
            rhs_ok = any(v is not None and v == 0 for v in vals) and any(v is not None and v == size - hop for v in vals)
    chk.decide(good and rhs_ok, "C08.blocks.tail", W("blocks"), "tail test: " + unparse(t),
               why="a final padded block exists iff the pending block holds strictly more than max(size-hop, 0) real "
                   "items (idx counts them)", node=tail_if)
    tb = tail_if.body
    good = len(tb) == 2 and isinstance(tb[0], ast.For) and isinstance(tb[1], ast.Expr) and isinstance(tb[1].value, ast.Yield) \
        and unparse(tb[1].value.value) == resname and not tail_if.orelse
    if not good and len(tb) == 2 and isinstance(tb[0], ast.Expr) and isinstance(tb[0].value, ast.Call) \
            and unparse(tb[0].value.func) == "%s.extend" % resname and len(tb[0].value.args) == 1 \
            and isinstance(tb[1], ast.Expr) and isinstance(tb[1].value, ast.Yield) and unparse(tb[1].value.value) == resname \
            and not tail_if.orelse:
        # res.extend(padval for _ in range(idx, size))  /  res.extend([padval] * (size - idx))
        a0_ = tb[0].value.args[0]
        ok_ext = False
        if isinstance(a0_, (ast.GeneratorExp, ast.ListComp)) and unparse(a0_.elt) == "padval" and len(a0_.generators) == 1 \
                and not a0_.generators[0].ifs and isinstance(a0_.generators[0].iter, ast.Call) \
                and canon_call(mod, a0_.generators[0].iter) == "range" \
                and [unparse(x) for x in a0_.generators[0].iter.args] == ["idx", "size"]:
            ok_ext = True
        elif isinstance(a0_, ast.Call) and canon_call(mod, a0_) in ("itertools.repeat", "repeat") and len(a0_.args) == 2 \
                and not a0_.keywords and unparse(a0_.args[0]) == "padval":
            # res.extend(repeat(padval, size - idx))
            try:
                ok_ext = Evaluator().ev(a0_.args[1]) == size - RF.sym("idx")
            except Inconclusive:
                ok_ext = False
        elif isinstance(a0_, ast.BinOp) and isinstance(a0_.op, ast.Mult):
            lst, cnt = (a0_.left, a0_.right) if isinstance(a0_.left, ast.List) else (a0_.right, a0_.left)
            try:
                ok_ext = isinstance(lst, ast.List) and [unparse(e) for e in lst.elts] == ["padval"] \
                    and Evaluator().ev(cnt) == size - RF.sym("idx")
            except Inconclusive:
                ok_ext = False
        chk.decide(ok_ext, "C08.blocks.tail", W("blocks"), "padding: " + short(tb[0]) + " ; " + short(tb[1]),
                   why="must append exactly size - idx pad values and yield the block once", node=tail_if)
        good = None
    if good:
        f = tb[0]
        good = isinstance(f.iter, ast.Call) and canon_call(mod, f.iter) == "range" and \
            [unparse(a) for a in f.iter.args] == ["idx", "size"] and len(f.body) == 1 \
            and unparse(f.body[0]) == "%s.append(padval)" % resname
    if good is not None:
        chk.decide(good, "C08.blocks.tail", W("blocks"), "padding: " + short(tb[0]) + " ; " + (short(tb[1]) if len(tb) > 1 else ""),
                   why="must append exactly size - idx pad values and yield the block once", node=tail_if)
    last = body[-1]
    chk.decide(last is tail_if, "C08.blocks.tail", W("blocks"), "padding happens after both main loops",
               why="pad value may only appear in the final block", node=tail_if)
    pads = [n for n in ast.walk(bl) if isinstance(n, ast.Name) and n.id == "padval" and isinstance(n.ctx, ast.Load)]
    inside = all(any(p is x for x in ast.walk(tail_if)) for p in pads)
    chk.decide(inside and pads, "C08.blocks.tail", W("blocks"), "padval is used only in the tail (%d use(s))" % len(pads),
               why="padding outside the final block", node=bl)

    # Stream.blocks
    chk.rule("C08.delegate", "Stream.blocks returns Stream(blocks(iter(self), *args, **kwargs))")
    sb = repo.find("lazy_stream", "Stream.blocks")
    r = docstring_free(sb.body)[-1]
    chk.decide(unparse(r) == "return Stream(blocks(iter(self), *args, **kwargs))", "C08.delegate",
               "%s:Stream.blocks" % repo.mod("lazy_stream").relpath, short(r),
               why="the method must forward the stream iterator and every argument", node=r)
    imp = canon(repo.mod("lazy_stream"), ast.parse("blocks", mode="eval").body)
    chk.decide(imp == "lazy_misc:blocks", "C08.delegate", "%s:Stream.blocks" % repo.mod("lazy_stream").relpath,
               "blocks resolves to %s" % imp, why="must be lazy_misc.blocks", node=sb)
