"""C10  LPC / Levinson-Durbin solve their normal equations and report the true error."""
import ast

from ..core import (AnalysisError, FuncTypes, unparse, short, canon, canon_call, base_name, own_nodes,
                    docstring_free)
from ..ratfun import RF, Evaluator, Inconclusive, opaque
from .. import e9
from ..cond import norm_cmp, same_cond, parse_cond

EXPLANATION = (
    "Static analysis of acorr / lag_matrix (lazy_analysis.py), toeplitz, levinson_durbin and lpc.* (lazy_lpc.py). "
    "E9 (symbolic index ranges): every subscript of acorr, lag_matrix and toeplitz is bounded with linear symbolic "
    "loop ranges; the bounds are exactly [0, len-1] - never negative (a silent wrap to the other end of the block) and "
    "never short (a dropped term); the two factors of acorr differ by exactly the lag, lag_matrix sums n from max_lag "
    "to len-1 over blk[n-i]*blk[n-j], toeplitz reads vect[|i-j|]; max_lag >= len raises. Levinson-Durbin statements in "
    "normal form with the inner product opaque: B = A(1/z) z^-m, A <- A - <A, z^-m>/<B, B> B for m = 1..order, starting "
    "from 1, zero-extended autocorrelation when order >= len, ZeroDivisionError -> ParCorError; error = <A, A> assigned "
    "before the return; the inner product indexes acdata[|i-j|]. lpc.kautocor passes one `order` to both stages. "
    "lpc.kcovar Gram-Schmidt statements in normal form (k, update, gamma, new basis vector, beta) and error set on its "
    "return path; lpc.nautocor/covar set error before returning. Not decided: that the recursion solves the equations "
    "(algebra of the recursion itself).")

UNDECIDED = ["correctness of the Levinson / Gram-Schmidt recursions as algorithms", "numpy-based strategies' numerics"]

LA, LL = "lazy_analysis", "lazy_lpc"


def run(chk, repo):
    amod, lmod = repo.mod(LA), repo.mod(LL)
    WA = lambda q: "%s:%s" % (amod.relpath, q)
    WL = lambda q: "%s:%s" % (lmod.relpath, q)

    chk.rule("E9", "every subscript index, bounded over the enclosing loop ranges (linear symbolic bounds, extremes "
                   "substituted innermost first), has minimum exactly 0 and maximum exactly len - 1")
    chk.rule("C10.tables", "acorr: factors blk[n] and blk[n + tau] (difference = lag), n over range(len - tau), tau over "
                           "range(max_lag + 1); lag_matrix: sum over n in range(max_lag, len) of blk[n-i]*blk[n-j]; "
                           "toeplitz: vect[abs(i-j)] over range(len) x range(len)")
    nsub = 0
    # ------------------------------------------------------------------ acorr
    ac = repo.find(LA, "acorr")
    Llen = RF.sym("len(blk)")
    subs = [n for n in ast.walk(ac) if isinstance(n, ast.Subscript) and unparse(n.value) == "blk"]
    chk.require(len(subs) == 2, "acorr: the two subscripts of blk not found")
    idxs = []
    for s in subs:
        try:
            lo, hi, ranges = e9.bound_subscript(s, ac)
        except Inconclusive as ex:
            raise AnalysisError("acorr: index %s not analysable: %s" % (unparse(s), ex))
        nsub += 1
        chk.decide(lo == 0 and hi == Llen - 1, "E9", WA("acorr"), "%s in [%s, %s]" % (unparse(s), lo.key(), hi.key()),
                   why="index range must be exactly [0, len(blk)-1]: below 0 wraps to the end of the block, a smaller "
                       "maximum drops terms, a larger one raises IndexError", node=s)
        idxs.append(Evaluator(call_hook=e9.len_hook).ev(s.slice))
    d = idxs[1] - idxs[0]
    chk.decide(d == RF.sym("tau") or d == -RF.sym("tau"), "C10.tables", WA("acorr"),
               "factor indices differ by %s" % d.key(), why="r[tau] multiplies samples exactly tau apart", node=ac)
    rngs = {v: (lo, hi) for v, lo, hi in e9.enclosing_ranges(subs[0], ac)}
    ok = "tau" in rngs and rngs["tau"][0] == 0 and rngs["tau"][1] == RF.sym("max_lag") \
        and "n" in rngs and rngs["n"][0] == 0 and rngs["n"][1] == Llen - RF.sym("tau") - 1
    chk.decide(ok, "C10.tables", WA("acorr"), "ranges: %s" % {k: (a.key(), b.key()) for k, (a, b) in rngs.items()},
               why="tau = 0..max_lag, n = 0..len-tau-1", node=ac)
    dflt = [s for s in docstring_free(ac.body) if isinstance(s, ast.If) and unparse(s.test) == "max_lag is None"]
    chk.decide(len(dflt) == 1 and unparse(dflt[0].body[0]) == "max_lag = len(blk) - 1", "C10.tables", WA("acorr"),
               "default max_lag = len(blk) - 1", why="all lags by default", node=ac)
    outer = docstring_free(ac.body)[-1]
    ok = isinstance(outer, ast.Return) and isinstance(outer.value, ast.ListComp) and isinstance(outer.value.elt, ast.Call) \
        and unparse(outer.value.elt.func) == "sum" and isinstance(outer.value.elt.args[0].elt, ast.BinOp) \
        and isinstance(outer.value.elt.args[0].elt.op, ast.Mult)
    chk.decide(ok, "C10.tables", WA("acorr"), "each lag is a sum of products", why="autocorrelation is a sum of products", node=outer)

    # -------------------------------------------------------------- lag_matrix
    lm = repo.find(LA, "lag_matrix")
    guard = [s for s in docstring_free(lm.body) if isinstance(s, ast.If) and unparse(s.test) == "max_lag is None"]
    # the guards are evaluated for no lag, an admissible lag and a lag that is too large (whatever their wording)
    from ..dtable import Facts, walk as _dwalk
    pre_ = [s for s in docstring_free(lm.body) if not isinstance(s, ast.Return)]
    outcomes = {}
    dflt_seen = None
    try:
        for label, F_ in (("none", Facts(none=["max_lag"], lens={"blk": 5})),
                          ("fits", Facts(values={"max_lag": 4}, kinds={"max_lag": {"int"}}, lens={"blk": 5})),
                          ("equal", Facts(values={"max_lag": 5}, kinds={"max_lag": {"int"}}, lens={"blk": 5})),
                          ("large", Facts(values={"max_lag": 9}, kinds={"max_lag": {"int"}}, lens={"blk": 5}))):
            w_ = _dwalk(pre_, F_, "lag_matrix guards")
            outcomes[label] = (w_.end, unparse(w_.last) if w_.last is not None else "")
            if label == "none":
                dflt_seen = [st_ for st_ in w_.ran if isinstance(st_, ast.Assign) and unparse(st_.targets[0]) == "max_lag"]
        ok = outcomes["none"][0] == "fall" and outcomes["fits"][0] == "fall" and all(
            outcomes[k_][0] == "raise" and "ValueError" in outcomes[k_][1] for k_ in ("equal", "large"))
        chk.decide(ok, "E9", WA("lag_matrix"), "max_lag >= len(blk) raises ValueError (%s)" % ", ".join(
            "%s -> %s" % (k_, v_[0]) for k_, v_ in sorted(outcomes.items())), why="otherwise n - i can reach below 0 "
            "(wrapping to the end of the block) or the sums are empty", node=lm)
    except AnalysisError as ex:
        chk.defer(str(ex))
    subs = [n for n in ast.walk(lm) if isinstance(n, ast.Subscript) and unparse(n.value) == "blk"]
    chk.require(len(subs) == 2, "lag_matrix: the two subscripts of blk not found")
    forms = []
    for s in subs:
        try:
            lo, hi, ranges = e9.bound_subscript(s, lm)
        except Inconclusive as ex:
            raise AnalysisError("lag_matrix: index %s not analysable: %s" % (unparse(s), ex))
        nsub += 1
        chk.decide(lo == 0 and hi == Llen - 1, "E9", WA("lag_matrix"), "%s in [%s, %s]" % (unparse(s), lo.key(), hi.key()),
                   why="index range must be exactly [0, len(blk)-1]", node=s)
        forms.append(Evaluator().ev(s.slice))
    n = RF.sym("n")
    got = sorted((n - f).key() for f in forms)
    chk.decide(got == ["i", "j"], "C10.tables", WA("lag_matrix"), "factors blk[n - %s] * blk[n - %s]" % tuple(got),
               why="entry (i, j) sums blk[n-i] * blk[n-j]", node=lm)
    ge_ = subs[0]
    while ge_ is not None and not isinstance(ge_, (ast.GeneratorExp, ast.ListComp)):
        ge_ = getattr(ge_, "_parent", None)
    okp = ge_ is not None and isinstance(ge_.elt, ast.BinOp) and isinstance(ge_.elt.op, ast.Mult) \
        and {id(ge_.elt.left), id(ge_.elt.right)} == {id(subs[0]), id(subs[1])} \
        and isinstance(getattr(ge_, "_parent", None), ast.Call) and unparse(ge_._parent.func) == "sum" and len(ge_._parent.args) == 1
    chk.decide(okp, "C10.tables", WA("lag_matrix"), "entry = sum(%s ...)" % (unparse(ge_.elt) if ge_ is not None else "?"),
               why="each entry is the plain sum of the products of the two shifted samples", node=lm)
    dflt_ = dflt_seen if dflt_seen else ([st for st in guard[0].body if isinstance(st, ast.Assign)
                                          and unparse(st.targets[0]) == "max_lag"] if guard else [])
    okd = False
    if len(dflt_) == 1:
        try:
            okd = Evaluator(e9.size_aliases(lm), call_hook=e9.len_hook).ev(dflt_[0].value) == Llen - 1
        except Inconclusive:
            okd = False
    chk.decide(okd, "C10.tables", WA("lag_matrix"), "default max_lag: " + (short(dflt_[0]) if dflt_ else "?"),
               why="documented default len(blk) - 1 (the largest lag with a non-empty sum)", node=lm)
    rngs = {v: (lo, hi) for v, lo, hi in e9.enclosing_ranges(subs[0], lm)}
    ok = rngs.get("n") is not None and rngs["n"][0] == RF.sym("max_lag") and rngs["n"][1] == Llen - 1 \
        and all(v in rngs and rngs[v][0] == 0 and rngs[v][1] == RF.sym("max_lag") for v in ("i", "j"))
    chk.decide(ok, "C10.tables", WA("lag_matrix"), "ranges: %s" % {k: (a.key(), b.key()) for k, (a, b) in rngs.items()},
               why="n = max_lag..len-1, i and j = 0..max_lag", node=lm)

    # ---------------------------------------------------------------- toeplitz
    tp = repo.find(LL, "toeplitz")
    subs = [n for n in ast.walk(tp) if isinstance(n, ast.Subscript) and unparse(n.value) == "vect"]
    chk.require(len(subs) == 1, "toeplitz: subscript not found")
    try:
        lo, his, ranges = e9.bound_subscript(subs[0], tp)
    except Inconclusive as ex:
        raise AnalysisError("toeplitz: %s" % ex)
    nsub += 1
    Lv = RF.sym("len(vect)")
    ok = isinstance(his, tuple) and all(h == Lv - 1 for h in his) and unparse(subs[0].slice) in ("abs(i - j)", "abs(j - i)")
    chk.decide(ok, "E9", WL("toeplitz"), "%s in [0, %s]" % (unparse(subs[0]), his[0].key() if isinstance(his, tuple) else "?"),
               why="entry (i, j) is vect[|i - j|] with i, j over range(len(vect))", node=subs[0])
    chk.floor("E9", nsub, 5, "subscripts bounded")

    # --------------------------------------------------------- levinson_durbin
    chk.rule("C10.levinson", "levinson_durbin in normal form: order default len-1, zero extension to order+1 items; "
                             "A = 1; for m in 1..order: B = A(1/z) z^-m; A <- A - <A, z^-m>/<B, B> * B; "
                             "ZeroDivisionError -> ParCorError; <a, b> = sum acdata[|i-j|] a_i b_j")
    chk.rule("C10.error", "the .error attribute is assigned on the returned filter on every path to a return")
    ld = repo.find(LL, "levinson_durbin")
    body = docstring_free(ld.body)
    first = body[0]
    ok = isinstance(first, ast.If) and unparse(first.test) == "order is None" \
        and unparse(first.body[0]) == "order = len(acdata) - 1"
    el = first.orelse[0] if ok and first.orelse else None
    ok2 = el is not None and isinstance(el, ast.If) and same_cond(norm_cmp(el.test, call_hook=e9.len_hook),
                                                                  parse_cond("order >= L", {"L": RF.sym("len(acdata)")})) \
        and len(el.body) == 1
    ext_why = "r must be zero-extended to order + 1 entries when the order is not below its length"
    if ok2:
        st_ = el.body[0]
        Lr, order_ = RF.sym("len(acdata)"), RF.sym("order")

        def ext_len(e_):
            """length of a freshly built zero extension of acdata, or None"""
            t_ = unparse(e_)
            if isinstance(e_, ast.Call) and isinstance(e_.func, ast.Attribute) and e_.func.attr == "take" and len(e_.args) == 1 \
                    and unparse(e_.func.value) in ("Stream(acdata).append(0)", "Stream(acdata).append(0.0)", "Stream(acdata).append(zeros())",
                                                   "Stream(acdata).append(it.repeat(0))"):
                return Evaluator().ev(e_.args[0])              # endless zeros after the data, cut at the count taken
            if isinstance(e_, ast.BinOp) and isinstance(e_.op, ast.Add) and unparse(e_.left) in ("list(acdata)", "[x for x in acdata]") \
                    and isinstance(e_.right, ast.BinOp) and isinstance(e_.right.op, ast.Mult):
                a_, b_ = e_.right.left, e_.right.right
                cnt_ = b_ if unparse(a_) in ("[0]", "[0.0]") else a_ if unparse(b_) in ("[0]", "[0.0]") else None
                if cnt_ is not None:
                    return Lr + Evaluator(call_hook=e9.len_hook).ev(cnt_).subst({"len(acdata)": Lr}) if False else \
                        Lr + Evaluator(call_hook=e9.len_hook).ev(cnt_)
            return None
        if isinstance(st_, ast.Assign) and unparse(st_.targets[0]) == "acdata":
            try:
                ln_ = ext_len(st_.value)
            except Inconclusive:
                ln_ = None
            ok2 = ln_ is not None and ln_ == order_ + 1
            if ln_ is None:
                ext_why = "zero extension not recognised as a fresh sequence of acdata followed by zeros: " + short(st_)
        else:
            ok2 = False
            ext_why = "the caller's sequence is modified in place (%s): a later call on the same data sees a longer " \
                      "autocorrelation and a different default order" % short(st_)
    chk.decide(ok and ok2, "C10.levinson", WL("levinson_durbin"), "order default and zero extension: " + short(first)[:110],
               why=ext_why, node=first)
    inner = [f for f in body if isinstance(f, FuncTypes) and f.name == "inner"]
    chk.require(len(inner) == 1, "levinson_durbin: inner product not found")
    r = docstring_free(inner[0].body)[-1]
    ok = isinstance(r, ast.Return) and isinstance(r.value, ast.Call) and unparse(r.value.func) == "sum"
    if ok:
        ge = r.value.args[0]
        ok = isinstance(ge, (ast.GeneratorExp, ast.ListComp))
    if ok:
        gens = [(unparse(g.target), unparse(g.iter)) for g in ge.generators]
        pa, pb = [a.arg for a in inner[0].args.args]
        ok = sorted(gens) == sorted([("(i, ai)", "enumerate(%s.numlist)" % pa), ("(j, bj)", "enumerate(%s.numlist)" % pb)])
        if ok:
            try:
                def sub_hook(ev, node):
                    if isinstance(node, ast.Subscript) and unparse(node.value) == "acdata":
                        return opaque("acdata", opaque("abs", ev.ev(node.slice.args[0]))) if isinstance(node.slice, ast.Call) \
                            and unparse(node.slice.func) == "abs" else None
                    return None
                val = Evaluator(attr_hook=sub_hook).ev(ge.elt)
                want = opaque("acdata", opaque("abs", RF.sym("i") - RF.sym("j"))) * RF.sym("ai") * RF.sym("bj")
                want2 = opaque("acdata", opaque("abs", RF.sym("j") - RF.sym("i"))) * RF.sym("ai") * RF.sym("bj")
                ok = val == want or val == want2
            except Inconclusive:
                ok = False
    chk.decide(ok, "C10.levinson", WL("levinson_durbin.inner"), short(r),
               why="inner product must be sum over i, j of acdata[|i-j|] * a_i * b_j", node=r)
    loops = [n for n in own_nodes(ld) if isinstance(n, ast.For) and any(
        isinstance(x, (ast.Assign, ast.AugAssign)) and unparse(x.targets[0] if isinstance(x, ast.Assign) else x.target) == "A"
        for x in ast.walk(n))]
    chk.require(len(loops) == 1, "levinson_durbin: order loop not found")
    loop = loops[0]
    mvar = unparse(loop.target)
    inits = [n for n in own_nodes(ld) if isinstance(n, ast.Assign) and unparse(n.targets[0]) == "A" and n.lineno < loop.lineno]
    ok = len(inits) == 1 and unparse(inits[0].value) == "ZFilter(1)" and isinstance(loop.target, ast.Name) \
        and unparse(loop.iter) in ("xrange(1, order + 1)", "range(1, order + 1)")
    chk.decide(ok, "C10.levinson", WL("levinson_durbin"), "A = 1; for %s in 1..order" % mvar, why="order recursion from the "
               "trivial predictor up to the requested order", node=loop)
    # the handler protecting the recursion step: a try around the loop, or a try that is the loop body
    lb = list(loop.body)
    guard = None
    if len(lb) == 1 and isinstance(lb[0], ast.Try):
        guard = lb[0]
        lb = list(guard.body)
    else:
        p_ = getattr(loop, "_parent", None)
        while p_ is not None and p_ is not ld:
            if isinstance(p_, ast.Try) and any(loop is x for x in p_.body):
                guard = p_
                break
            p_ = getattr(p_, "_parent", None)
    if ok:
        def hk(ev, name, node):
            if name == "inner":
                return opaque("inner", *[ev.ev(a) for a in node.args])
            if isinstance(node.func, ast.Name) and node.func.id in ("A",) and len(node.args) == 1:
                return opaque("subst", ev.ev(node.func), ev.ev(node.args[0]))
            return None
        try:
            from ..ratfun import sym_pow
            env = {"z": RF.sym("x") ** -1}
            wantB = opaque("subst", RF.sym("A"), RF.sym("x")) * sym_pow(RF.sym("x"), RF.sym(mvar))
            Bname = None
            okA = False
            for st in lb:
                if isinstance(st, ast.Assign) and len(st.targets) == 1 and isinstance(st.targets[0], ast.Name) \
                        and st.targets[0].id != "A":
                    try:
                        val = Evaluator(env, call_hook=hk).ev(st.value)
                    except Inconclusive:
                        # not a value of the recursion's algebra: it cannot be the documented B (nor feed the update)
                        env[st.targets[0].id] = RF.sym("<%s>" % short(st.value, 30))
                        continue
                    if val == wantB and Bname is None:
                        Bname = st.targets[0].id
                        env[Bname] = RF.sym("B")
                    else:
                        env[st.targets[0].id] = val
                elif isinstance(st, ast.AugAssign) and isinstance(st.op, ast.Sub) and unparse(st.target) == "A" and Bname:
                    upd = Evaluator(env, call_hook=hk).ev(st.value)
                    wantU = opaque("inner", RF.sym("A"), sym_pow(RF.sym("x"), RF.sym(mvar))) / opaque("inner", RF.sym("B"), RF.sym("B")) * RF.sym("B")
                    okA = upd == wantU
                elif isinstance(st, ast.Assign) and unparse(st.targets[0]) == "A" and Bname:
                    upd = Evaluator(env, call_hook=hk).ev(st.value)
                    wantU = RF.sym("A") - opaque("inner", RF.sym("A"), sym_pow(RF.sym("x"), RF.sym(mvar))) / opaque("inner", RF.sym("B"), RF.sym("B")) * RF.sym("B")
                    okA = upd == wantU
                elif isinstance(st, (ast.Assign, ast.AugAssign)):
                    okA = False          # an update of A (or of something else) that is not the documented one
                else:
                    # the documented step is two assignments: anything else in the body is a different algorithm
                    okA = False
                    Bname = Bname or "?"
                    break
            okl = Bname is not None and okA
        except Inconclusive as ex:
            raise AnalysisError("levinson_durbin loop not interpretable: %s" % ex)
        chk.decide(okl, "C10.levinson", WL("levinson_durbin"), " ; ".join(unparse(s) for s in lb),
                   why="recursion must be B = A(1/z) z^-m ; A -= <A, z^-m> / <B, B> * B", node=loop)
    hd = guard.handlers if guard is not None else []
    ok = len(hd) == 1 and unparse(hd[0].type) == "ZeroDivisionError" and "raise ParCorError" in unparse(hd[0].body[0])
    chk.decide(ok, "C10.levinson", WL("levinson_durbin"), "ZeroDivisionError -> ParCorError",
               why="a singular step must be reported as ParCorError", node=guard or loop)
    # error before return
    nerr = 0
    for q, kind in (("levinson_durbin", "fn"), ("nautocor", "st"), ("covar", "st"), ("kcovar", "st")):
        fn = repo.find(LL, q) if kind == "fn" else repo.strategy(LL, "lpc", q).node
        Wq = WL(q if kind == "fn" else "lpc[%s]" % q)
        rets = [n for n in own_nodes(fn) if isinstance(n, ast.Return) and n.value is not None]
        chk.require(rets, "%s: no return" % Wq)
        for r in rets:
            nerr += 1
            name = unparse(r.value)
            ok = isinstance(r.value, ast.Name)
            if ok:
                # find 'name.error = ...' preceding the return in the same block, after the last rebinding of name
                blk = r._parent.body if r in getattr(r._parent, "body", []) else getattr(r._parent, "orelse", [])
                idx = blk.index(r) if r in blk else -1
                prev = blk[:idx] if idx >= 0 else []
                seen = False
                for st in prev:
                    if isinstance(st, ast.Assign) and unparse(st.targets[0]) == "%s.error" % name:
                        seen = True
                    elif isinstance(st, (ast.Assign, ast.AugAssign)) and unparse(
                            st.targets[0] if isinstance(st, ast.Assign) else st.target) == name:
                        seen = False
                ok = seen
            chk.decide(ok, "C10.error", Wq, "%s preceded by '%s.error = ...'" % (short(r), name),
                       why="the returned filter must carry its prediction error", node=r)
    chk.floor("C10.error", nerr, 4, "return statements of LPC constructors")
    ea = [s for s in body if isinstance(s, ast.Assign) and unparse(s.targets[0]) == "A.error"]
    chk.decide(len(ea) == 1 and unparse(ea[0].value) == "inner(A, A)", "C10.error", WL("levinson_durbin"),
               short(ea[0]) if ea else "A.error missing", why="error must be <A, A> (= sum a_j r_j at the solution)", node=ld)
    ka = repo.strategy(LL, "lpc", "kautocor").node
    r = docstring_free(ka.body)[-1]
    chk.decide(unparse(r) == "return levinson_durbin(acorr(blk, order), order)", "C10.levinson", WL("lpc[kautocor]"), short(r),
               why="the same order must bound the autocorrelation lags and the recursion", node=r)

    # ------------------------------------------------------------------ kcovar
    chk.rule("C10.kcovar", "lpc.kcovar statements in normal form: phi = lag_matrix(blk, order); <a,b> = sum phi[i][j] a_i "
                           "b_j; k = -<A, z^-m>/beta[m-1]; |k| >= 1 rejected; A += k B[m-1]; error = <A, A> at m >= order; "
                           "gamma_q = <z^-(m+1), B[q]>/beta[q]; B_m = z^-(m+1) - sum gamma_q B[q]; beta_m = <B_m, B_m>")
    kc = repo.strategy(LL, "lpc", "kcovar").node
    kb = docstring_free(kc.body)
    txt = {unparse(s.targets[0]): unparse(s.value) for s in kb if isinstance(s, ast.Assign)}
    for_loops = [s_ for s_ in kb if isinstance(s_, ast.For) and unparse(s_.iter) in ("xrange(1, order + 1)", "range(1, order + 1)")
                 and isinstance(s_.target, ast.Name) and s_.target.id == "m"]
    # for m in count(1): BODY   is   m = 1 ; while True: BODY ; m += 1   (BODY neither re-binds m nor continues)
    count_loops = [s_ for s_ in kb if isinstance(s_, ast.For) and isinstance(s_.iter, ast.Call)
                   and canon_call(repo.mod(LL), s_.iter) in ("itertools.count", "count") and [unparse(a_) for a_ in s_.iter.args] == ["1"]
                   and isinstance(s_.target, ast.Name) and s_.target.id == "m" and not s_.orelse
                   and not any(isinstance(n_, ast.Continue) for n_ in ast.walk(s_))
                   and not any(isinstance(n_, ast.Name) and n_.id == "m" and isinstance(n_.ctx, ast.Store)
                               for b_ in s_.body for n_ in ast.walk(b_))]
    if len(count_loops) == 1 and "m" not in txt:
        cl_ = count_loops[0]
        inc_ = ast.parse("m += 1").body[0]
        synth_ = ast.While(test=ast.Constant(value=True), body=list(cl_.body) + [inc_], orelse=[])
        ast.copy_location(synth_, cl_)
        ast.fix_missing_locations(synth_)
        for n_ in ast.walk(synth_):
            if not hasattr(n_, "lineno"):
                n_.lineno = cl_.lineno
        kb = [synth_ if s_ is cl_ else s_ for s_ in kb]
        txt["m"] = "1"
    ok = txt.get("phi") == "lag_matrix(blk, order)" and txt.get("order") == "len(phi) - 1" and txt.get("A") == "ZFilter(1)" \
        and txt.get("B") == "[z ** (-1)]" and txt.get("beta") == "[inner(B[0], B[0])]" \
        and (txt.get("m") == "1" or (len(for_loops) == 1 and "m" not in txt))
    chk.decide(ok, "C10.kcovar", WL("lpc[kcovar]"), "initialisation: %s" % {k: txt.get(k) for k in ("phi", "order", "A", "B", "beta", "m")},
               why="covariance recursion must start from A = 1, B0 = z^-1, beta0 = <B0, B0>", node=kc)
    inner = [f for f in kb if isinstance(f, FuncTypes) and f.name == "inner"]
    ok = len(inner) == 1 and "phi[i][j] * ai * bj" in unparse(inner[0])
    chk.decide(ok, "C10.kcovar", WL("lpc[kcovar].inner"), "sum phi[i][j] * a_i * b_j", why="covariance inner product", node=kc)
    wl = [s for s in kb if isinstance(s, ast.While)]
    counted = False
    if not wl and len(for_loops) == 1:
        # for m in 1..order: step ; if m < order: extend the basis      then error / return after the loop
        fl_ = for_loops[0]
        fb = list(fl_.body)
        ext = fb[-1] if fb and isinstance(fb[-1], ast.If) and not fb[-1].orelse else None
        after = kb[kb.index(fl_) + 1:]
        brk = [i_ for i_, s_ in enumerate(fb) if isinstance(s_, ast.If) and not s_.orelse and len(s_.body) == 1
               and isinstance(s_.body[0], ast.Break) and same_cond(norm_cmp(s_.test), parse_cond("m >= order"))]
        if len(brk) == 1 and not (ext is not None and same_cond(norm_cmp(ext.test), parse_cond("m < order"))):
            # step ; if m >= order: break ; extend the basis   - the extension is what follows the break
            ext = ast.If(test=ast.parse("m < order", mode="eval").body, body=fb[brk[0] + 1:], orelse=[])
            fb = fb[:brk[0]] + [ext]
        chk.require(ext is not None and same_cond(norm_cmp(ext.test), parse_cond("m < order")),
                    "lpc.kcovar: counted loop without the 'm < order' extension guard")
        # the same statements as the open-ended loop, in its order: step, termination, extension, increment
        fin_if = ast.If(test=ast.parse("m >= order", mode="eval").body, body=after, orelse=[])
        inc_ = ast.parse("m += 1").body[0]
        synth = ast.While(test=ast.Constant(value=True), body=fb[:-1] + [fin_if] + list(ext.body) + [inc_], orelse=[])
        ast.fix_missing_locations(synth)
        for n_ in ast.walk(synth):
            if not hasattr(n_, "lineno"):
                n_.lineno = fl_.lineno
        wl = [synth]
        counted = True
    chk.require(len(wl) == 1, "lpc.kcovar: main loop not found")
    chk.decide(isinstance(wl[0].test, ast.Constant) and bool(wl[0].test.value) is True and not wl[0].orelse, "C10.kcovar",
               WL("lpc[kcovar]"), "order recursion runs until its own termination test: while %s" % unparse(wl[0].test),
               why="the recursion must go on until m reaches the order", node=wl[0])

    def hk2(ev, name, node):
        if name == "inner":
            return opaque("inner", *[ev.ev(a) for a in node.args])
        return None

    grown = {"B": 0, "beta": 0}          # appends seen so far in the iteration: len == m + grown

    def sub2(ev, node):
        if isinstance(node, ast.Subscript) and isinstance(node.value, ast.Name) and node.value.id in ("B", "beta", "gamma"):
            if unparse(node.slice) == "-1" and node.value.id in grown:
                return opaque(node.value.id, RF.sym("m") - 1 + grown[node.value.id])
            return opaque(node.value.id, ev.ev(node.slice))
        return None
    from ..ratfun import sym_pow
    env = {"z": RF.sym("x") ** -1}
    x = RF.sym("x")
    m = RF.sym("m")
    stmts = wl[0].body
    try:
        for s_ in stmts:
            if isinstance(s_, ast.Assign) and len(s_.targets) == 1 and isinstance(s_.targets[0], ast.Name) \
                    and s_.targets[0].id not in ("k", "gamma", "m", "A"):
                try:
                    env[s_.targets[0].id] = Evaluator(env, call_hook=hk2, attr_hook=sub2).ev(s_.value)
                except Inconclusive:
                    pass
        tr = [s for s in stmts if isinstance(s, ast.Try)]
        kasg = tr[0].body[0] if tr else None
        okk = kasg is not None and unparse(kasg.targets[0]) == "k" and Evaluator(env, call_hook=hk2, attr_hook=sub2).ev(kasg.value) == \
            -opaque("inner", RF.sym("A"), sym_pow(x, m)) / opaque("beta", m - 1)
        chk.decide(okk, "C10.kcovar", WL("lpc[kcovar]"), short(kasg) if kasg is not None else "k missing",
                   why="k = -<A, z^-m> / beta[m-1]", node=wl[0])
        gd = [s for s in stmts if isinstance(s, ast.If) and "k" in unparse(s.test) and isinstance(s.body[0], ast.Raise)]
        okg = len(gd) == 1 and unparse(gd[0].test) in ("k >= 1 or k <= -1", "k <= -1 or k >= 1") and "ValueError" in unparse(gd[0].body[0])
        chk.decide(okg, "C10.kcovar", WL("lpc[kcovar]"), short(gd[0]) if gd else "stability guard missing",
                   why="|k| >= 1 must be rejected", node=wl[0])
        au = [s for s in stmts if isinstance(s, ast.AugAssign) and unparse(s.target) == "A"]
        oku = len(au) == 1 and isinstance(au[0].op, ast.Add) and \
            Evaluator(env, call_hook=hk2, attr_hook=sub2).ev(au[0].value) == RF.sym("k") * opaque("B", m - 1)
        chk.decide(oku, "C10.kcovar", WL("lpc[kcovar]"), short(au[0]) if au else "update missing", why="A += k * B[m-1]", node=wl[0])
        fin = [s for s in stmts if isinstance(s, ast.If) and same_cond(norm_cmp(s.test), parse_cond("m >= order"))]
        okf = len(fin) == 1 and [unparse(s) for s in fin[0].body] == ["A.error = inner(A, A)", "return A"]
        chk.decide(okf, "C10.kcovar", WL("lpc[kcovar]"), short(fin[0]) if fin else "termination missing",
                   why="at m >= order the error <A, A> is stored and A returned", node=wl[0])
        ga = [s for s in stmts if isinstance(s, ast.Assign) and unparse(s.targets[0]) == "gamma"]
        okga = False
        def over_q(comp, names):
            """environment in which the element of a comprehension over the first m indices can be read: either
            ``for q in range(m)`` or ``for a, b in zip(A, B)`` (both lists hold m items at that point)"""
            g = comp.generators[0]
            if len(comp.generators) != 1 or g.ifs:
                return None
            it_ = unparse(g.iter)
            if it_ in ("xrange(m)", "range(m)") and isinstance(g.target, ast.Name):
                return dict(env, **{g.target.id: RF.sym("q")})
            if isinstance(g.iter, ast.Call) and unparse(g.iter.func) in ("xzip", "zip") and isinstance(g.target, ast.Tuple) \
                    and len(g.target.elts) == len(g.iter.args) and all(isinstance(t_, ast.Name) for t_ in g.target.elts) \
                    and all(unparse(a_) in names for a_ in g.iter.args):
                e2 = dict(env)
                for t_, a_ in zip(g.target.elts, g.iter.args):
                    e2[t_.id] = opaque(unparse(a_), RF.sym("q"))
                return e2
            return None
        if len(ga) == 1 and isinstance(ga[0].value, ast.ListComp):
            lc = ga[0].value
            eq_ = over_q(lc, ("B", "beta"))
            okga = eq_ is not None and Evaluator(eq_, call_hook=hk2, attr_hook=sub2).ev(lc.elt) == \
                opaque("inner", sym_pow(x, m + 1), opaque("B", RF.sym("q"))) / opaque("beta", RF.sym("q"))
        chk.decide(okga, "C10.kcovar", WL("lpc[kcovar]"), short(ga[0]) if ga else "gamma missing",
                   why="gamma_q = <z^-(m+1), B[q]> / beta[q] for q < m", node=wl[0])
        ba = [s for s in stmts if isinstance(s, ast.Expr) and isinstance(s.value, ast.Call) and unparse(s.value.func) == "B.append"]
        okb = False
        new_name = None
        if len(ba) == 1:
            e = ba[0].value.args[0]
            if isinstance(e, ast.Name):
                # B.append(new_B) with new_B = <the expression>, bound once in the loop body
                defs_ = [s_ for s_ in stmts if isinstance(s_, ast.Assign) and len(s_.targets) == 1
                         and isinstance(s_.targets[0], ast.Name) and s_.targets[0].id == e.id]
                if len(defs_) == 1 and stmts.index(defs_[0]) < stmts.index(ba[0]):
                    new_name, e = e.id, defs_[0].value
            okb = isinstance(e, ast.BinOp) and isinstance(e.op, ast.Sub) \
                and Evaluator(env).ev(e.left) == sym_pow(x, m + 1) and isinstance(e.right, ast.Call) and unparse(e.right.func) == "sum"
            if okb:
                ge = e.right.args[0]
                eq_ = over_q(ge, ("gamma", "B")) if isinstance(ge, (ast.GeneratorExp, ast.ListComp)) else None
                okb = eq_ is not None and \
                    Evaluator(eq_, call_hook=hk2, attr_hook=sub2).ev(ge.elt) == opaque("gamma", RF.sym("q")) * opaque("B", RF.sym("q"))
        chk.decide(okb, "C10.kcovar", WL("lpc[kcovar]"), short(ba[0]) if ba else "B.append missing",
                   why="new basis vector = z^-(m+1) minus its projections on the previous ones", node=wl[0])
        be = [s for s in stmts if isinstance(s, ast.Expr) and isinstance(s.value, ast.Call) and unparse(s.value.func) == "beta.append"]
        okbe = False
        if len(be) == 1 and ba:
            grown["B"] = 1 if stmts.index(be[0]) > stmts.index(ba[0]) else 0
            try:
                env_b = dict(env)
                if new_name is not None and okb:
                    env_b[new_name] = opaque("B", m)        # the value just appended is B_m
                okbe = Evaluator(env_b, call_hook=hk2, attr_hook=sub2).ev(be[0].value.args[0]) == \
                    opaque("inner", opaque("B", m), opaque("B", m))
            finally:
                grown["B"] = 0
        inc = stmts[-1]
        okbe = okbe and unparse(inc) == "m += 1" and stmts.index(be[0]) > stmts.index(ba[0])
        chk.decide(okbe, "C10.kcovar", WL("lpc[kcovar]"), (short(be[0]) if be else "beta.append missing") + " ; " + short(inc),
                   why="beta_m = <B_m, B_m> after B_m exists, then m advances by one", node=wl[0])
    except Inconclusive as ex:
        raise AnalysisError("lpc.kcovar loop not interpretable: %s" % ex)
