"""C02  Everything is lazy: no read before demand, bounded read per output."""
import ast

from ..core import (AnalysisError, FuncTypes, unparse, short, canon, canon_call, base_name, own_nodes,
                    docstring_free, is_generator_function)
from .. import e2

EXPLANATION = (
    "Static analysis over a frozen stage table (printed in the evidence; one reason per entry). R2.1: in every "
    "non-generator stage (Stream methods and operator templates, thub/StreamTeeHub and its re-wrapping lambdas, "
    "lazy_itertools.tee, Streamix.add, LinearFilter/ZFilter/Cascade/Parallel __call__, clip, envelope.*, amdf, stft "
    "wrapper, TableLookup.__call__, design strategies with Stream parameters) a taint analysis of *handles* (values "
    "through which a source can be pulled) finds no pull effect - next(), for-statement, eager comprehension, "
    "list/tuple/sum/len/reduce/deque/join/take/peek, star- or tuple-unpacking, membership test - in the stage's own "
    "frame; generator stages are silent because tostream is exactly Stream(func(*args, **kwargs)) (checked). "
    "R2.2: for sample-wise generator stages an abstract interpretation over (pulls since yield, phase, yields since "
    "pull) shows that on every path each successful pull is followed by exactly one yield before the next pull "
    "attempt - so k outputs read exactly k inputs, for every input. R2.3: block stages pull only in a for header and "
    "yield at most once per pull (blocks, chunks.*), expanding stages (overlap_add, stft block generator) never yield "
    "before their first pull. ParallelFilter shares its source through thub(args[0], len(self)). Not decided: the "
    "read count (j-1)*hop+size of block stages (C08 decides the hop/size counters), the look-ahead amounts of "
    "resample and Stream.skip.")

UNDECIDED = ["(j-1)*hop+size for blocks (see C08 counters)", "look-ahead of resample / Stream.skip / size-detecting overlap_add"]

# (module, anchor, handles, containers, handle_exprs, exempt names, reason)
R21 = [
    ("lazy_stream", "Stream.__init__", [], ["dargs"], [], [], "wraps or chains the given iterables"),
    ("lazy_stream", "Stream.blocks", ["self"], ["args"], ["self._data"], [], "delegates to the blocks generator"),
    ("lazy_stream", "Stream.copy", ["self"], [], ["self._data"], [], "tee"),
    ("lazy_stream", "Stream.skip", ["self"], [], ["self._data"], [], "wraps in the skipper generator"),
    ("lazy_stream", "Stream.limit", ["self"], [], ["self._data"], [], "islice"),
    ("lazy_stream", "Stream.append", ["self"], ["other"], ["self._data"], [], "chain"),
    ("lazy_stream", "Stream.map", ["self"], [], ["self._data"], [], "lazy map"),
    ("lazy_stream", "Stream.filter", ["self"], [], ["self._data"], [], "lazy filter"),
    ("lazy_stream", "Stream.__getattr__", ["self"], [], ["self._data"], [], "generator expression"),
    ("lazy_stream", "Stream.__call__", ["self"], [], ["self._data"], [], "generator expression"),
    ("lazy_stream", "Stream.__abs__", ["self"], [], ["self._data"], [], "map(abs)"),
    ("lazy_stream", "Stream.__iter__", ["self"], [], ["self._data"], [], "hands out the iterator"),
    ("lazy_stream", "StreamMeta.__binary__.dunder", ["self", "other"], [], [], [], "operator template"),
    ("lazy_stream", "StreamMeta.__rbinary__.dunder", ["self", "other"], [], [], [], "operator template"),
    ("lazy_stream", "StreamMeta.__unary__.dunder", ["self"], [], [], [], "operator template"),
    ("lazy_stream", "tostream.new_func", [], ["args"], [], [], "wraps a generator function call"),
    ("lazy_stream", "StreamTeeHub.__init__", ["data", "self"], [], [], [], "tee of the source"),
    ("lazy_stream", "StreamTeeHub.__iter__", ["self"], [], ["self._iters"], [], "pops one tee copy"),
    ("lazy_stream", "StreamTeeHub.copy", ["self"], [], ["self._iters[0]"], [], "tee of a tee copy"),
    ("lazy_stream", "thub", ["data"], [], [], [], "hub constructor"),
    ("lazy_stream", "Streamix.add", ["data"], [], [], [], "queues iter(data)"),
    ("lazy_stream", "ControlStream.__init__", [], [], [], [], "no source"),
    ("lazy_itertools", "tee", ["data"], [], [], [], "itertools.tee"),
    ("lazy_filters", "LinearFilter.__call__", ["seq"], [], [], ["memory"], "memory may be consumed, seq never"),
    ("lazy_filters", "ZFilter.__call__", ["seq"], [], [], ["memory"], "delegates"),
    ("lazy_filters", "CascadeFilter.__call__", [], ["args"], [], [], "folds the parts over args[0]"),
    ("lazy_filters", "ParallelFilter.__call__", [], ["args"], [], [], "hub + sum of branches"),
    ("lazy_analysis", "clip", ["sig"], [], [], [], "generator expression"),
    ("lazy_analysis", "amdf.amdf_filter", ["sig"], [], [], [], "filter + moving average"),
    ("lazy_analysis", "maverage[deque]", [], [], [], [], "builder, no source yet"),
    ("lazy_synth", "TableLookup.__call__", ["freq", "phase"], [], [], [], "modulo_counter + generator expression"),
]
R21_STRATEGIES = [
    ("lazy_analysis", "envelope", None, ["sig", "cutoff"]),
    ("lazy_filters", "lowpass", None, ["cutoff"]),
    ("lazy_filters", "highpass", None, ["cutoff"]),
    ("lazy_filters", "resonator", None, ["freq", "bandwidth"]),
    ("lazy_filters", "comb", None, ["delay", "alpha", "tau"]),
    ("lazy_auditory", "gammatone", ["klapuri"], ["freq", "bandwidth"]),
]
# sample-wise generator stages: (module, anchor, sources, leading_ok, trailing_ok, reason)
R22 = [
    ("lazy_analysis", "zcross", ["seq"], False, False, "one 0/1 per input"),
    ("lazy_analysis", "unwrap", ["sig"], False, False, "one output per input"),
    ("lazy_analysis", "maverage[deque].maverage_filter", ["sig"], False, False, "one mean per input"),
    ("lazy_itertools", "accumulate[func]", ["iterable"], False, False, "one running sum per input"),
    ("lazy_misc", "zero_pad", ["seq"], True, True, "pads before and after, items in between"),
    ("lazy_synth", "modulo_counter", ["start", "modulo", "step"], True, False,
     "each leaf: one output per zipped input (scalar leaves have no source)"),
    ("lazy_wav", "WavStream.__init__.data_generator", ["sample_reader()"], False, False, "one sample per read"),
    ("lazy_wav", "WavStream.__init__.block_reader", [], True, True, "reads frames on demand (no iterable source)"),
]
# block stages: (module, anchor, sources, mode, reason)
R23 = [
    ("lazy_misc", "blocks", ["seq"], "block", "at most one block per pulled item, pad block at the end"),
    ("lazy_io", "chunks[struct]", ["seq"], "block", "one chunk per block"),
    ("lazy_io", "chunks[array]", ["seq"], "block", "at most one chunk per pulled item, padded chunk at the end"),
    ("lazy_analysis", "overlap_add[list]", ["blk_sig"], "expand", "hop samples per block, flush at the end"),
    ("lazy_analysis", "overlap_add[numpy]", ["blk_sig"], "expand", "hop samples per block, flush at the end"),
    ("lazy_analysis", "stft[rfft].wrapper.blk_gen", ["sig"], "block", "one processed block per block"),
]


def _resolve(repo, mname, anchor):
    """anchor: 'A.b.c' or 'dict[strategy]' optionally followed by '.inner'."""
    if "[" in anchor:
        head, rest = anchor.split("]", 1)
        d, s = head.split("[")
        st = repo.strategy(mname, d, s)
        node = st.node
        if not isinstance(node, FuncTypes):
            raise AnalysisError("strategy %s[%s] is not a def" % (d, s))
        for part in [p for p in rest.split(".") if p]:
            found = [f for f in ast.walk(node) if isinstance(f, FuncTypes) and f.name == part and f is not node]
            if not found:
                raise AnalysisError("anchor vanished: %s:%s" % (mname, anchor))
            node = found[0]
        return node
    return repo.find(mname, anchor)


def run(chk, repo):
    chk.rule("R2.1", "construction-time silence: in the frame of a non-generator stage no pull effect is applied to a "
                     "handle derived from the stage's sources (nested generators / lambdas are deferred, hence exempt)")
    chk.rule("R2.1.tostream", "tostream's wrapper is exactly 'return Stream(func(*args, **kwargs))': a generator "
                              "function's body runs only on the first next()")
    chk.rule("R2.2", "pull/yield alternation: on every path through a sample-wise generator stage each successful "
                     "pull is followed by exactly one yield before the next pull attempt; no yield before the first "
                     "pull / after exhaustion unless the stage is a padder")
    chk.rule("R2.3", "block stages pull only through a for header and yield at most once per pull; expanding stages "
                     "never yield before their first pull")
    n21 = 0
    table = []
    for mname, anchor, handles, containers, hexprs, exempt, why in R21:
        mod = repo.mod(mname)
        fn = _resolve(repo, mname, anchor)
        W = "%s:%s" % (mod.relpath, anchor)
        table.append("%s [%s] - %s" % (W, ", ".join(handles + containers + hexprs), why))
        if is_generator_function(fn):
            raise AnalysisError("%s is classified as a non-generator stage but contains a yield" % W)
        s = e2.Silence(fn, handles, containers, hexprs, exempt)
        pulls = s.pulls()
        n21 += 1
        if pulls:
            for p in pulls:
                chk.bad("R2.1", W, short(p.node), "%s (%s): the stage reads its source while being built, before any "
                        "output is requested" % (p.how, p.handle), node=p.node)
        else:
            chk.ok("R2.1", W, "no pull on %s in the stage's frame" % (handles + containers + hexprs), node=fn)
    # hub lambdas
    mod = repo.mod("lazy_stream")
    hub = repo.find("lazy_stream", "StreamTeeHub")
    for st in hub.body:
        if isinstance(st, ast.Assign):
            for lam in [n for n in ast.walk(st.value) if isinstance(n, ast.Lambda)]:
                s = e2.Silence(lam, ["self"], [a.arg for a in [lam.args.vararg] if a], [], [])
                pulls = s.pulls()
                n21 += 1
                W = "%s:StreamTeeHub.%s" % (mod.relpath, unparse(st.targets[0]))
                chk.decide(not pulls, "R2.1", W, short(lam), why="re-wrapping lambda pulls from the hub: %s"
                           % [p.how for p in pulls], node=lam)
    for mname, dname, only, params in R21_STRATEGIES:
        mod = repo.mod(mname)
        for st in repo.strategies_of(mname, dname):
            if st.kind != "def" or (only and not set(only) & set(st.names)):
                continue
            fn = st.node
            pn = [a.arg for a in fn.args.args]
            handles = [p for p in params if p in pn]
            if not handles:
                continue
            W = "%s:%s[%s]" % (mod.relpath, dname, st.names[0])
            table.append("%s [%s] - design/analysis strategy with Stream-valued parameters" % (W, ", ".join(handles)))
            if is_generator_function(fn):
                raise AnalysisError("%s became a generator function: reclassify" % W)
            s = e2.Silence(fn, handles)
            pulls = s.pulls()
            n21 += 1
            if pulls:
                for p in pulls:
                    chk.bad("R2.1", W, short(p.node), "%s (%s) at design time" % (p.how, p.handle), node=p.node)
            else:
                chk.ok("R2.1", W, "no pull on %s at design time" % handles, node=fn)
    # stft wrapper
    wr = _resolve(repo, "lazy_analysis", "stft[rfft].wrapper")
    s = e2.Silence(wr, ["sig"])
    pulls = s.pulls()
    n21 += 1
    W = "%s:stft[rfft].wrapper" % repo.mod("lazy_analysis").relpath
    table.append("%s [sig] - parameter merge, then blk_gen generator and overlap-add" % W)
    chk.decide(not pulls, "R2.1", W, "no pull on sig while wiring the STFT", why=str([p.how for p in pulls]), node=wr)
    chk.floor("R2.1", n21, 55, "non-generator stages classified")

    # a stage that was a generator function on the confirmed tree (building it runs nothing) and is an ordinary function
    # now: whatever it does when called happens at design time - none of its parameters may be pulled there
    chk.rule("R2.1.gen", "every function that is a generator function in the confirmed snapshot is still one, or pulls "
                         "nothing from any of its parameters when called")
    ngen = 0
    for mname_, rtree_ in sorted(repo.ref_trees.items()):
        if mname_ not in repo.modules:
            continue
        cur_defs = {}
        for n_ in ast.walk(repo.modules[mname_].tree):
            if isinstance(n_, FuncTypes):
                cur_defs.setdefault(n_.name, []).append(n_)
        ref_count = {}
        for n_ in ast.walk(rtree_):
            if isinstance(n_, FuncTypes) and is_generator_function(n_) and n_.args.args:
                k_ = ref_count.get(n_.name, 0)
                ref_count[n_.name] = k_ + 1
                cands = cur_defs.get(n_.name, [])
                if k_ >= len(cands):
                    continue
                cur_ = cands[k_]
                ngen += 1
                if is_generator_function(cur_):
                    continue
                params_ = [a_.arg for a_ in cur_.args.args if a_.arg not in ("self", "cls")]
                pulls_ = e2.Silence(cur_, params_).pulls()
                chk.decide(not pulls_, "R2.1.gen", "%s:%s" % (repo.modules[mname_].relpath, n_.name),
                           "no longer a generator function: no pull on %s at design time" % params_,
                           why="the body used to run at the first next(); now %s when the stage is built"
                               % ", ".join("%s (%s)" % (p_.how, p_.handle) for p_ in pulls_[:3]),
                           node=pulls_[0].node if pulls_ else cur_)
    chk.floor("R2.1.gen", ngen, 25, "generator functions of the snapshot found again")

    # tostream
    ts = repo.find("lazy_stream", "tostream.new_func")
    body = docstring_free(ts.body)
    good = len(body) == 1 and unparse(body[0]) == "return Stream(func(*args, **kwargs))"
    chk.decide(good, "R2.1.tostream", "%s:tostream.new_func" % repo.mod("lazy_stream").relpath,
               "; ".join(unparse(b) for b in body), why="anything else may evaluate the wrapped generator eagerly", node=ts)
    # every generator stage of the table is wrapped by tostream or consumed lazily by a Stream
    n22 = 0
    for mname, anchor, sources, lead, trail, why in R22:
        mod = repo.mod(mname)
        fn = _resolve(repo, mname, anchor)
        W = "%s:%s" % (mod.relpath, anchor)
        table.append("%s [%s] sample-wise generator - %s" % (W, ", ".join(sources), why))
        if not is_generator_function(fn):
            raise AnalysisError("%s is classified as a generator stage but has no yield" % W)
        alt = e2.Alternation(fn, sources, lead, trail, "sample")
        viol = alt.check()
        n22 += 1
        if sources and alt.n_pull_sites == 0:
            raise AnalysisError("%s: no pull site found for sources %s - idiom not recognised" % (W, sources))
        if viol:
            for what, node in viol:
                chk.bad("R2.2", W, short(node), what, node=node)
        else:
            chk.ok("R2.2", W, "%d pull site(s), %d yield site(s): one output per input on every path"
                   % (alt.n_pull_sites, alt.n_yield_sites), node=fn)
    chk.floor("R2.2", n22, 8, "sample-wise generator stages")
    n23 = 0
    for mname, anchor, sources, mode, why in R23:
        mod = repo.mod(mname)
        fn = _resolve(repo, mname, anchor)
        W = "%s:%s" % (mod.relpath, anchor)
        table.append("%s [%s] %s stage - %s" % (W, ", ".join(sources), mode, why))
        if not is_generator_function(fn):
            raise AnalysisError("%s is classified as a generator stage but has no yield" % W)
        alt = e2.Alternation(fn, sources, False, True, "block" if mode == "block" else "expand")
        viol = alt.check()
        if mode == "expand":
            viol = [(w, n) for w, n in viol if "second yield" not in w]
        n23 += 1
        if alt.n_pull_sites == 0:
            raise AnalysisError("%s: no pull site found for sources %s - idiom not recognised" % (W, sources))
        if viol:
            for what, node in viol:
                chk.bad("R2.3", W, short(node), what, node=node)
        else:
            chk.ok("R2.3", W, "%d pull site(s) in for headers, %d yield site(s)" % (alt.n_pull_sites, alt.n_yield_sites),
                   node=fn)
        # nothing pulled before the first yield-bearing loop except by peek (size detection is a documented look-ahead)
    chk.floor("R2.3", n23, 6, "block / expanding stages")

    # blocks: the item that completes a block is the last one read for it
    chk.rule("R2.3.complete", "in blocks every decision-tree leaf of a loop body that yields a block also appends the "
                              "pulled item in that same leaf: a block is emitted by the arrival of its own last item, "
                              "never by a later (skipped) one - j blocks read (j-1)*hop+size items, not more")
    from .c08 import leaves as _leaves
    bl = repo.find("lazy_misc", "blocks")
    mmod = repo.mod("lazy_misc")
    nlv = 0
    for loop in [n for n in ast.walk(bl) if isinstance(n, ast.For) and unparse(n.iter) == "seq"]:
        el = unparse(loop.target)
        for leaf in _leaves(list(loop.body)):
            ys = [s_ for s_ in leaf.stmts if isinstance(s_, ast.Expr) and isinstance(s_.value, ast.Yield)]
            if not ys:
                continue
            nlv += 1
            apps = [s_ for s_ in leaf.stmts if isinstance(s_, ast.Expr) and isinstance(s_.value, ast.Call)
                    and isinstance(s_.value.func, ast.Attribute) and s_.value.func.attr == "append"
                    and [unparse(a) for a in s_.value.args] == [el]]
            before = [a for a in apps if leaf.stmts.index(a) < leaf.stmts.index(ys[0])]
            ctxt = " and ".join(("" if p_ else "not ") + unparse(c) for c, p_ in leaf.conds) or "always"
            chk.decide(bool(before), "R2.3.complete", "%s:blocks" % mmod.relpath, "yield leaf [%s] appends the pulled item first" % ctxt,
                       why="a block is emitted on an item that is not part of it: the stage reads past the items the "
                           "block needs (more than (j-1)*hop+size for j blocks)", node=ys[0])
            # and nothing else is read from the source before the block is handed out (the items skipped when hop > size
            # are read when the next block is asked for, not before this one is delivered)
            srcs = {"seq"} | {unparse(a_.targets[0]) for a_ in ast.walk(bl) if isinstance(a_, ast.Assign)
                              and isinstance(a_.targets[0], ast.Name) and any(isinstance(n_, ast.Name) and n_.id == "seq"
                                                                               for n_ in ast.walk(a_.value))}
            early = [s_ for s_ in leaf.stmts[:leaf.stmts.index(ys[0])] if s_ not in apps and any(
                isinstance(n_, ast.Name) and n_.id in srcs and isinstance(n_.ctx, ast.Load) for n_ in ast.walk(s_))]
            chk.decide(not early, "R2.3.complete", "%s:blocks" % mmod.relpath,
                       "yield leaf [%s]: nothing is read from the source between the last item of the block and the yield" % ctxt,
                       why="%s reads further items before the block is delivered: j blocks cost more than (j-1)*hop+size "
                           "items" % (short(early[0]) if early else "-"), node=early[0] if early else ys[0])
    chk.floor("R2.3.complete", nlv, 1, "yielding leaves of blocks (2 on the confirmed tree: one per loop)")

    # resample: the window advances only once the position is strictly past its centre
    chk.rule("R2.4", "resample look-ahead: a new input sample is pulled only while idx > threshold (strictly) and each pull "
                     "is paired with idx -= 1, so output k never reads further than the samples its interpolation window needs")
    rs = repo.find("lazy_poly", "resample")
    pmod = repo.mod("lazy_poly")
    n24 = 0
    for wl in [n for n in ast.walk(rs) if isinstance(n, ast.While) and not (isinstance(n.test, ast.Constant))]:
        pulls = [n for n in ast.walk(wl) if isinstance(n, ast.Call) and unparse(n.func) == "next"]
        if not pulls:
            continue
        n24 += 1
        t = wl.test
        strict = False
        desc = unparse(t)
        if isinstance(t, ast.Compare) and len(t.ops) == 1:
            l, r_, op = unparse(t.left), unparse(t.comparators[0]), t.ops[0]
            thr = {"threshold"} | {unparse(s_.value) for s_ in ast.walk(rs) if isinstance(s_, ast.Assign)
                                   and unparse(s_.targets[0]) == "threshold"}
            strict = (isinstance(op, ast.Gt) and l == "idx" and r_ in thr) or (isinstance(op, ast.Lt) and r_ == "idx" and l in thr)
        dec = [s_ for s_ in wl.body if isinstance(s_, ast.AugAssign) and isinstance(s_.op, ast.Sub) and unparse(s_.target) == "idx"
               and unparse(s_.value) == "1"]
        chk.decide(strict and len(pulls) == 1 and len(dec) == 1, "R2.4", "%s:resample" % pmod.relpath,
                   "while %s: %s" % (desc, " ; ".join(unparse(s_) for s_ in wl.body)),
                   why="with a non-strict guard the window moves as soon as the position reaches its centre: one input more "
                       "than needed is read (and a finite input ends one output early)", node=wl)
    chk.floor("R2.4", n24, 1, "window-advance loops in resample")
    # ... and nothing in resample consumes a source as a whole
    tainted = {"sig", "step"}
    for _ in range(3):
        for a_ in ast.walk(rs):
            if isinstance(a_, ast.Assign) and len(a_.targets) == 1 and isinstance(a_.targets[0], ast.Name) \
                    and isinstance(a_.value, ast.Call) and unparse(a_.value.func) in ("iter", "Stream", "thub", "it.chain", "xmap", "xzip") \
                    and any(isinstance(n_, ast.Name) and n_.id in tainted for n_ in ast.walk(a_.value)):
                tainted.add(a_.targets[0].id)
    eager_sites = [n for n in ast.walk(rs) if isinstance(n, ast.Call) and unparse(n.func) in e2.Alternation.EAGER
                   and n.args and any(isinstance(x, ast.Name) and x.id in tainted for x in ast.walk(n.args[0]))
                   and not (isinstance(n.args[0], ast.Call) and isinstance(n.args[0].func, ast.Attribute) and n.args[0].func.attr in ("take", "peek")
                            and n.args[0].args)]
    chk.decide(not eager_sites, "R2.4", "%s:resample" % pmod.relpath,
               "no whole-source consumer (list / tuple / sum / len ...) on %s" % sorted(tainted),
               why="%s reads the whole input before the first output: an endless input never produces anything"
                   % (short(eager_sites[0]) if eager_sites else ""), node=eager_sites[0] if eager_sites else rs)

    # generator stages must not touch their source outside generator frames: being generator functions they cannot.
    # ParallelFilter hub
    pc = repo.find("lazy_filters", "ParallelFilter.__call__")
    fmod = repo.mod("lazy_filters")
    hubs = [n for n in own_nodes(pc) if isinstance(n, ast.Call) and base_name(canon(fmod, n.func)) == "thub"]
    good = len(hubs) == 1 and [unparse(a) for a in hubs[0].args] == ["args[0]", "len(self)"]
    if good:
        # one hub for all branches: the call is evaluated once, not once per branch (inside the comprehension / loop
        # over the filters every branch would get a hub - and a source iterator - of its own)
        p_ = getattr(hubs[0], "_parent", None)
        while p_ is not None and p_ is not pc:
            if isinstance(p_, (ast.GeneratorExp, ast.ListComp, ast.SetComp, ast.DictComp, ast.For, ast.While, ast.Lambda)):
                good = False
            p_ = getattr(p_, "_parent", None)
    chk.decide(good, "R2.1", "%s:ParallelFilter.__call__" % fmod.relpath,
               "source shared through " + (short(hubs[0]) if hubs else "<no thub>"),
               why="branches must share one read of the source: exactly len(self) tee copies", node=pc)
    # the memory handed to a filter may be a Stream too (karplus_strong(memory=white_noise()), an endless generator):
    # only its first items are wanted, so nothing may consume it as a whole
    chk.rule("R2.5", "LinearFilter.__call__: the `memory` argument (possibly an endless iterable) is only read through a "
                     "bounded view - takewhile / islice / zip with a range / a loop that breaks; no list(memory), "
                     "tuple(memory), sorted(memory), [x for x in memory], len(list(memory)) ...")
    lc = repo.find("lazy_filters", "LinearFilter.__call__")
    BOUNDED = ("takewhile", "it.takewhile", "itertools.takewhile", "islice", "it.islice", "itertools.islice")
    VIEWS = ("enumerate", "iter", "Stream", "xmap", "map", "xzip", "zip", "it.chain", "chain")

    def _unbounded_view(e):
        """is e `memory` itself or a lazy view of all of it?"""
        if isinstance(e, ast.Name):
            return e.id == "memory"
        if isinstance(e, ast.Call) and unparse(e.func) in VIEWS and e.args:
            if unparse(e.func) in ("xzip", "zip") and any(isinstance(a_, ast.Call) and unparse(a_.func) in ("xrange", "range")
                                                          for a_ in e.args):
                return False
            return any(_unbounded_view(a_) for a_ in e.args)
        if isinstance(e, (ast.GeneratorExp,)) and len(e.generators) == 1:
            return _unbounded_view(e.generators[0].iter)
        return False
    tainted_until = None
    top_ = docstring_free(lc.body)
    # `memory` stops being the caller's object once it is re-bound to something built from a bounded view
    sites25 = []
    live = True

    def _scan(stmts):
        nonlocal live
        for st in stmts:
            if not live:
                return
            if isinstance(st, (ast.If,)):
                for n in ast.walk(st.test):
                    _judge(n)
                _scan(st.body)
                was = live
                live = True if was or True else live
                _scan(st.orelse)
                continue
            if isinstance(st, (ast.For, ast.While)):
                has_break = any(isinstance(x, ast.Break) for x in ast.walk(st))
                if isinstance(st, ast.For) and _unbounded_view(st.iter) and not has_break:
                    sites25.append((st, "for %s in %s: ... (no break)" % (unparse(st.target), unparse(st.iter))))
                for sub in st.body:
                    for n in ast.walk(sub):
                        _judge(n)
                continue
            for n in ast.walk(st):
                _judge(n)
            if isinstance(st, ast.Assign) and any(isinstance(t_, ast.Name) and t_.id == "memory" for t_ in st.targets):
                v_ = st.value
                if not (isinstance(v_, ast.Call) and isinstance(v_.func, ast.Name) and v_.func.id == "memory"):
                    # memory = [.. bounded ..] / list(zero_pad(..)) ...: from here on it is the filter's own list
                    if not _unbounded_view(v_):
                        live = False

    def _judge(n):
        if isinstance(n, ast.Call) and unparse(n.func) in e2.Alternation.EAGER + ("len", "reversed") and n.args \
                and _unbounded_view(n.args[0]):
            sites25.append((n, short(n)))
        elif isinstance(n, (ast.ListComp, ast.SetComp, ast.DictComp)) and _unbounded_view(n.generators[0].iter):
            sites25.append((n, short(n)))
        elif isinstance(n, ast.Starred) and _unbounded_view(n.value):
            sites25.append((n, short(n)))
    _scan(top_)
    chk.decide(not sites25, "R2.5", "%s:LinearFilter.__call__" % fmod.relpath,
               "memory read through bounded views only" if not sites25 else "whole-memory consumer: %s" % sites25[0][1],
               why="an endless (or merely long) memory iterable is read to its end before the first output: the call "
                   "never returns / reads far more than the lm items it needs", node=sites25[0][0] if sites25 else lc)
    # designs built from Stream-valued parameters: each parameter is read once per output sample only if every
    # possibly-Stream value is used within its hub budget (the same obligations as C13's R4.1 / R4.2)
    from .c13 import design_hub_budgets
    design_hub_budgets(chk, repo)
    chk.facts["stage_table"] = table


def thorough(chk, repo):
    """Whole-package sweep: every exported callable with an iterable-looking parameter that is not in the stage
    table is reported as unclassified (a note)."""
    known = set()
    for row in R21:
        known.add(row[1].split(".")[0].split("[")[0])
    for row in R22 + R23:
        known.add(row[1].split(".")[0].split("[")[0])
    for row in R21_STRATEGIES:
        known.add(row[1])
    names = ("seq", "sig", "data", "iterable", "blk_sig")
    unclassified = []
    for m in repo.modules.values():
        for st in m.tree.body:
            if isinstance(st, FuncTypes) and st.name not in known and not st.name.startswith("_"):
                pn = [a.arg for a in st.args.args]
                if set(pn) & set(names):
                    unclassified.append("%s:%s(%s)" % (m.relpath, st.name, ", ".join(pn)))
    for u in unclassified:
        chk.note("R2.1", u, "exported callable with a source-like parameter outside the stage table (consumer by "
                 "contract or needs a sized block): not judged")
    return {"unclassified_callables": unclassified}
