"""C11  PARCOR step-down inverts Levinson and decides stability correctly."""
import ast

from ..core import (AnalysisError, FuncTypes, unparse, short, canon, canon_call, base_name, own_nodes,
                    docstring_free)
from ..ratfun import RF, Evaluator, Inconclusive, opaque, sym_pow
from ..cond import norm_cmp, same_cond, parse_cond

EXPLANATION = (
    "Static analysis of parcor / parcor_stable (lazy_lpc.py). E11 (homogeneity degrees): with the filter's denominator "
    "coefficients scaled by a gain g, the polynomial handed to the step-down recursion has degree 0 in g (it is divided "
    "by its own leading coefficient) - the recursion's '1 - k**2' and 'abs(k) < 1' are meaningful only at degree 0, so "
    "the verdict cannot depend on the gain. C11.strict: the stability test is 'abs(k) < 1' (strict) over every "
    "coefficient, and ParCorError means unstable (False). C11.origin: every 'raise ParCorError' sits in an "
    "'except ZeroDivisionError' whose try contains the division (raised only when 1 - k**2 vanishes). C11.recursion in "
    "normal form: for m = order..1: k = a[m] is yielded first, then A <- (A - k z^-m A(1/z)) / (1 - k^2), leading "
    "coefficient forced to 1; feedback filters are refused; a constant denominator is divided out. Not decided: the "
    "Schur-Cohn equivalence between |k_m| < 1 and the pole positions, the step-up inverse.")

UNDECIDED = ["equivalence of |k_m| < 1 with pole locations (Schur-Cohn theorem, trusted mathematics)",
             "step-up reconstruction"]

LL = "lazy_lpc"
TOP = "T"


def degree(e, env):
    """Homogeneity degree in the gain of `filt`'s denominator; None = not homogeneous / unknown."""
    if isinstance(e, ast.Constant):
        return 0
    if isinstance(e, ast.Name):
        return env.get(e.id)
    if isinstance(e, ast.Attribute):
        if unparse(e) in ("filt.denpoly",):
            return 1
        if e.attr in ("numpoly", "denpoly", "numerator", "denominator", "numlist", "denlist"):
            return degree(e.value, env)
        return None
    if isinstance(e, ast.Subscript):
        return degree(e.value, env)
    if isinstance(e, ast.UnaryOp):
        return degree(e.operand, env)
    if isinstance(e, ast.BinOp):
        a, b = degree(e.left, env), degree(e.right, env)
        if a is None or b is None:
            return None
        if isinstance(e.op, ast.Mult):
            return a + b
        if isinstance(e.op, ast.Div):
            return a - b
        if isinstance(e.op, (ast.Add, ast.Sub)):
            return a if a == b else None
        if isinstance(e.op, ast.Pow) and isinstance(e.right, ast.Constant) and isinstance(e.right.value, int):
            return a * e.right.value
        return None
    if isinstance(e, ast.Call):
        fn = unparse(e.func)
        if fn in ("ZFilter", "Poly", "abs", "float") and len(e.args) == 1:
            return degree(e.args[0], env)
        if isinstance(e.func, ast.Attribute) and e.func.attr == "copy":
            return degree(e.func.value, env)
        return None
    return None


def run(chk, repo):
    mod = repo.mod(LL)
    W = lambda q: "%s:%s" % (mod.relpath, q)

    chk.rule("E11", "homogeneity: the argument of parcor() inside parcor_stable has degree 0 in the gain of "
                    "filt.denpoly (degrees: constants 0, filt.denpoly 1, indexing keeps, product adds, quotient "
                    "subtracts, sum needs equal degrees)")
    chk.rule("C11.strict", "parcor_stable returns all(abs(k) < 1 ...) with a strict comparison against 1, and False on "
                           "ParCorError")
    ps = repo.find(LL, "parcor_stable")
    body = docstring_free(ps.body)
    tr = [s for s in body if isinstance(s, ast.Try)]
    chk.require(len(tr) == 1, "parcor_stable: try block not found")
    env = {}
    for st in tr[0].body:
        if isinstance(st, ast.Assign) and isinstance(st.targets[0], ast.Name):
            env[st.targets[0].id] = degree(st.value, env)
    calls = [n for n in ast.walk(ps) if isinstance(n, ast.Call) and unparse(n.func) == "parcor"]
    chk.require(len(calls) == 1, "parcor_stable: call of parcor not found")
    d = degree(calls[0].args[0], env)
    chk.decide(d == 0, "E11", W("parcor_stable"), "parcor(%s) has degree %s in the denominator gain"
               % (unparse(calls[0].args[0]), "?" if d is None else d),
               why="the step-down recursion (1 - k**2, |k| < 1) assumes a monic polynomial: with a non-unit leading "
                   "coefficient the verdict changes with the filter gain (1/(2 - z^-1) reported unstable)",
               node=calls[0])
    divs = [n for st in tr[0].body for n in ast.walk(st) if isinstance(n, ast.BinOp) and isinstance(n.op, ast.Div)]
    okm = len(divs) == 1 and unparse(divs[0].left) in ("filt.denpoly", "filt.denpoly.copy()") \
        and unparse(divs[0].right) in ("filt.denpoly[0]", "filt.denominator[0]", "filt.dendict[0]")
    chk.decide(okm, "E11", W("parcor_stable"), "monic by construction: " + (unparse(divs[0]) if divs else "no division"),
               why="the polynomial is made monic by dividing the whole denominator by its own zero-delay coefficient", node=ps)
    mentions = "filt.denpoly" in unparse(calls[0]) or any("filt.denpoly" in unparse(s) for s in tr[0].body)
    chk.decide(mentions, "E11", W("parcor_stable"), "the tested polynomial is the filter's denominator",
               why="stability is decided by the denominator", node=ps)
    rets = [n for n in ast.walk(tr[0]) if isinstance(n, ast.Return)]
    main = [r for r in rets if isinstance(r.value, ast.Call) and unparse(r.value.func) == "all"]
    ok = len(main) == 1 and isinstance(main[0].value.args[0], ast.GeneratorExp)
    if ok:
        ge = main[0].value.args[0]
        kv = unparse(ge.generators[0].target)
        t = ge.elt
        ok = isinstance(t, ast.Compare) and len(t.ops) == 1 and (
            (isinstance(t.ops[0], ast.Lt) and unparse(t.left) == "abs(%s)" % kv and unparse(t.comparators[0]) == "1") or
            (isinstance(t.ops[0], ast.Gt) and unparse(t.comparators[0]) == "abs(%s)" % kv and unparse(t.left) == "1"))
        ok = ok and ge.generators[0].iter is calls[0] and not ge.generators[0].ifs
    chk.decide(ok, "C11.strict", W("parcor_stable"), short(main[0]) if main else "return all(...) missing",
               why="stable iff every reflection coefficient is strictly inside the unit circle (|k| = 1 is critical, "
                   "hence False)", node=ps)
    hd = tr[0].handlers
    ok = len(hd) == 1 and unparse(hd[0].type) == "ParCorError" and [unparse(s) for s in hd[0].body] == ["return False"]
    chk.decide(ok, "C11.strict", W("parcor_stable"), "except ParCorError: return False",
               why="|k| = 1 during step-down means a pole on the unit circle: not stable", node=tr[0])

    chk.rule("C11.origin", "every 'raise ParCorError' is inside 'except ZeroDivisionError' of a try whose body divides")
    n_raise = 0
    for m in repo.modules.values():
        for n in ast.walk(m.tree):
            if isinstance(n, ast.Raise) and n.exc is not None and "ParCorError" in unparse(n.exc):
                n_raise += 1
                p = getattr(n, "_parent", None)
                ok = isinstance(p, ast.ExceptHandler) and p.type is not None and unparse(p.type) == "ZeroDivisionError"
                if ok:
                    t = p._parent
                    ok = any(isinstance(x, ast.BinOp) and isinstance(x.op, ast.Div) or
                             (isinstance(x, ast.AugAssign) and isinstance(x.op, ast.Div)) for s in t.body for x in ast.walk(s))
                from ..core import enclosing_qual
                chk.decide(ok, "C11.origin", "%s:%s" % (m.relpath, enclosing_qual(n)), short(n),
                           why="ParCorError may only report a division by zero of the recursion", node=n)
    chk.floor("C11.origin", n_raise, 2, "raise ParCorError sites")

    chk.rule("C11.recursion", "parcor: refuses feedback, divides a constant denominator out; for m from len(numerator)-1 "
                              "down to 1: k = numpoly[m]; yield k; zB = A(1/z) z^-m; A <- (A - k zB)/(1 - k^2) under "
                              "try/ZeroDivisionError; then A <- (A - A.numpoly[0]) + 1")
    pc = repo.find(LL, "parcor")
    pb = docstring_free(pc.body)
    g = [s for s in pb if isinstance(s, ast.If)]
    ok = len(g) == 1 and unparse(g[0].test) == "len(den) != 1" and "ValueError" in unparse(g[0].body[0]) \
        and len(g[0].orelse) == 1 and unparse(g[0].orelse[0].test) == "den[0] != 1" \
        and unparse(g[0].orelse[0].body[0]) == "fir_filt /= den[0]"
    chk.decide(ok, "C11.recursion", W("parcor"), short(g[0])[:110] if g else "guards missing",
               why="filters with feedback are refused, a constant denominator is divided out", node=pc)
    lp = [s for s in pb if isinstance(s, ast.For)]
    if not lp:
        wl = [s for s in pb if isinstance(s, ast.While)]
        if len(wl) == 1:
            # which variable indexes numpoly[...] ?  is it derived from the polynomial being stepped down?
            idxs = {unparse(n.slice) for n in ast.walk(wl[0]) if isinstance(n, ast.Subscript)
                    and unparse(n.value) == "fir_filt.numpoly" and unparse(n.slice) != "0"}
            dep = [a for a in ast.walk(wl[0]) if isinstance(a, ast.Assign) and unparse(a.targets[0]) in idxs
                   and "fir_filt" in unparse(a.value)]
            reassigned = any(isinstance(a, ast.Assign) and unparse(a.targets[0]) == "fir_filt" for a in ast.walk(wl[0]))
            if dep and reassigned or ("fir_filt" in unparse(wl[0].test) and reassigned):
                chk.bad("C11.recursion", W("parcor"), "while %s: %s" % (unparse(wl[0].test), short(dep[0]) if dep else ""),
                        "the order index is read from the polynomial being stepped down: when a reflection coefficient is "
                        "exactly zero the stored polynomial loses more than one order per step (zero coefficients are "
                        "not stored) and that coefficient is skipped - the orders must be counted down one by one from "
                        "the initial length", node=wl[0])
                return
    chk.require(len(lp) == 1, "parcor: loop not found")
    lp = lp[0]
    chk.decide(unparse(lp.iter) in ("xrange(len(fir_filt.numerator) - 1, 0, -1)", "range(len(fir_filt.numerator) - 1, 0, -1)"),
               "C11.recursion", W("parcor"), "orders: " + unparse(lp.iter), why="from the filter order down to 1, last "
               "coefficient first", node=lp)
    mv = unparse(lp.target)
    b = lp.body
    kinds = []
    for s in b:
        if isinstance(s, ast.Assign):
            kinds.append("set:" + unparse(s.targets[0]))
        elif isinstance(s, ast.Expr) and isinstance(s.value, ast.Yield):
            kinds.append("yield:" + unparse(s.value.value))
        elif isinstance(s, ast.Try):
            kinds.append("try")
    chk.decide(kinds == ["set:k", "yield:k", "set:zB", "try", "set:fir_filt"], "C11.recursion", W("parcor"),
               "step order: %s" % kinds, why="k must be read and yielded before the filter is stepped down", node=lp)

    def hk(ev, name, node):
        if isinstance(node.func, ast.Name) and node.func.id == "fir_filt" and len(node.args) == 1:
            return opaque("subst", RF.sym("A"), ev.ev(node.args[0]))
        return None

    def ah(ev, node):
        if isinstance(node, ast.Subscript) and unparse(node.value) == "fir_filt.numpoly":
            idx = ev.ev(node.slice)
            if idx == RF.sym(mv):
                return RF.sym("a_m")
            if idx == 0:
                return RF.sym("a_0")
            return opaque("coef", idx)
        return None
    env = {"z": RF.sym("x") ** -1, "fir_filt": RF.sym("A")}
    try:
        ka = b[0]
        okk = Evaluator(env, call_hook=hk, attr_hook=ah).ev(ka.value) == RF.sym("a_m")
        zb = [s for s in b if isinstance(s, ast.Assign) and unparse(s.targets[0]) == "zB"][0]
        zv = Evaluator(env, call_hook=hk, attr_hook=ah).ev(zb.value)
        okz = zv == opaque("subst", RF.sym("A"), RF.sym("x")) * sym_pow(RF.sym("x"), RF.sym(mv))
        tr2 = [s for s in b if isinstance(s, ast.Try)][0]
        up = tr2.body[0]
        env2 = dict(env, k=RF.sym("k"), zB=RF.sym("zB"))
        uv = Evaluator(env2, call_hook=hk, attr_hook=ah).ev(up.value)
        oku = unparse(up.targets[0]) == "fir_filt" and uv == (RF.sym("A") - RF.sym("k") * RF.sym("zB")) / (1 - RF.sym("k") ** 2)
        fin = b[-1]
        fv = Evaluator(env, call_hook=hk, attr_hook=ah).ev(fin.value)
        okf = unparse(fin.targets[0]) == "fir_filt" and fv == RF.sym("A") - RF.sym("a_0") + 1
    except (Inconclusive, IndexError, AttributeError) as ex:
        raise AnalysisError("parcor loop not interpretable: %s" % ex)
    chk.decide(okk, "C11.recursion", W("parcor"), short(ka), why="k_m is the coefficient of z^-m", node=ka)
    chk.decide(okz, "C11.recursion", W("parcor"), short(zb), why="reversed polynomial z^-m A(1/z)", node=zb)
    chk.decide(oku, "C11.recursion", W("parcor"), short(up), why="step-down: A <- (A - k zB) / (1 - k^2)", node=up)
    chk.decide(okf, "C11.recursion", W("parcor"), short(fin), why="leading coefficient is forced back to exactly 1", node=fin)

    # the Levinson side of the identity error = r[0] * prod(1 - k_m^2): the error stored by levinson_durbin is <A, A>
    # itself (the recursion keeps <A_m, A_m> = <A_{m-1}, A_{m-1}> (1 - k_m^2), C10.levinson), whatever its sign
    chk.rule("C11.error", "levinson_durbin stores error = inner(A, A) as it is (no abs / clamp: with an odd number of "
                          "|k_m| > 1 the product r[0] * prod(1 - k_m^2) is negative)")
    ld = repo.find(LL, "levinson_durbin")
    ea = [s for s in ast.walk(ld) if isinstance(s, ast.Assign) and len(s.targets) == 1 and unparse(s.targets[0]).endswith(".error")]
    chk.require(ea, "levinson_durbin: no '.error = ...' assignment")
    for s in ea:
        tgt = unparse(s.targets[0])[:-len(".error")]
        chk.decide(unparse(s.value) in ("inner(%s, %s)" % (tgt, tgt),), "C11.error", W("levinson_durbin"), short(s),
                   why="the prediction error must be the inner product <A, A> of the solution with itself, sign included",
                   node=s)

    # parcor is a generator: every call has to get a generator of its own, and every order has to yield its coefficient
    chk.rule("C11.generator", "parcor is not memoised (a cached generator is handed out used) and its loop yields one "
                              "coefficient per order: no continue / break / return in the loop body outside the handler "
                              "of the caught division")
    pc_ = repo.find(LL, "parcor")
    memo = [unparse(d) for d in pc_.decorator_list if any(w in unparse(d) for w in ("cache", "memo", "lru"))]
    chk.decide(not memo, "C11.generator", W("parcor"), "decorators: %s" % ([unparse(d) for d in pc_.decorator_list] or "none"),
               why="a memoised generator function returns the same generator object for an equal filter: the second call "
                   "sees it exhausted (or suspended in the middle)", node=pc_)
    for lp_ in [n for n in ast.walk(pc_) if isinstance(n, (ast.For, ast.While)) and any(isinstance(x, ast.Yield) for x in ast.walk(n))]:
        jumps = []
        for n in ast.walk(lp_):
            if isinstance(n, (ast.Continue, ast.Break, ast.Return)):
                p_ = getattr(n, "_parent", None)
                in_handler = False
                while p_ is not None and p_ is not lp_:
                    if isinstance(p_, ast.ExceptHandler):
                        in_handler = True
                    p_ = getattr(p_, "_parent", None)
                if not in_handler:
                    jumps.append(n)
        chk.decide(not jumps, "C11.generator", W("parcor"), "the step-down loop has no shortcut past its yield (%d found)" % len(jumps),
                   why="an iteration that is skipped (e.g. for a zero coefficient) yields nothing: the sequence of reflection "
                       "coefficients loses an order and the step-up no longer rebuilds the filter", node=jumps[0] if jumps else lp_)
