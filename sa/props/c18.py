"""C18  PCM byte codecs are exact: chunk packing and WAV sample decoding."""
import ast
import array as _array
import struct as _struct
import wave as _wave

from ..core import (AnalysisError, FuncTypes, unparse, short, canon, canon_call, base_name, own_nodes,
                    docstring_free)
from ..ratfun import RF, Evaluator, Inconclusive

EXPLANATION = (
    "Static analysis of chunks.struct / chunks.array (lazy_io.py) and WavStream (lazy_wav.py). E10: every attribute "
    "called on an object whose class is known from a standard-library constructor (array.array, struct.Struct, "
    "wave.open(.., 'rb')) exists on that class in the interpreter the library runs on (reflection on the stdlib only), "
    "unless it sits in a getattr/or fallback. Sibling parameters: the two chunk strategies have one signature and each "
    "reads every parameter; struct prepends byte_order to str(size)+dfmt and packs every block of blocks(seq, size, "
    "padval); array fills a native array of `size` constant items, exports it after exactly `size` items (counter "
    "automaton), pads the tail with padval, and swaps bytes exactly when the requested order differs from "
    "sys.byteorder ('<' vs big, '>'/'!' vs little), swapping back afterwards. WavStream: the unpacker table has keys "
    "8*{1,2,3,4}; every Struct format is little-endian and its calcsize equals the sample width plus the prefix bytes; "
    "each entry of the unpacker table is interpreted abstractly on n unknown bytes (E15: exact linear forms over the "
    "bytes, struct formats read through the struct module's size table, shifts, masks, manual sign correction) and must "
    "equal the little-endian two's complement value for every byte string, 8-bit the unsigned byte; every use of "
    "readframes sits inside the try whose finally closes the file; "
    "normalisation divides by 1 << (bits-1) after subtracting 128 for 8 bits; bits = 8*sampwidth, rate and channels "
    "mirror the header; stereo frames are split at the sample width; the file is closed in a finally around the read "
    "loop. Not decided: byte-exact round trips (value level).")

UNDECIDED = ["byte-exact round trips for every value (follow from struct/array semantics, not executed)"]

LI, LW = "lazy_io", "lazy_wav"

STDLIB_CTORS = {"array.array": _array.array, "struct.Struct": _struct.Struct, "Struct": _struct.Struct,
                "wave.open": _wave.Wave_read}


def _manual_twos_complement(helper, fmt, bits):
    """Recognise  def h(unpack): def u(v): value = unpack(v + PAD)[0]; return value - M if value OP T else value
    Returns (good, description, why) or None when the shape is different."""
    inner = [f for f in helper.body if isinstance(f, FuncTypes)]
    if len(inner) != 1 or len(helper.args.args) != 1:
        return None
    up = helper.args.args[0].arg
    u = inner[0]
    body = docstring_free(u.body)
    if len(body) != 2 or not isinstance(body[0], ast.Assign) or not isinstance(body[1], ast.Return):
        return None
    vv = u.args.args[0].arg
    a = body[0]
    val = unparse(a.targets[0])
    e = a.value
    if not (isinstance(e, ast.Subscript) and unparse(e.slice) == "0" and isinstance(e.value, ast.Call)
            and unparse(e.value.func) == up):
        return None
    arg = e.value.args[0]
    pad_hi = pad_lo = b""
    if isinstance(arg, ast.BinOp) and isinstance(arg.op, ast.Add):
        if unparse(arg.left) == vv and isinstance(arg.right, ast.Constant):
            pad_hi = arg.right.value
        elif unparse(arg.right) == vv and isinstance(arg.left, ast.Constant):
            pad_lo = arg.left.value
        else:
            return None
    elif unparse(arg) != vv:
        return None
    r = body[1].value
    if not (isinstance(r, ast.IfExp) and unparse(r.orelse) == val and isinstance(r.body, ast.BinOp)
            and isinstance(r.body.op, ast.Sub) and unparse(r.body.left) == val and isinstance(r.test, ast.Compare)
            and len(r.test.ops) == 1 and unparse(r.test.left) == val):
        return None
    try:
        M = ast.literal_eval(r.body.right)
        T = ast.literal_eval(r.test.comparators[0])
    except Exception:
        return None
    op = type(r.test.ops[0])
    first_negative = T if op is ast.GtE else T + 1 if op is ast.Gt else None
    what = "Struct(%r) on v + %r: value - %#x if value %s %#x else value" % (
        fmt, pad_hi or pad_lo, M, {ast.GtE: ">=", ast.Gt: ">"}.get(op, "?"), T)
    unsigned_le = fmt.startswith("<") and fmt[-1:] in ("I", "L", "H", "B", "Q")
    size_ok = _struct.calcsize(fmt) == bits // 8 + len(pad_hi) + len(pad_lo)
    good = unsigned_le and size_ok and pad_lo == b"" and set(pad_hi) <= {0} and M == 1 << bits \
        and first_negative == 1 << (bits - 1)
    why = ("manual sign extension must subtract 2**%d exactly for values >= 2**%d (the most negative sample %d included), "
           "on a zero-extended little-endian unsigned read of %d bytes" % (bits, bits - 1, -(1 << (bits - 1)), bits // 8))
    return good, what, why


def _e10(chk, repo, mname, fn, W):
    """Attributes called/read on locals typed by stdlib constructors."""
    mod = repo.mod(mname)
    types = {}
    for n in ast.walk(fn):
        if isinstance(n, ast.Assign) and isinstance(n.value, ast.Call):
            c = canon_call(mod, n.value)
            if c in STDLIB_CTORS:
                for t in n.targets:
                    types[unparse(t)] = (c, STDLIB_CTORS[c])
    n_attr = 0
    for n in ast.walk(fn):
        if isinstance(n, ast.Attribute) and unparse(n.value) in types and isinstance(n.ctx, ast.Load):
            cname, cls = types[unparse(n.value)]
            # fallback idioms: right operand of `getattr(x, name, default) or x.attr`
            p = getattr(n, "_parent", None)
            fallback = isinstance(p, ast.BoolOp) and isinstance(p.op, ast.Or) and p.values[0] is not n \
                and isinstance(p.values[0], ast.Call) and unparse(p.values[0].func) == "getattr" and len(p.values[0].args) == 3
            # the same with try / except AttributeError: the handler runs only when the first spelling is missing
            q = p
            handler = None
            while q is not None and q is not fn:
                if isinstance(q, ast.ExceptHandler) and q.type is not None and "AttributeError" in unparse(q.type):
                    handler = q
                    break
                q = getattr(q, "_parent", None)
            if handler is not None and isinstance(getattr(handler, "_parent", None), ast.Try):
                tried = [x for b_ in handler._parent.body for x in ast.walk(b_)
                         if isinstance(x, ast.Attribute) and unparse(x.value) == unparse(n.value) and isinstance(x.ctx, ast.Load)]
                if tried:
                    chk.decide(all(hasattr(cls, x.attr) for x in tried), "E10", W,
                               "%s.%s only after AttributeError on %s.%s which exists" % (unparse(n.value), n.attr, cname, tried[0].attr),
                               why="neither alternative exists on this interpreter", node=n)
                    n_attr += 1
                    continue
            if fallback:
                g = p.values[0]
                first = g.args[1].value if isinstance(g.args[1], ast.Constant) else None
                chk.decide(first is not None and hasattr(cls, first), "E10", W,
                           "%s: fallback chain starts with %s.%s which exists" % (short(p), cname, first),
                           why="neither alternative exists on this interpreter", node=n)
                n_attr += 1
                continue
            n_attr += 1
            chk.decide(hasattr(cls, n.attr), "E10", W, "%s.%s (on %s)" % (unparse(n.value), n.attr, cname),
                       why="%s has no attribute '%s' on this interpreter: AttributeError at the first chunk" % (cname, n.attr),
                       node=n)
        if isinstance(n, ast.Call) and unparse(n.func) == "getattr" and len(n.args) >= 2 and unparse(n.args[0]) in types \
                and isinstance(n.args[1], ast.Constant) and len(n.args) == 2:
            cname, cls = types[unparse(n.args[0])]
            n_attr += 1
            chk.decide(hasattr(cls, n.args[1].value), "E10", W, short(n), why="attribute missing on %s" % cname, node=n)
    return n_attr, types


def buffers_built_here(chk, imod, fn, rule, where):
    """every name of ``fn`` that is written item by item (``buf[i] = x``) is bound, in ``fn``, to a container built by that
    very call - two generators (two players) must never fill one shared buffer"""
    # (written inside a loop: the per-item filling of a buffer, not the one-time entry of a look-up table)
    written = {n_.value.id for lp_ in ast.walk(fn) if isinstance(lp_, (ast.For, ast.While)) for n_ in ast.walk(lp_)
               if isinstance(n_, ast.Subscript) and isinstance(n_.ctx, ast.Store) and isinstance(n_.value, ast.Name)}
    for bname in sorted(written):
        binds = [n_ for n_ in ast.walk(fn) if isinstance(n_, ast.Assign) and any(
            isinstance(t_, ast.Name) and t_.id == bname for t_ in n_.targets)]
        fresh = bool(binds) and all(
            (isinstance(b_.value, ast.Call) and canon_call(imod, b_.value) in ("array.array", "bytearray", "list"))
            or isinstance(b_.value, (ast.List, ast.ListComp))
            or (isinstance(b_.value, ast.BinOp) and isinstance(b_.value.op, ast.Mult) and isinstance(b_.value.left, ast.List))
            for b_ in binds)
        chk.decide(fresh, rule, where, "%s, written item by item, is built in this call: %s"
                   % (bname, "; ".join(short(b_) for b_ in binds) or "bound outside the function"),
                   why="a buffer that outlives the call (a cache, a module-level object, an argument) is shared by every "
                       "generator using it: two interleaved consumers overwrite each other's half-filled chunk", node=fn)
    return len(written)


def run(chk, repo):
    imod, wmod = repo.mod(LI), repo.mod(LW)
    WI = lambda q: "%s:%s" % (imod.relpath, q)
    WW = lambda q: "%s:%s" % (wmod.relpath, q)
    chk.rule("E10", "attributes used on objects built by standard-library constructors exist on this interpreter")
    cs = repo.strategy(LI, "chunks", "struct").node
    ca = repo.strategy(LI, "chunks", "array").node
    n1, _ = _e10(chk, repo, LI, cs, WI("chunks[struct]"))
    n2, _ = _e10(chk, repo, LI, ca, WI("chunks[array]"))
    ws = repo.find(LW, "WavStream.__init__")
    n3, _ = _e10(chk, repo, LW, ws, WW("WavStream.__init__"))
    # w = self._file alias inside block_reader
    br = repo.find(LW, "WavStream.__init__.block_reader")
    alias = [s for s in docstring_free(br.body) if isinstance(s, ast.Assign) and unparse(s.value) == "self._file"]
    if alias:
        wn = unparse(alias[0].targets[0])
        for n in ast.walk(br):
            if isinstance(n, ast.Attribute) and unparse(n.value) == wn:
                n3 += 1
                chk.decide(hasattr(_wave.Wave_read, n.attr), "E10", WW("WavStream.__init__.block_reader"),
                           "%s.%s (Wave_read)" % (wn, n.attr), why="Wave_read has no such attribute", node=n)
    chk.floor("E10", n1 + n2 + n3, 8, "stdlib attribute uses")

    # ------------------------------------------------------------ siblings
    chk.rule("C18.siblings", "chunks.struct and chunks.array: same signature; every parameter is read by each")
    sig = lambda f: ([a.arg for a in f.args.args], [unparse(d) for d in f.args.defaults])
    chk.decide(sig(cs) == sig(ca), "C18.siblings", WI("chunks"), "signatures %s" % (sig(cs)[0],),
               why="strategies of one dictionary must be interchangeable: %s vs %s" % (sig(cs), sig(ca)), node=ca)
    for name, fn in (("struct", cs), ("array", ca)):
        used = {n.id for n in ast.walk(fn) if isinstance(n, ast.Name) and isinstance(n.ctx, ast.Load)}
        for p in sig(fn)[0]:
            chk.decide(p in used, "C18.siblings", WI("chunks[%s]" % name), "parameter %s is read" % p,
                       why="the parameter is accepted but ignored: the strategies disagree whenever it is given", node=fn)

    # ---------------------------------------------------------------- struct
    chk.rule("C18.struct", "chunks.struct: format = [byte_order] + str(size) + dfmt; one pack(*block) per block of "
                           "blocks(seq, size, padval=padval)")
    sb = docstring_free(cs.body)

    def _fmt_of(scn):
        """the argument of struct.Struct(..) as a list of concatenated pieces, for one scenario
        (byte_order None or not, size None or not); locals are resolved to what they were bound to"""
        env = {}

        class R(ast.NodeTransformer):
            def visit_Name(self, n):
                if isinstance(n.ctx, ast.Load) and n.id in env:
                    return ast.parse(unparse(env[n.id]), mode="eval").body
                return n

            def visit_IfExp(self, n):
                d = decide(n.test)
                if d is None:
                    self.generic_visit(n)
                    return n
                return self.visit(n.body if d else n.orelse)

        def decide(t):
            if isinstance(t, ast.UnaryOp) and isinstance(t.op, ast.Not):
                d = decide(t.operand)
                return None if d is None else not d
            u = unparse(t)
            for nm in ("byte_order", "size"):
                if u == "%s is None" % nm:
                    return scn[nm] is None
                if u == "%s is not None" % nm:
                    return scn[nm] is not None
            return None
        found = []

        def run_(stmts):
            for st_ in stmts:
                if isinstance(st_, ast.Assign) and len(st_.targets) == 1 and isinstance(st_.targets[0], ast.Name):
                    v_ = R().visit(ast.parse(unparse(st_.value), mode="eval").body)
                    for c_ in ast.walk(v_):
                        if isinstance(c_, ast.Call) and canon_call(imod, c_) == "struct.Struct" and c_.args:
                            found.append(c_.args[0])
                            break
                    env[st_.targets[0].id] = v_
                elif isinstance(st_, ast.If):
                    d = decide(st_.test)
                    if d is None:
                        # a test on something else (a cache, a flag): both arms may run; what they bind is not a plain
                        # function of the parameters any more
                        run_(st_.body)
                        run_(st_.orelse)
                        found.append(ast.Name(id="<depends on %s>" % unparse(st_.test)[:30], ctx=ast.Load()))
                    else:
                        run_(st_.body if d else st_.orelse)
                elif isinstance(st_, (ast.For, ast.While)):
                    for n_ in ast.walk(st_):
                        if isinstance(n_, ast.Call) and canon_call(imod, n_) == "struct.Struct" and n_.args:
                            found.append(R().visit(ast.parse(unparse(n_.args[0]), mode="eval").body))
                    break
        run_(sb)
        if len(found) != 1:
            return None, env

        def flat(e):
            if isinstance(e, ast.BinOp) and isinstance(e.op, ast.Add):
                return flat(e.left) + flat(e.right)
            return [unparse(e)]
        return flat(found[0]), env
    okf = True
    seen_fmt = []
    for scn in ({"byte_order": None, "size": 1}, {"byte_order": "<", "size": 1}, {"byte_order": None, "size": None},
                {"byte_order": "<", "size": None}):
        pieces, env_ = _fmt_of(scn)
        sz = "str(size)" if scn["size"] is not None else "str(chunks.size)"
        want_ = ([] if scn["byte_order"] is None else ["byte_order"]) + [sz, "dfmt"]
        seen_fmt.append(pieces)
        if pieces != want_:
            okf = False
    chk.decide(okf, "C18.struct", WI("chunks[struct]"), "format string per (byte_order, size) given or not: %s" % seen_fmt,
               why="format must be the byte order character (when given) followed by the count (chunks.size by default) "
                   "and the type code", node=cs)
    lp = [s for s in sb if isinstance(s, ast.For)]
    loc_s = {unparse(a_.targets[0]): a_.value for a_ in sb if isinstance(a_, ast.Assign) and len(a_.targets) == 1}

    def is_pack(e):
        """expression evaluating to the pack method of the Struct built above"""
        if isinstance(e, ast.Name) and e.id in loc_s:
            return is_pack(loc_s[e.id])
        if isinstance(e, ast.Attribute) and e.attr == "pack":
            b_ = e.value
            if isinstance(b_, ast.Name) and b_.id in loc_s:
                b_ = loc_s[b_.id]
            return isinstance(b_, ast.Call) and canon_call(imod, b_) == "struct.Struct"
        return False
    ok = len(lp) == 1 and len(lp[0].body) == 1 and isinstance(lp[0].body[0], ast.Expr) and isinstance(lp[0].body[0].value, ast.Yield)
    if ok:
        tv = unparse(lp[0].target)
        yv = lp[0].body[0].value.value
        it_ = lp[0].iter
        if unparse(it_) == "blocks(seq, size, padval=padval)":
            ok = isinstance(yv, ast.Call) and is_pack(yv.func) and [unparse(a_) for a_ in yv.args] == ["*" + tv] and not yv.keywords
        elif isinstance(it_, ast.Call) and unparse(it_.func) in ("xmap", "map") and len(it_.args) == 2 \
                and unparse(it_.args[1]) == "blocks(seq, size, padval=padval)" and unparse(yv) == tv:
            f_ = it_.args[0]
            ok = isinstance(f_, ast.Lambda) and len(f_.args.args) == 1 and isinstance(f_.body, ast.Call) and is_pack(f_.body.func) \
                and [unparse(a_) for a_ in f_.body.args] == ["*" + f_.args.args[0].arg] and not f_.body.keywords
        else:
            ok = False
    chk.decide(ok, "C18.struct", WI("chunks[struct]"), short(lp[0]) if lp else "loop missing",
               why="every block (padded with padval) must be packed once", node=cs)

    # ----------------------------------------------------------------- array
    chk.rule("C18.array", "chunks.array: native array of `size` constant items; swap iff requested order differs from "
                          "sys.byteorder; export swaps, exports, swaps back; one export per `size` items; tail padded "
                          "with padval")
    ab = docstring_free(ca.body)
    at = {unparse(s.targets[0]): s for s in ast.walk(ca) if isinstance(s, ast.Assign)}
    ch = at.get("chunk")
    ok = ch is not None and isinstance(ch.value, ast.Call) and canon_call(imod, ch.value) == "array.array" \
        and unparse(ch.value.args[0]) == "dfmt"
    if ok:
        init = ch.value.args[1]
        ok = isinstance(init, ast.BinOp) and isinstance(init.op, ast.Mult) and (
            (isinstance(init.left, ast.List) and all(isinstance(e, ast.Constant) for e in init.left.elts) and unparse(init.right) == "size") or
            (isinstance(init.right, ast.List) and all(isinstance(e, ast.Constant) for e in init.right.elts) and unparse(init.left) == "size"))
    chk.decide(ok, "C18.array", WI("chunks[array]"), short(ch) if ch is not None else "chunk missing",
               why="the buffer must hold `size` items whose initial values are representable in every format (constants, "
                   "not a range that overflows narrow integer types)", node=ca)
    sw = at.get("swap")
    ok = False
    if sw is not None and isinstance(sw.value, ast.Compare) and isinstance(sw.value.ops[0], ast.Eq):
        l, r = sw.value.left, sw.value.comparators[0]
        call, other = (l, r) if isinstance(l, ast.Call) else (r, l)
        if isinstance(call, ast.Call) and isinstance(call.func, ast.Attribute) and call.func.attr == "get" \
                and isinstance(call.func.value, ast.Dict) and unparse(call.args[0]) == "byte_order":
            try:
                d = ast.literal_eval(call.func.value)
            except Exception:
                d = None
            ok = d == {"<": "big", ">": "little", "!": "little"} and canon(imod, other) == "sys.byteorder"
    chk.decide(ok, "C18.array", WI("chunks[array]"), short(sw) if sw is not None else "swap decision missing",
               why="bytes must be swapped exactly when '<' is requested on a big-endian machine or '>' / '!' on a "
                   "little-endian one (None, '@', '=' are native)", node=ca)
    ex = [f for f in ast.walk(ca) if isinstance(f, FuncTypes) and f.name == "export"]
    ok = len(ex) == 1
    if ok:
        eb = docstring_free(ex[0].body)
        ok = len(eb) == 2 and isinstance(eb[0], ast.If) and unparse(eb[0].test) == "swap" \
            and [unparse(s) for s in eb[0].body] == ["chunk.byteswap()", "data = tobytes()", "chunk.byteswap()", "return data"] \
            and unparse(eb[1]) == "return tobytes()"
    if ok is False or (len(ex) == 1 and not ok):
        # the swap test taken once, outside: if swap: def export(): swap, export, swap back  else: export = tobytes
        cond = [n_ for n_ in ab if isinstance(n_, ast.If) and unparse(n_.test) == "swap" and len(n_.body) == 1 and len(n_.orelse) == 1]
        if len(cond) == 1 and isinstance(cond[0].body[0], FuncTypes) and cond[0].body[0].name == "export":
            eb2 = docstring_free(cond[0].body[0].body)
            alt = cond[0].orelse[0]
            ok = [unparse(s_) for s_ in eb2] == ["chunk.byteswap()", "data = tobytes()", "chunk.byteswap()", "return data"] \
                and not cond[0].body[0].args.args \
                and (unparse(alt) == "export = tobytes" or (isinstance(alt, FuncTypes) and alt.name == "export"
                                                            and [unparse(s_) for s_ in docstring_free(alt.body)] == ["return tobytes()"]))
    chk.decide(ok, "C18.array", WI("chunks[array].export"), "swap, export, swap back; plain export otherwise",
               why="the buffer must return to native order so that later items are stored correctly", node=ca)
    tb = at.get("tobytes")
    ok = tb is not None and unparse(tb.value) in ("getattr(chunk, 'tobytes', None) or chunk.tostring", "chunk.tobytes")
    tbs = [n_ for n_ in ast.walk(ca) if isinstance(n_, ast.Assign) and [unparse(t_) for t_ in n_.targets] == ["tobytes"]]
    if not ok and len(tbs) == 2:
        # try: tobytes = chunk.tobytes / except AttributeError: tobytes = chunk.tostring
        tries_ = [n_ for n_ in ast.walk(ca) if isinstance(n_, ast.Try) and len(n_.body) == 1 and n_.body[0] is tbs[0]
                  and len(n_.handlers) == 1 and n_.handlers[0].type is not None
                  and unparse(n_.handlers[0].type) == "AttributeError" and len(n_.handlers[0].body) == 1
                  and n_.handlers[0].body[0] is tbs[1] and not n_.orelse and not n_.finalbody]
        ok = len(tries_) == 1 and unparse(tbs[0].value) == "chunk.tobytes" and unparse(tbs[1].value) == "chunk.tostring"
    chk.decide(ok, "C18.array", WI("chunks[array]"), short(tb) if tb is not None else "tobytes missing",
               why="export must be the byte string of the array", node=ca)
    buffers_built_here(chk, imod, ca, "C18.array", WI("chunks[array]"))
    lp = [s for s in ab if isinstance(s, ast.For)]
    ok = len(lp) == 1 and unparse(lp[0].iter) == "seq"
    if ok:
        el = unparse(lp[0].target)
        ok = [unparse(s) for s in lp[0].body] == ["chunk[idx] = %s" % el, "idx += 1",
                                                  "if idx == size:\n    yield export()\n    idx = 0"]
    i0 = [s for s in ab if isinstance(s, ast.Assign) and unparse(s) == "idx = 0"]
    chk.decide(ok and len(i0) == 1, "C18.array", WI("chunks[array]"), "fill: " + (" ; ".join(unparse(s) for s in lp[0].body) if lp else "?"),
               why="item k of a chunk is stored at index k; a chunk is exported after exactly `size` items and the index "
                   "restarts at 0", node=ca)
    tail = ab[-1]
    from ..dtable import Facts as _F, holds as _holds
    ok = isinstance(tail, ast.If) and all(_holds(tail.test, _F(values={"idx": v_})) is (v_ != 0) for v_ in (0, 1, 7)) \
        and [unparse(s) for s in tail.body] in (["for idx in xrange(idx, size):\n    chunk[idx] = padval", "yield export()"],
                                                ["while idx < size:\n    chunk[idx] = padval\n    idx += 1", "yield export()"])
    chk.decide(ok, "C18.array", WI("chunks[array]"), "tail: " + short(tail, 120),
               why="a partial last chunk is padded with padval up to `size` and exported once", node=tail)

    # --------------------------------------------------------------- unpackers
    chk.rule("C18.unpackers", "WavStream._unpackers: keys 8, 16, 24, 32; Struct formats little-endian with calcsize == "
                              "width/8 + prefix length; 24 bits: one zero byte prefixed, result >> 8; 8 bits: ord")
    up = repo.find_assign(LW, "_unpackers", scope="WavStream")
    if isinstance(up, ast.Call) and unparse(up.func) in ("dict", "OrderedDict") and len(up.args) == 1 and not up.keywords \
            and isinstance(up.args[0], (ast.GeneratorExp, ast.ListComp)) and len(up.args[0].generators) == 1 \
            and not up.args[0].generators[0].ifs and isinstance(up.args[0].generators[0].target, ast.Name) \
            and isinstance(up.args[0].generators[0].iter, (ast.List, ast.Tuple)) \
            and isinstance(up.args[0].elt, ast.Tuple) and len(up.args[0].elt.elts) == 2:
        # dict((bits, make(bits)) for bits in [8, 16, ..]): the table it spells out, entry by entry
        g_ = up.args[0].generators[0]

        class _K(ast.NodeTransformer):
            def __init__(self, val):
                self.val = val

            def visit_Name(self, n_):
                if n_.id == g_.target.id and isinstance(n_.ctx, ast.Load):
                    return ast.copy_location(ast.parse(unparse(self.val), mode="eval").body, n_)
                return n_
        ks_, vs_ = [], []
        for item_ in g_.iter.elts:
            ks_.append(_K(item_).visit(ast.parse(unparse(up.args[0].elt.elts[0]), mode="eval").body))
            v_new = _K(item_).visit(ast.parse(unparse(up.args[0].elt.elts[1]), mode="eval").body)
            ast.copy_location(v_new, up)
            for n_ in ast.walk(v_new):
                n_.lineno = getattr(up, "lineno", 1)
                n_.col_offset = 0
            vs_.append(v_new)
        up = ast.copy_location(ast.Dict(keys=ks_, values=vs_), up)
    elif isinstance(up, ast.DictComp) and len(up.generators) == 1 and not up.generators[0].ifs \
            and isinstance(up.generators[0].target, ast.Name) and isinstance(up.generators[0].iter, (ast.List, ast.Tuple)):
        g_ = up.generators[0]
        ks_, vs_ = [], []
        for item_ in g_.iter.elts:
            sub_ = lambda e_: ast.parse(unparse(e_).replace(g_.target.id, unparse(item_)), mode="eval").body
            ks_.append(sub_(up.key))
            vs_.append(sub_(up.value))
        for v_new in vs_:
            for n_ in ast.walk(v_new):
                n_.lineno = getattr(up, "lineno", 1)
                n_.col_offset = 0
        up = ast.copy_location(ast.Dict(keys=ks_, values=vs_), up)
    chk.require(isinstance(up, ast.Dict), "WavStream._unpackers is not a dict literal")
    from .. import bytecodec as bc
    keys = []
    for k, v in zip(up.keys, up.values):
        try:
            bits = ast.literal_eval(k)
        except Exception:
            raise AnalysisError("_unpackers key is not a literal")
        keys.append(bits)
        Wk = WW("WavStream._unpackers[%s]" % bits)
        if type(bits) is not int or bits % 8 or bits <= 0:
            chk.bad("C18.unpackers", Wk, "width %r" % (bits,), why="PCM widths are whole bytes", node=v)
            continue
        n = bits // 8
        want = bc.unsigned_target(1) if bits == 8 else bc.signed_target(n)
        try:
            got = bc.decode(repo, LW, v, n)
        except bc.WrongSize as ex:
            chk.bad("C18.unpackers", Wk, short(v), why="struct.error on every sample: %s" % ex, node=v)
            continue
        except bc.Undecided as ex:
            raise AnalysisError("_unpackers[%s]: decoder not interpretable (%s): %s" % (bits, ex, short(v)))
        ok = isinstance(got, bc.Int) and got.key() == want.key()
        chk.decide(ok, "C18.unpackers", Wk, "decodes %d byte(s) to %s" % (n, got.describe() if isinstance(got, bc.Int) else got),
                   why="a %d-bit sample is %s; expected %s for every byte string" % (
                       bits, "an unsigned byte" if bits == 8 else "the little-endian two's complement value of its %d bytes "
                       "(sign extension from bit %d, the most negative sample included)" % (n, bits - 1), want.describe()),
                   node=v)
    chk.decide(sorted(keys) == [8, 16, 24, 32], "C18.unpackers", WW("WavStream._unpackers"), "widths %s" % sorted(keys),
               why="PCM widths 8, 16, 24, 32 must all be supported", node=up)

    # ------------------------------------------------------------- generator
    chk.rule("C18.decode", "WavStream: bits = 8*sampwidth, rate/channels from the header; keep -> unpacker(el); otherwise "
                           "(ord(v) - 128 for 8 bits) / (1 << (bits - 1)); stereo frames split at bits // 8; file closed "
                           "in a finally around the read loop")
    it = {unparse(s.targets[0]): unparse(s.value) for s in docstring_free(ws.body) if isinstance(s, ast.Assign)}
    ok = it.get("self._file") in ("wave.open(wave_file, 'rb')",) and it.get("self.rate") == "self._file.getframerate()" \
        and it.get("self.channels") == "self._file.getnchannels()" and it.get("self.bits") == "8 * self._file.getsampwidth()"
    chk.decide(ok, "C18.decode", WW("WavStream.__init__"), str({k: v for k, v in it.items() if k.startswith("self.")}),
               why="rate, channels and bits must mirror the header (bits = 8 * sample width)", node=ws)
    dg = repo.find(LW, "WavStream.__init__.data_generator")
    db = docstring_free(dg.body)
    ok = unparse(db[0]) == "unpacker = WavStream._unpackers[self.bits]" and isinstance(db[1], ast.If) and unparse(db[1].test) == "keep"
    chk.decide(ok, "C18.decode", WW("WavStream.data_generator"), short(db[0]), why="decoder chosen by the file's width", node=dg)
    def _decode_loop(stmts, divisor):
        """the loop yields unpacker(sample) [/ divisor] for every item of sample_reader(), in either spelling"""
        loops = [s_ for s_ in stmts if isinstance(s_, ast.For)]
        if len(loops) != 1 or len(loops[0].body) != 1:
            return False, "loop missing"
        lp = loops[0]
        y = lp.body[0]
        if not (isinstance(y, ast.Expr) and isinstance(y.value, ast.Yield) and y.value.value is not None):
            return False, short(lp)
        v = unparse(lp.target)
        it_, val = unparse(lp.iter), unparse(y.value.value)
        direct = it_ == "sample_reader()" and val == ("unpacker(%s)" % v if divisor is None else "unpacker(%s) / %s" % (v, divisor))
        mapped = it_ in ("xmap(unpacker, sample_reader())", "map(unpacker, sample_reader())") \
            and val == (v if divisor is None else "%s / %s" % (v, divisor))
        return direct or mapped, short(lp)
    if ok:
        kb = db[1].body
        good, what = _decode_loop(kb, None)
        chk.decide(good and len(kb) == 1, "C18.decode", WW("WavStream.data_generator"), "keep: " + what,
                   why="with keep the stored integers are yielded as they are", node=dg)
        nb = db[1].orelse
        txt = [unparse(s_) for s_ in nb]
        dasg = [s_ for s_ in nb if isinstance(s_, ast.Assign) and isinstance(s_.targets[0], ast.Name)
                and unparse(s_.value) in ("1 << self.bits - 1", "2 ** (self.bits - 1)")]
        dname = unparse(dasg[0].targets[0]) if len(dasg) == 1 else None
        eight = [s_ for s_ in nb if isinstance(s_, ast.If) and unparse(s_.test) in ("self.bits == 8", "8 == self.bits")
                 and not s_.orelse and len(s_.body) == 1]
        ok8 = False
        desc8 = "8-bit override missing"
        if len(eight) == 1:
            b8 = eight[0].body[0]
            from .. import bytecodec as bc
            expr8 = None
            if isinstance(b8, ast.Assign) and unparse(b8.targets[0]) == "unpacker":
                expr8 = b8.value
            elif isinstance(b8, FuncTypes) and b8.name == "unpacker":
                expr8 = ast.Lambda(args=b8.args, body=docstring_free(b8.body)[-1].value) \
                    if len(docstring_free(b8.body)) == 1 and isinstance(docstring_free(b8.body)[-1], ast.Return) else None
            if expr8 is not None:
                try:
                    got8 = bc.decode(repo, LW, expr8, 1)
                    ok8 = isinstance(got8, bc.Int) and got8.key() == bc.Int({0: 1}, -128).key()
                    desc8 = "8 bits: %s" % (got8.describe() if isinstance(got8, bc.Int) else got8)
                except (bc.Undecided, bc.WrongSize) as ex:
                    raise AnalysisError("8-bit normalisation not interpretable: %s" % ex)
        goodl, whatl = _decode_loop(nb, dname)
        okn = dname is not None and ok8 and goodl and len(nb) == 3
        chk.decide(okn, "C18.decode", WW("WavStream.data_generator"),
                   "normalised: divisor %s ; %s ; %s" % (unparse(dasg[0].value) if dasg else "?", desc8, whatl),
                   why="samples must be (value, minus 128 for unsigned 8 bits) divided by 2**(bits-1): range [-1, 1)", node=dg)
    fut = [n for n in wmod.tree.body if isinstance(n, ast.ImportFrom) and n.module == "__future__" and
           any(a.name == "division" for a in n.names)]
    chk.decide(bool(fut), "C18.decode", WW("<module>"), "true division in force", why="integer division would truncate "
               "samples to 0/-1 on Python 2", node=wmod.tree)
    sr = repo.find(LW, "WavStream.__init__.sample_reader")
    stx = unparse(sr)
    ok = "if self.channels == 1:\n        return block_reader()" in stx and "sample_width = self.bits // 8" in stx \
        and "yield el[:sample_width]" in stx and "yield el[sample_width:]" in stx \
        and stx.index("yield el[:sample_width]") < stx.index("yield el[sample_width:]")
    if not ok and "if self.channels == 1:\n        return block_reader()" in stx and "sample_width = self.bits // 8" in stx:
        # chain.from_iterable over (left, right) pairs of every frame: the same interleaving
        ch = [n for n in ast.walk(sr) if isinstance(n, ast.Call) and unparse(n.func) in ("it.chain.from_iterable", "chain.from_iterable")]
        if len(ch) == 1 and len(ch[0].args) == 1 and isinstance(ch[0].args[0], (ast.GeneratorExp, ast.ListComp)):
            g_ = ch[0].args[0]
            v_ = unparse(g_.generators[0].target)
            ok = len(g_.generators) == 1 and not g_.generators[0].ifs and unparse(g_.generators[0].iter) == "block_reader()" \
                and isinstance(g_.elt, (ast.Tuple, ast.List)) \
                and [unparse(e_) for e_ in g_.elt.elts] == ["%s[:sample_width]" % v_, "%s[sample_width:]" % v_]
    chk.decide(ok, "C18.decode", WW("WavStream.sample_reader"), "mono frames as they are; stereo frames split at the "
               "sample width, left then right", why="channels must be interleaved in order", node=sr)
    bb = docstring_free(br.body)
    tr = [s for s in bb if isinstance(s, ast.Try)]
    ok = len(tr) == 1 and tr[0].finalbody and [unparse(s) for s in tr[0].finalbody] == ["%s.close()" % (unparse(alias[0].targets[0]) if alias else "w")] \
        and any(isinstance(s, ast.While) for s in tr[0].body)
    if ok:
        wl = [s for s in tr[0].body if isinstance(s, ast.While)][0]
        ok = [unparse(s) for s in wl.body] == ["el = w.readframes(1)", "if not el:\n    break", "yield el"] \
            and isinstance(wl.test, ast.Constant) and bool(wl.test.value) is True and not wl.orelse
    elif len(tr) == 1 and tr[0].finalbody and [unparse(s) for s in tr[0].finalbody] == [
            "%s.close()" % (unparse(alias[0].targets[0]) if alias else "w")] and len(tr[0].body) == 1 \
            and isinstance(tr[0].body[0], ast.For):
        # for el in iter(lambda: w.readframes(1), b''): yield el      - frames until the empty one
        fl_ = tr[0].body[0]
        wn_ = unparse(alias[0].targets[0]) if alias else "w"
        ok = unparse(fl_.iter) == "iter(lambda: %s.readframes(1), b'')" % wn_ \
            and [unparse(s) for s in fl_.body] == ["yield %s" % unparse(fl_.target)]
    chk.decide(ok, "C18.decode", WW("WavStream.block_reader"), "read one frame at a time until empty; close() in finally",
               why="the file must be closed once the stream is exhausted (or abandoned), and frames read in order", node=br)
    wd = [unparse(d) for d in ws.args.defaults]
    chk.decide(wd == ["False"], "C18.decode", WW("WavStream.__init__"), "keep defaults to %s" % wd,
               why="by default samples are normalised to [-1, 1); keep=True hands out the raw integers", node=ws)
    from ..dtable import Facts, walk as _dwalk
    for cfn, cname in ((cs, "struct"), (ca, "array")):
        try:
            for given in (False, True):
                w_ = _dwalk(docstring_free(cfn.body), Facts(none=[] if given else ["size"], kinds={"size": {"int"}} if given else {}),
                            "chunks.%s" % cname, strict=False)
                ss = [x for x in w_.texts() if x.startswith("size = ") and x != "size = size"]
                chk.decide(ss == ([] if given else ["size = chunks.size"]), "C18.%s" % cname, WI("chunks[%s]" % cname),
                           "size %s -> %s" % ("given" if given else "None", "; ".join(ss) or "kept"),
                           why="the chunk size defaults to chunks.size and is kept when given", node=cfn)
        except AnalysisError as ex:
            chk.defer(str(ex))
    chk.rule("C18.close", "every read of frames (any use of .readframes) sits inside a try whose finally closes the wave file")
    nrf = 0
    for n in ast.walk(ws):
        if isinstance(n, ast.Attribute) and n.attr == "readframes":
            nrf += 1
            p, guarded = n, False
            while p is not None and p is not ws:
                par = getattr(p, "_parent", None)
                if isinstance(par, ast.Try) and any(p is x for x in par.body) and any(
                        isinstance(c, ast.Call) and isinstance(c.func, ast.Attribute) and c.func.attr == "close"
                        for f_ in par.finalbody for c in ast.walk(f_)):
                    guarded = True
                    break
                if isinstance(par, FuncTypes) and par is not ws:
                    # the function holding the read: its whole frame loop must be the guarded region, so keep climbing
                    # only inside this function
                    pass
                p = par
            chk.decide(guarded, "C18.close", WW("WavStream.__init__"), "%s at line %d" % (unparse(n), n.lineno),
                       why="frames read outside the try/finally that closes the file: on that path the file stays open "
                           "after the stream is exhausted", node=n)
    chk.floor("C18.close", nrf, 1, "uses of readframes")
    # ... and the generator that reads the frames cannot end without passing through that finally: no return (or a
    # fall-through) outside the try that closes the file
    for g_ in [f_ for f_ in ast.walk(ws) if isinstance(f_, FuncTypes) and f_ is not ws and any(
            isinstance(x_, ast.Attribute) and x_.attr == "readframes" for x_ in ast.walk(f_))]:
        closing = [t_ for t_ in ast.walk(g_) if isinstance(t_, ast.Try) and any(
            isinstance(c, ast.Call) and isinstance(c.func, ast.Attribute) and c.func.attr == "close"
            for f2 in t_.finalbody for c in ast.walk(f2))]
        if not closing:
            continue
        inside = {id(x_) for t_ in closing for x_ in ast.walk(t_)}
        loose = [r_ for r_ in own_nodes(g_) if isinstance(r_, ast.Return) and id(r_) not in inside]
        chk.decide(not loose, "C18.close", WW("WavStream.__init__.%s" % g_.name),
                   "every exit of %s passes through the finally that closes the file" % g_.name,
                   why="a return before the try (an early exit for an empty file ...) leaves the generator without "
                       "closing the wave file", node=loose[0] if loose else g_)
    # ownership: Wave_read.close() closes the underlying file only when the wave module opened it itself - a file
    # object opened by the constructor and handed to wave.open must be closed by the constructor's own clean-up
    wparam = ws.args.args[1].arg if len(ws.args.args) > 1 else "wave_file"
    for n in ast.walk(ws):
        if isinstance(n, ast.Call) and isinstance(n.func, ast.Name) and n.func.id in ("open", "io.open") or (
                isinstance(n, ast.Call) and unparse(n.func) in ("io.open", "builtins.open", "io.FileIO", "io.BufferedReader")):
            par_ = getattr(n, "_parent", None)
            owner = unparse(par_.targets[0]) if isinstance(par_, ast.Assign) and par_.value is n else None
            closed = owner is not None and any(
                isinstance(c, ast.Call) and isinstance(c.func, ast.Attribute) and c.func.attr == "close"
                and unparse(c.func.value) == owner
                for t_ in ast.walk(ws) if isinstance(t_, ast.Try) for f_ in t_.finalbody for c in ast.walk(f_))
            chk.decide(closed, "C18.close", WW("WavStream.__init__"), "file opened by the constructor: %s" % short(par_ if par_ is not None else n),
                       why="closing the Wave_read object does not close a file object it was given: the file stays open after "
                           "the stream is exhausted", node=n)
    wopens = [n for n in ast.walk(ws) if isinstance(n, ast.Call) and unparse(n.func) == "wave.open"]
    chk.decide(len(wopens) == 1 and wopens[0].args and unparse(wopens[0].args[0]) == wparam, "C18.close", WW("WavStream.__init__"),
               "wave.open(%s, ..)" % (unparse(wopens[0].args[0]) if wopens and wopens[0].args else "?"),
               why="the wave module opens (and therefore owns and closes) what the caller named", node=ws)
    last = docstring_free(ws.body)[-1]
    chk.decide(unparse(last) in ("super(WavStream, self).__init__(data_generator())", "super().__init__(data_generator())"),
               "C18.decode", WW("WavStream.__init__"), short(last), why="the Stream must wrap the decoding generator", node=last)
